"""Protocol layer set between a bottom recorder (the wire at stanza level) and a top recorder (the application), for any
of the 16 optional-module selections, with or without the three encryption layers (DESIGN.md section 4.4)."""
import os
import shutil
import tempfile

from .. import compat
from . import env as envkit
from .stackkit import Bottom, Top, new_stack_class, drain_detached

from yowsup.layers import YowParallelLayer, YowLayerEvent
from yowsup.layers.network import YowNetworkLayer
from yowsup.layers.axolotl import AxolotlSendLayer, AxolotlControlLayer, AxolotlReceivelayer
from yowsup.layers.protocol_iq import YowIqProtocolLayer
from yowsup.layers.logger import YowLoggerLayer
from yowsup.stacks import YowStackBuilder
from yowsup.profile.profile import YowProfile
from yowsup.config.v1.config import Config
from yowsup.config.manager import ConfigManager
from yowsup.axolotl.manager import AxolotlManager
from consonance.structs.keypair import KeyPair

FLAG_NAMES = ["groups", "media", "privacy", "profiles"]
OWN_PHONE = "4915100000001"

_template = {}


def small_key_batches(count=12, threshold=10):
    AxolotlManager.COUNT_GEN_PREKEYS = count
    AxolotlManager.THRESHOLD_REGEN = threshold


def template_home(phone=OWN_PHONE, uploaded=True):
    """a registered account's profile directory, created once per process and copied per case.
    uploaded=True: all one-time prekeys are marked as sent (no passive key upload at login)."""
    key = (phone, uploaded)
    if key in _template:
        return _template[key]
    compat.patch_axolotl_padding(True)
    small_key_batches()
    home = tempfile.mkdtemp(prefix="tmpl_", dir=envkit.scratch_root())
    old = (os.environ.get("XDG_CONFIG_HOME"), os.environ.get("HOME"))
    os.environ["XDG_CONFIG_HOME"] = home
    os.environ["HOME"] = home
    try:
        cfg = Config(phone=phone, cc=phone[:2], client_static_keypair=KeyPair.generate(), pushname="verif")
        ConfigManager().save(phone, cfg)
        prof = YowProfile(phone)
        m = prof.axolotl_manager
        keys = m.level_prekeys()
        m.load_latest_signed_prekey(generate=True)
        if uploaded:
            m.set_prekeys_as_sent(keys)
        m._store.identityKeyStore.dbConn.close()
    finally:
        if old[0] is not None:
            os.environ["XDG_CONFIG_HOME"] = old[0]
        if old[1] is not None:
            os.environ["HOME"] = old[1]
    _template[key] = home
    return home


def clone_home(src):
    dst = tempfile.mkdtemp(prefix="acct_", dir=envkit.scratch_root())
    os.rmdir(dst)
    shutil.copytree(src, dst)
    return dst


def use_home(home):
    os.environ["XDG_CONFIG_HOME"] = home
    os.environ["HOME"] = home


class ProtoRig(object):
    def __init__(self, flags=None, axolotl=False, top_cls=Top, props=None, phone=OWN_PHONE, connected=True):
        flags = dict(zip(FLAG_NAMES, flags)) if isinstance(flags, (list, tuple)) else dict(flags or {})
        for n in FLAG_NAMES:
            flags.setdefault(n, True)
        self.flags = flags
        self.axolotl = axolotl
        self.home = None
        # the logger layer of the default stack sits right above the transport: it formats every stanza that passes
        layers = [Bottom, YowLoggerLayer]
        if axolotl:
            layers += [AxolotlControlLayer, YowParallelLayer((AxolotlSendLayer, AxolotlReceivelayer))]
        layers += [YowParallelLayer(YowStackBuilder.getProtocolLayers(**flags)), top_cls]
        p = {YowIqProtocolLayer.PROP_PING_INTERVAL: 0}
        p.update(props or {})
        self.StackCls = new_stack_class()
        self.stack = self.StackCls(tuple(layers), reversed=False, props=p)
        if axolotl:
            self.home = clone_home(template_home(phone))
            use_home(self.home)
            self.stack.setProfile(YowProfile(phone))
        else:
            self.stack.setProfile(YowProfile(phone, Config(phone=phone, cc=phone[:2])))
        self.bottom = self.stack.getLayer(0)
        self.top = self.stack.getLayer(-1)
        if connected:
            # what the network layer announces once the connection is up (the encryption layers load their manager on it)
            self.bottom.emitEvent(YowLayerEvent(YowNetworkLayer.EVENT_STATE_CONNECTED))
            del self.bottom.sent[:]

    def inject(self, node):
        self.bottom.inject(node)

    def send(self, entity):
        self.top.toLower(entity)

    def drain(self):
        return drain_detached(self.stack)

    def close(self):
        if self.home:
            try:
                for i in (1, 2, 3):
                    layer = self.stack.getLayer(i)
                    mgr = getattr(layer, "_manager", None)
                    if mgr is not None:
                        mgr._store.identityKeyStore.dbConn.close()
                        break
            except Exception:
                pass
            shutil.rmtree(self.home, ignore_errors=True)
            self.home = None
