"""Crash-point recorder (DESIGN.md section 4.7).

While ``fn`` runs, ``sys.setprofile`` reports every C-level call boundary (c_call / c_return / c_exception)
made by the code under test.  At each boundary the watched directory is fingerprinted by content; whenever
the fingerprint changed, the directory is copied.  Each copy is the on-disk state a process killed at that
instant (kill -9; no power loss) leaves behind.  The implementation under test may use any API
(in-place write, temp file + rename, one or two SQLite transactions): nothing here depends on which.
"""
import os
import sys
import shutil
import hashlib
import tempfile


def fingerprint(d):
    items = []
    for root, dirs, files in os.walk(d):
        dirs.sort()
        for f in sorted(files):
            p = os.path.join(root, f)
            try:
                with open(p, "rb") as fh:
                    h = hashlib.blake2b(fh.read(), digest_size=12).hexdigest()
            except OSError:
                h = "gone"
            items.append((os.path.relpath(p, d), h))
    return tuple(items)


class CrashRecorder(object):
    def __init__(self, watch_dir, snap_root, max_snaps=400):
        self.watch = watch_dir
        self.snap_root = snap_root
        self.snaps = []          # (tag, path, fingerprint)
        self.max_snaps = max_snaps
        self.final = None
        self.events = 0
        self._last = None

    def _snap(self, tag):
        fp = fingerprint(self.watch)
        if fp == self._last:
            return
        self._last = fp
        if len(self.snaps) >= self.max_snaps:
            return
        d = tempfile.mkdtemp(prefix="snap_", dir=self.snap_root)
        dst = os.path.join(d, "state")
        shutil.copytree(self.watch, dst)
        self.snaps.append((tag, dst, fp))

    def _prof(self, frame, event, arg):
        if event in ("c_call", "c_return", "c_exception"):
            self.events += 1
            self._snap("%s:%s" % (event, getattr(arg, "__name__", "?")))

    def run(self, fn):
        """runs fn() under the recorder; returns (result, exception)"""
        self._last = fingerprint(self.watch)   # the state before the update is not a crash state of it
        self._initial = self._last
        res = exc = None
        sys.setprofile(self._prof)
        try:
            res = fn()
        except Exception as e:  # noqa
            exc = e
        finally:
            sys.setprofile(None)
        self._snap("end")
        # what a process killed right after the call returned leaves behind (also when nothing on disk changed)
        d = tempfile.mkdtemp(prefix="final_", dir=self.snap_root)
        self.final = os.path.join(d, "state")
        shutil.copytree(self.watch, self.final)
        return res, exc

    def cleanup(self):
        for tag, path, fp in self.snaps:
            shutil.rmtree(os.path.dirname(path), ignore_errors=True)
        self.snaps = []
        if getattr(self, "final", None):
            shutil.rmtree(os.path.dirname(self.final), ignore_errors=True)
            self.final = None
