"""Transport rig: the real network/segments/noise/coder(/logger) layers under the deterministic scheduler, with a
dispatcher double that keeps the blocking contract of the real dispatchers and the Noise responder double as peer.

Doubles are installed by rebinding module-level names (no source change):
    yowsup.layers.threading, yowsup.layers.noise.layer.{threading,Queue}, consonance blockingqueue.Queue,
    WANoiseProtocolHandshakeWorker.start, yowsup.layers.network.layer.{Asyncore,Socket}ConnectionDispatcher,
    yowsup.layers.protocol_iq.layer.{Lock,time}, YowPingThread.start
"""
import queue

from .. import compat
from . import sched as S
from .noise_server import NoiseServer, ProtocolViolation  # noqa: F401

import yowsup.layers as L
import yowsup.layers.noise.layer as NL
import consonance.streams.segmented.blockingqueue as BQ
import yowsup.layers.network.layer as netmod
import yowsup.layers.protocol_iq.layer as IQL
from yowsup.layers.noise.workers.handshake import WANoiseProtocolHandshakeWorker
from yowsup.layers.network.dispatcher.dispatcher import YowConnectionDispatcher
from yowsup.layers import YowLayer, YowLayerEvent
from yowsup.layers.network.layer import YowNetworkLayer
from yowsup.layers.auth.layer_authentication import YowAuthenticationProtocolLayer
from yowsup.stacks import YowStack, YowStackBuilder
from yowsup.profile.profile import YowProfile
from yowsup.config.v1.config import Config
from consonance.structs.keypair import KeyPair
from consonance.structs.publickey import PublicKey

TRACE_FILES = ("yowsup/layers/__init__.py", "yowsup/layers/noise/layer.py", "noise/layer_noise_segments.py",
               "consonance/transport.py", "segmented/blockingqueue.py", "coder/layer.py", "network/layer.py",
               "protocol_iq/layer.py")

_installed = False
_counter = [0]


def install():
    global _installed
    if _installed:
        return
    compat.patch_consonance()
    L.threading = S.ThreadingShim()
    NL.threading = S.ThreadingShim()
    NL.Queue = S.QueueShim
    BQ.Queue = S.QueueShim

    def _start_worker(self):
        _counter[0] += 1
        self._vtask = S.SCHED.spawn("handshake%d" % _counter[0], self.run)
        if S.SCHED is not None:
            S.SCHED.last_handshake_task = self._vtask.name

    def _worker_alive(self):
        t = getattr(self, "_vtask", None)
        return t is not None and t.state != "done"
    WANoiseProtocolHandshakeWorker.start = _start_worker
    WANoiseProtocolHandshakeWorker.is_alive = _worker_alive
    netmod.AsyncoreConnectionDispatcher = FakeDispatcher
    netmod.SocketConnectionDispatcher = FakeDispatcher
    IQL.Lock = S.SLock
    IQL.time = S.TimeShim(IQL.time)

    def _start_ping(self):
        _counter[0] += 1
        S.SCHED.spawn("ping%d" % _counter[0], self.run)
    IQL.YowPingThread.start = _start_ping
    _installed = True


class FakeDispatcher(YowConnectionDispatcher):
    """connect() blocks for the life of the connection, everything received is processed nested inside it (like
    asyncore.loop / the socket dispatcher's recv loop); disconnect() may be called from any thread, announces the
    connection down synchronously and ends the blocked connect()."""
    rig = None

    def __init__(self, cb):
        super(FakeDispatcher, self).__init__(cb)
        self.up = False
        self.rig = FakeDispatcher.rig
        self.rig.dispatchers.append(self)
        self.sent = bytearray()
        self.writes = []
        # like asyncore.dispatcher_with_send: bytes accepted by sendData but not yet written to the socket (rig.hold_writes = the
        # peer is not reading); they belong to this dispatcher object and are written ahead of anything sent later through it
        self.out_buffer = bytearray()
        self.inbox = S.SQueue()
        self.inbox.external = True

    def connect(self, host):
        rig = self.rig
        self.connectionCallbacks.onConnecting()
        outcome = rig.connect_outcomes.pop(0) if rig.connect_outcomes else "ok"
        rig.log.append(("dispatcher.connect", outcome))
        if outcome not in ("ok", "ok_then_close"):
            self.connectionCallbacks.onConnectionError(IOError("connection refused"))
            return
        if outcome == "ok_then_close":
            # the peer closes the connection the moment it is established: the close is what the loop finds first
            self.inbox.put(("close",))
            self.short_lived = True      # (what is written to it goes to a server connection of its own, which sees the close at once)
        self.up = True
        rig.current = self
        self.connectionCallbacks.onConnected()
        while self.up:
            cmd = self.inbox.get()
            if cmd[0] == "data":
                try:
                    self.connectionCallbacks.onRecvData(cmd[1])
                except S._Stop:
                    raise
                except Exception as e:  # the real dispatchers log and close on an exception in a handler
                    rig.recv_errors.append(e)
                    if rig.close_on_recv_error:
                        self._down()
            elif cmd[0] == "close":
                self._down()
                if rig.redundant_down:
                    self.connectionCallbacks.onDisconnected()
            elif cmd[0] == "end":
                break
        rig.log.append(("dispatcher.connect_returned",))

    def _down(self):
        if self.up:
            self.up = False
            self.rig.log.append(("dispatcher.down",))
            self.connectionCallbacks.onDisconnected()

    def disconnect(self):
        self.rig.log.append(("dispatcher.disconnect", self.up))
        if self.up:
            self._down()
            if self.rig.redundant_down:
                # real dispatchers may report the same connection down more than once (close followed by an error/EOF path)
                self.connectionCallbacks.onDisconnected()
            self.inbox.put(("end",))

    def sendData(self, data):
        if not self.up:
            self.rig.writes_while_down.append(len(data))
            return
        if getattr(self, "short_lived", False):
            self.writes.append(bytes(data))
            return
        if getattr(self.rig, "stall_write_in", None) is not None:
            # the peer has stopped reading: this write blocks (a blocking socket's sendall) for a long time before it is taken
            self.rig.stall_write_in -= 1
            if self.rig.stall_write_in < 0:
                self.rig.stall_write_in = None
                S.SCHED.sleep(self.rig.stall_seconds)
        if getattr(self.rig, "hold_writes", False):
            self.out_buffer += data
            return
        if self.out_buffer:
            data = bytes(self.out_buffer) + bytes(data)
            del self.out_buffer[:]
        self.sent += data
        self.writes.append(bytes(data))
        rig = self.rig
        if rig.eager_frames is not None and rig.server.state == "finish":
            # a server that answers at once: the client's last handshake message is read as it is written, and the server's first
            # stanzas are on their way back before the client's handshake thread has taken its next step (whether the network
            # thread gets to them before the handshake completes is the scheduler's choice)
            try:
                rig.server.feed(bytes(self.sent))
            except ProtocolViolation as e:
                rig.eager_problems.append(e)
            del self.sent[:]
            if rig.server.state == "transport":
                for f in rig.eager_frames:
                    rig.server.send_frame(f)
                out = rig.server.take_out()
                rig.eager_frames = None
                rig.eager_sent = True
                if out:
                    self.inbox.put(("data", bytes(out)))


class UpperLayerFailed(Exception):
    pass


class Top(YowLayer):
    """application side of the transport-only stack: records what arrives, triggers the login on 'connected'"""

    def __init__(self):
        super(Top, self).__init__()
        self.got = []
        self.events = []
        self.passive = False
        self.auto_auth = True
        self.disconnect_on_tag = None     # like the auth layer on <failure>: ask for a disconnect from inside the delivery
        self.raise_on_nth = None          # the layer above fails on the n-th thing delivered from now on (once)
        self._n_since = 0

    def receive(self, d):
        self.got.append(d)
        if self.raise_on_nth is not None:
            self._n_since += 1
            if self._n_since == self.raise_on_nth:
                self.raise_on_nth = None
                raise UpperLayerFailed("the layer above failed on a delivered stanza")
        if self.disconnect_on_tag is not None and getattr(d, "tag", None) == self.disconnect_on_tag:
            self.broadcastEvent(YowLayerEvent(YowNetworkLayer.EVENT_STATE_DISCONNECT, reason="requested by the layer above"))

    def onEvent(self, ev):
        self.events.append(ev.getName())
        if ev.getName() == YowNetworkLayer.EVENT_STATE_CONNECTED and self.auto_auth:
            self.broadcastEvent(YowLayerEvent(YowAuthenticationProtocolLayer.EVENT_AUTH, passive=self.passive))
        return False


class Rig(object):
    def __init__(self, choices=(), upper=(Top,), config=None, server=None, trace_lines=False, props=None, max_steps=300000,
                 profile_name="verif", write_config=None, profile=None, preempt=None, core_layers=None):
        install()
        # (the lock list is emptied when a rig is closed, not here: layer objects handed in through `upper` exist already)
        self.sched = S.Scheduler(choices, TRACE_FILES, trace_lines=trace_lines, max_steps=max_steps, preempt=preempt)
        S.SCHED = self.sched
        FakeDispatcher.rig = self
        self.dispatchers = []
        self.current = None
        self.connect_outcomes = []
        self.log = []
        self.recv_errors = []
        self.close_on_recv_error = False
        self.redundant_down = False
        self.hold_writes = False
        self.stall_write_in = None    # n: the n-th write from now blocks for stall_seconds of virtual time
        self.stall_seconds = 20.0
        self.eager_frames = None      # encoded stanzas the server sends the moment it has read the client's last handshake message
        self.eager_problems = []
        self.eager_sent = False
        self.writes_while_down = []
        self.server = server or NoiseServer()
        if profile is not None:
            self.profile = profile
            self.config = profile.config
        else:
            self.config = config or Config(phone="4915112345", cc="49", client_static_keypair=KeyPair.generate())
            self.profile = YowProfile(profile_name, self.config)
        self.config_writes = []
        if write_config is None:
            def _wc(c):
                self.config_writes.append(bytes(c.server_static_public.data) if c.server_static_public else None)
            self.profile.write_config = _wc
        elif write_config == "real":
            # the profile's own write_config runs (the configuration lands on disk); the writes are still counted
            _orig_wc = self.profile.write_config

            def _wc_real(c):
                self.config_writes.append(bytes(c.server_static_public.data) if c.server_static_public else None)
                return _orig_wc(c)
            self.profile.write_config = _wc_real
        self.StackCls = type("RigStack", (YowStack,), {"_YowStack__detachedQueue": queue.Queue()})
        layers = tuple(core_layers if core_layers is not None else YowStackBuilder.getCoreLayers()) + tuple(upper)
        self.stack = self.StackCls(layers, reversed=False, props=dict(props or {}))
        self.stack.setProfile(self.profile)
        self.top = self.stack.getLayer(-1)
        self.cmd = S.SQueue()
        self.cmd.external = True
        self.net_task = self.sched.spawn("net", self._net)
        self.net_errors = []

    # ---- the network/main thread of the client process ---------------------------------------------
    def _net(self):
        while True:
            c = self.cmd.get()
            if c[0] == "stop":
                return
            try:
                if c[0] == "connect":
                    self.stack.broadcastEvent(YowLayerEvent(YowNetworkLayer.EVENT_STATE_CONNECT))
                elif c[0] == "loop":
                    self.drain_detached()
                elif c[0] == "call":
                    c[1]()
            except S._Stop:
                raise
            except Exception as e:
                self.net_errors.append(e)

    def drain_detached(self, limit=100):
        q = self.StackCls._YowStack__detachedQueue
        n = 0
        while n < limit:
            try:
                cb = q.get(False)
            except queue.Empty:
                break
            cb()
            n += 1
        return n

    def detached_pending(self):
        return self.StackCls._YowStack__detachedQueue.qsize()

    # ---- controller helpers --------------------------------------------------------------------------
    def post(self, *cmd):
        self.cmd.put(cmd)

    def run(self):
        return self.sched.run()

    def deliver(self, data):
        """bytes from the server to the client's socket"""
        d = self.current
        if d is not None and d.up:
            d.inbox.put(("data", bytes(data)))
            return True
        return False

    def take_client_bytes(self, only=None):
        out = b""
        for d in self.dispatchers:
            if only is not None and d is not only:
                continue
            if d.sent:
                out += bytes(d.sent)
                del d.sent[:]
        return out

    def shuttle(self, chunker=None, max_rounds=30, only=None):
        """run the scheduler and move bytes both ways until nothing moves any more.
        chunker(bytes) -> list of chunks for server->client delivery.  Returns the list of ProtocolViolation raised by
        the server double (a real server would have dropped the connection)."""
        problems = []
        for _ in range(max_rounds):
            self.run()
            moved = False
            b = self.take_client_bytes(only)
            if b:
                moved = True
                try:
                    self.server.feed(b)
                except ProtocolViolation as e:
                    problems.append(e)
                    return problems
            o = self.server.take_out()
            if o:
                moved = True
                for ch in (chunker(o) if chunker else [o]):
                    if only is None or self.current is only:
                        self.deliver(ch)
                    self.run()
            if not moved:
                break
        return problems

    def login(self, chunker=None):
        self.post("connect")
        return self.shuttle(chunker)

    def stuck_tasks(self):
        """tasks blocked on something that nothing can release: everything except waits on external queues"""
        out = []
        for name, on in self.sched.blocked():
            if isinstance(on, S.SQueue) and on.external:
                continue
            out.append((name, repr(on)))
        return out

    def task_errors(self):
        """exceptions that ended a task; a handshake worker of an earlier, cut-off attempt is allowed to end with one
        (it is woken up with an empty segment precisely so that it ends)"""
        last = getattr(self.sched, "last_handshake_task", None)
        return [(t.name, t.exc) for t in self.sched.tasks if t.exc is not None
                and not (t.name.startswith("handshake") and t.name != last)]

    def close(self):
        try:
            self.sched.kill()
        finally:
            S.SCHED = None
            S.ALL_LOCKS[:] = []
            FakeDispatcher.rig = None
