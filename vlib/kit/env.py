"""Per-process scratch HOME / XDG_CONFIG_HOME so that profiles, key stores and configs written by the
code under test land in a temp directory that is removed when the process exits."""
import os
import atexit
import shutil
import tempfile

_root = None


def scratch_root():
    global _root
    if _root is None or not os.path.isdir(_root):
        _root = tempfile.mkdtemp(prefix="yowverif_%d_" % os.getpid())
        atexit.register(shutil.rmtree, _root, True)
    return _root


def fresh_home(tag="h"):
    """new empty config home; returns its path (XDG_CONFIG_HOME and HOME point there)"""
    d = tempfile.mkdtemp(prefix=tag + "_", dir=scratch_root())
    os.environ["XDG_CONFIG_HOME"] = d
    os.environ["HOME"] = d
    return d


def drop_home(d):
    shutil.rmtree(d, ignore_errors=True)


def cleanup():
    global _root
    if _root:
        shutil.rmtree(_root, ignore_errors=True)
        _root = None


def sweep(pids):
    """remove scratch roots left behind by worker processes that had to be ended (their names carry the pid)"""
    base = tempfile.gettempdir()
    try:
        names = os.listdir(base)
    except OSError:
        return
    for n in names:
        for pid in pids:
            if n.startswith("yowverif_%d_" % pid):
                shutil.rmtree(os.path.join(base, n), ignore_errors=True)
