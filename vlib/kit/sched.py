"""Deterministic scheduler over real threads (DESIGN.md section 4.6).

Every thread is a managed task; exactly one runs at a time (a baton passed through semaphores).  At every yield point
the running task hands the baton to the task selected by the next integer of the case's choice list
(choices[i] % len(ready)); when the list is exhausted the current task continues (or the first ready one).

Yield points: acquire/release of SLock, put/get of SQueue, task start, virtual sleep, and - through sys.settrace -
every function *call* (optionally every line) inside files whose path ends with one of ``trace_files``.

A task that would block is marked blocked-on-object.  run() returns when no task is ready; the caller then reads
``blocked()``: tasks waiting on a lock, or on a queue that nothing can feed, are deadlocked - decided logically,
never by a wall-clock timeout.  Same case => same interleaving => replayable.
"""
import sys
import threading
import collections
import queue as _q

SCHED = None   # the active scheduler (one per case)


class _Stop(BaseException):
    pass


class StepLimit(Exception):
    pass


class Task(object):
    def __init__(self, sched, name, fn):
        self.sched = sched
        self.name = name
        self.fn = fn
        self.sem = threading.Semaphore(0)
        self.state = "ready"       # ready | blocked | sleeping | done
        self.waiting_on = None
        self.wake_at = None
        self.exc = None
        self.result = None
        self.thread = threading.Thread(target=self._boot, name="vtask-" + name, daemon=True)

    def _boot(self):
        self.sem.acquire()
        s = self.sched
        if s.trace_files:
            sys.settrace(s._trace)
        try:
            if not s.killed:
                self.result = self.fn()
        except _Stop:
            pass
        except BaseException as e:  # noqa
            self.exc = e
        finally:
            sys.settrace(None)
            self.state = "done"
            s._switch_from(self, finished=True)


class Scheduler(object):
    def __init__(self, choices=(), trace_files=(), trace_lines=False, max_steps=300000, preempt=None):
        self.tasks = []
        # preempt: {yield index: selector} - context-bounded mode: the running task continues except at the listed yield
        # points, where the selected ready task takes over (and then continues in its turn)
        self.preempt = dict((int(k), int(v)) for k, v in (preempt or {}).items()) if not isinstance(preempt, list) \
            else dict((int(k), int(v)) for k, v in preempt)
        self.choices = list(choices)
        self.ci = 0
        self.trace_files = tuple(trace_files)
        self.trace_lines = trace_lines
        self.main_sem = threading.Semaphore(0)
        self.killed = False
        self.steps = 0
        self.max_steps = max_steps
        self.switches = 0
        self.switch_log = []
        self.now = 0.0
        self.overrun = False
        self._local = threading.local()
        self.in_call_switches = 0

    # ---- controller API -----------------------------------------------------------------------
    def spawn(self, name, fn):
        t = Task(self, name, fn)
        self.tasks.append(t)
        t.thread.start()
        return t

    def run(self):
        """run until no task is ready; returns 'done' (all finished) or 'quiescent'"""
        nxt = self._pick(None)
        if nxt is not None:
            nxt.sem.release()
            self.main_sem.acquire()
        if all(t.state == "done" for t in self.tasks):
            return "done"
        return "quiescent"

    def advance(self, seconds):
        """advance the virtual clock and wake sleepers whose time has come"""
        self.now += seconds
        for t in self.tasks:
            if t.state == "sleeping" and t.wake_at <= self.now + 1e-9:
                t.state = "ready"
                t.wake_at = None
            elif t.state == "blocked" and getattr(t, "deadline", None) is not None and t.deadline <= self.now + 1e-9:
                # a wait with a time limit has run out
                t.state = "ready"
                t.waiting_on = None

    def blocked(self):
        return [(t.name, t.waiting_on) for t in self.tasks if t.state == "blocked"]

    def sleeping(self):
        return [t.name for t in self.tasks if t.state == "sleeping"]

    def kill(self):
        self.killed = True
        for t in self.tasks:
            if t.state != "done":
                t.state = "ready"
                t.sem.release()
        for t in self.tasks:
            t.thread.join(2)

    # ---- internals ----------------------------------------------------------------------------
    def me(self):
        th = threading.current_thread()
        for t in self.tasks:
            if t.thread is th:
                return t
        return None

    def _pick(self, cur):
        ready = [t for t in self.tasks if t.state == "ready"]
        if not ready:
            return None
        if self.preempt and self.steps in self.preempt:
            others = [t for t in ready if t is not cur] or ready
            return others[self.preempt[self.steps] % len(others)]
        if self.ci < len(self.choices):
            c = self.choices[self.ci]
            self.ci += 1
            return ready[c % len(ready)]
        if cur is not None and cur.state == "ready":
            return cur
        return ready[0]

    def _switch_from(self, cur, finished=False):
        self.steps += 1
        if self.steps > self.max_steps:
            self.overrun = True
            nxt = None
        else:
            nxt = self._pick(cur)
        if nxt is None:
            self.main_sem.release()       # back to the controller
            if not finished:
                cur.sem.acquire()
                if self.killed:
                    raise _Stop()
            return
        if nxt is cur:
            return
        self.switches += 1
        if len(self.switch_log) < 2000:
            self.switch_log.append(nxt.name)
        nxt.sem.release()
        if not finished:
            cur.sem.acquire()
            if self.killed:
                raise _Stop()

    def yield_point(self, why=None):
        cur = self.me()
        if cur is None or self.killed:
            return
        before = self.switches
        self._switch_from(cur)
        if why is not None and why[0] == "call" and self.switches != before:
            self.in_call_switches += 1

    def block(self, cur, on):
        cur.state = "blocked"
        cur.waiting_on = on
        self._switch_from(cur)

    def wake(self, pred):
        for t in self.tasks:
            if t.state == "blocked" and pred(t.waiting_on):
                t.state = "ready"
                t.waiting_on = None

    def sleep(self, seconds):
        cur = self.me()
        if cur is None or self.killed:
            return
        cur.state = "sleeping"
        cur.wake_at = self.now + seconds
        self._switch_from(cur)

    def _trace(self, frame, event, arg):
        if event == "call":
            fn = frame.f_code.co_filename
            if fn.endswith(self.trace_files):
                if not getattr(self._local, "intrace", False):
                    self._local.intrace = True
                    try:
                        self.yield_point(("call", frame.f_code.co_name))
                    finally:
                        self._local.intrace = False
                if self.trace_lines:
                    return self._trace_line
        return None

    def _trace_line(self, frame, event, arg):
        if event == "line" and not getattr(self._local, "intrace", False):
            self._local.intrace = True
            try:
                self.yield_point(("line", frame.f_lineno))
            finally:
                self._local.intrace = False
        return self._trace_line


# ------------------------------------------------------------------------------------------------
# scheduler-aware primitives (installed by rebinding module-level names in the code under test)

ALL_LOCKS = []


class SLock(object):
    def __init__(self):
        self.owner = None
        self.label = None
        ALL_LOCKS.append(self)

    def acquire(self, blocking=True, timeout=-1):
        s = SCHED
        me = s.me() if s else None
        if me is None:
            if self.owner is not None:
                raise RuntimeError("unmanaged thread would block on a lock held by %r" % (self.owner,))
            self.owner = "external"
            return True
        s.yield_point(("acquire",))
        # a bounded wait ends when the virtual clock has passed its deadline (Scheduler.advance wakes the waiter)
        deadline = None if timeout is None or timeout < 0 else s.now + timeout
        while self.owner is not None:
            if not blocking:
                return False
            if deadline is not None:
                if s.now + 1e-9 >= deadline:
                    me.deadline = None
                    return False
                me.deadline = deadline
            s.block(me, self)
            me.deadline = None
        self.owner = me.name
        return True

    def release(self):
        s = SCHED
        if self.owner is None:
            raise RuntimeError("release unlocked lock")
        self.owner = None
        if s:
            s.wake(lambda w: w is self)
            s.yield_point(("release",))

    def locked(self):
        return self.owner is not None

    def __enter__(self):
        self.acquire()
        return self

    def __exit__(self, *a):
        self.release()

    def __repr__(self):
        return "<SLock %s owner=%s>" % (self.label or hex(id(self)), self.owner)


class SRLock(SLock):
    """reentrant variant (threading.RLock): the owning task may take it again"""

    def __init__(self):
        super(SRLock, self).__init__()
        self.depth = 0

    def acquire(self, blocking=True, timeout=-1):
        s = SCHED
        me = s.me() if s else None
        who = me.name if me is not None else "external"
        if self.owner == who and self.depth > 0:
            self.depth += 1
            return True
        ok = super(SRLock, self).acquire(blocking, timeout)
        if ok:
            self.depth = 1
        return ok

    def release(self):
        if self.depth > 1:
            self.depth -= 1
            return
        self.depth = 0
        super(SRLock, self).release()


class SQueue(object):
    def __init__(self, maxsize=0):
        self.d = collections.deque()
        self.external = False   # fed by the controller: waiting on it is not a deadlock

    def put(self, item, block=True, timeout=None):
        s = SCHED
        if s and s.me():
            s.yield_point(("put",))
        self.d.append(item)
        if s:
            s.wake(lambda w: w is self)

    def get(self, block=True, timeout=None):
        s = SCHED
        me = s.me() if s else None
        if me:
            s.yield_point(("get",))
        while not self.d:
            if not block or me is None:
                raise _q.Empty()
            s.block(me, self)
        return self.d.popleft()

    def qsize(self):
        return len(self.d)

    def empty(self):
        return not self.d

    def get_nowait(self):
        return self.get(False)

    def put_nowait(self, item):
        return self.put(item, False)

    def __repr__(self):
        return "<SQueue len=%d%s>" % (len(self.d), " external" if self.external else "")


class QueueShim(object):
    Queue = SQueue
    Empty = _q.Empty
    Full = _q.Full


class ThreadingShim(object):
    Lock = SLock
    RLock = SRLock

    def __getattr__(self, k):
        return getattr(threading, k)


class TimeShim(object):
    """virtual time for code that sleeps (the keep-alive thread)"""

    def __init__(self, real):
        self._real = real

    def sleep(self, seconds):
        s = SCHED
        if s and s.me():
            s.sleep(seconds)

    def time(self):
        s = SCHED
        return 1700000000 + (s.now if s else 0)

    def __getattr__(self, k):
        return getattr(self._real, k)


def held_locks():
    return [l for l in ALL_LOCKS if l.owner is not None]
