"""The library's asynchronous connection dispatcher over a socket double, its event-loop callbacks driven by a script."""
import errno


class AsyncoreShim(object):
    """the asyncore module as the dispatcher module sees it, with the blocking event loop skipped (the history drives the events)"""

    def __init__(self, real):
        self._real = real

    def __getattr__(self, k):
        return getattr(self._real, k)

    def loop(self, *a, **k):
        return None


class DrivenSock(object):
    def __init__(self, caps=None):
        # caps: what each send() call takes at most (0 = would block), cyclic; None = everything
        self.caps = list(caps) if caps else None
        self.n_send = 0
        self.error = 0
        self.pending = bytearray()     # bytes the peer has sent and the client has not read yet
        self.eof = False               # the peer has closed its end
        self.closed = False
        self.established = False
        self.wire = bytearray()
        self.written_while_not_up = 0

    def connect_ex(self, address):
        return errno.EINPROGRESS

    def getsockopt(self, *a):
        return self.error

    def setblocking(self, flag):
        pass

    def send(self, data):
        if self.closed or not self.established:
            self.written_while_not_up += 1
        n = len(data)
        if self.caps:
            n = min(n, self.caps[self.n_send % len(self.caps)])
            self.n_send += 1
        self.wire += bytes(data[:n])
        return n

    def recv(self, n):
        if self.pending:
            chunk = bytes(self.pending[:n])
            del self.pending[:n]
            return chunk
        if self.eof:
            return b""
        raise BlockingIOError(errno.EWOULDBLOCK, "Resource temporarily unavailable")

    def close(self):
        self.closed = True

    def fileno(self):
        return -1


def driven_asyncore_class():
    """the library's own asynchronous dispatcher class over a socket double, its event-loop callbacks driven by the history:
    connect() runs as written (a non-blocking connect in progress; the blocking asyncore.loop() call is skipped), and
    handle_connect_event / handle_read_event / handle_error are called the way asyncore's loop calls them"""
    import yowsup.layers.network.dispatcher.dispatcher_asyncore as DA

    class Driven(DA.AsyncoreConnectionDispatcher):
        made = []
        fail_next_connect = False
        caps = None

        def __init__(self, callbacks):
            DA.AsyncoreConnectionDispatcher.__init__(self, callbacks)
            self.cb = callbacks
            self._sock = None
            Driven.made.append(self)

        def create_socket(self, *a, **k):
            if Driven.fail_next_connect:
                Driven.fail_next_connect = False
                raise IOError("Name or service not known")
            self._sock = DrivenSock(Driven.caps)
            self.socket = self._sock
            self._fileno = None

        @property
        def state(self):
            if self._sock is None:
                return "new"
            if self._sock.closed:
                return "closed"
            return "up" if self._sock.established else "pending"

        @property
        def written_while_not_up(self):
            return self._sock.written_while_not_up if self._sock is not None else 0

        def h_establish(self):
            self._sock.established = True
            self.handle_connect_event()

        def h_refuse(self):
            self._sock.error = errno.ECONNREFUSED
            try:
                # (asyncore.write: the socket becomes writable, the pending error is picked up)
                self.handle_write_event()
            except OSError:
                self.handle_error()

        def h_peer_close(self):
            self._sock.eof = True
            self.handle_read_event()

        def h_data(self, data):
            # a burst arrives; the loop reports the socket readable for as long as something is pending
            self._sock.pending += data
            while self._sock.pending and not self._sock.closed:
                self.handle_read_event()
        def h_data_as_the_loop_does(self, data):
            # like h_data, with asyncore.read()'s handling of what a handler raises: anything but an exit request goes to
            # handle_error()
            self._sock.pending += data
            while self._sock.pending and not self._sock.closed:
                try:
                    self.handle_read_event()
                except (KeyboardInterrupt, SystemExit):
                    raise
                except Exception:
                    self.handle_error()
    return Driven, DA


class ScriptedSocket(object):
    """a blocking socket for the library's SocketConnectionDispatcher: connect() succeeds (or raises), recv() hands out the
    scripted reads one by one and then reports the peer's close (b""); sendall() records"""

    def __init__(self, reads, connect_error=None):
        self.reads = list(reads)
        self.connect_error = connect_error
        self.wire = bytearray()
        self.closed = False
        self.shut = False

    def connect(self, host):
        if self.connect_error is not None:
            raise self.connect_error

    def recv(self, n):
        if self.closed:
            raise OSError(errno.EBADF, "Bad file descriptor")
        if not self.reads:
            return b""
        item = self.reads.pop(0)
        if callable(item):
            item = item()
        return item

    def sendall(self, data):
        if self.closed or self.shut:
            raise OSError(errno.EPIPE, "Broken pipe")
        self.wire += bytes(data)

    def send(self, data):
        self.sendall(data)
        return len(data)

    def shutdown(self, how):
        self.shut = True

    def close(self):
        self.closed = True


class SocketModuleShim(object):
    """the socket module as dispatcher_socket sees it: socket() hands out the scripted sockets in order"""

    def __init__(self, real, sockets):
        self._real = real
        self.sockets = list(sockets)
        self.handed_out = []

    def __getattr__(self, k):
        return getattr(self._real, k)

    def socket(self, *a, **k):
        sk = self.sockets.pop(0)
        self.handed_out.append(sk)
        return sk

