"""The library's asynchronous connection dispatcher over a socket double, its event-loop callbacks driven by a script."""
import errno


class AsyncoreShim(object):
    """the asyncore module as the dispatcher module sees it, with the blocking event loop skipped (the history drives the events)"""

    def __init__(self, real):
        self._real = real

    def __getattr__(self, k):
        return getattr(self._real, k)

    def loop(self, *a, **k):
        return None


class DrivenSock(object):
    def __init__(self, caps=None):
        # caps: what each send() call takes at most (0 = would block), cyclic; None = everything
        self.caps = list(caps) if caps else None
        self.n_send = 0
        self.error = 0
        self.inbox = []
        self.closed = False
        self.established = False
        self.wire = bytearray()
        self.written_while_not_up = 0

    def connect_ex(self, address):
        return errno.EINPROGRESS

    def getsockopt(self, *a):
        return self.error

    def setblocking(self, flag):
        pass

    def send(self, data):
        if self.closed or not self.established:
            self.written_while_not_up += 1
        n = len(data)
        if self.caps:
            n = min(n, self.caps[self.n_send % len(self.caps)])
            self.n_send += 1
        self.wire += bytes(data[:n])
        return n

    def recv(self, n):
        return self.inbox.pop(0) if self.inbox else b""

    def close(self):
        self.closed = True

    def fileno(self):
        return -1


def driven_asyncore_class():
    """the library's own asynchronous dispatcher class over a socket double, its event-loop callbacks driven by the history:
    connect() runs as written (a non-blocking connect in progress; the blocking asyncore.loop() call is skipped), and
    handle_connect_event / handle_read_event / handle_error are called the way asyncore's loop calls them"""
    import yowsup.layers.network.dispatcher.dispatcher_asyncore as DA

    class Driven(DA.AsyncoreConnectionDispatcher):
        made = []
        fail_next_connect = False
        caps = None

        def __init__(self, callbacks):
            DA.AsyncoreConnectionDispatcher.__init__(self, callbacks)
            self.cb = callbacks
            self._sock = None
            Driven.made.append(self)

        def create_socket(self, *a, **k):
            if Driven.fail_next_connect:
                Driven.fail_next_connect = False
                raise IOError("Name or service not known")
            self._sock = DrivenSock(Driven.caps)
            self.socket = self._sock
            self._fileno = None

        @property
        def state(self):
            if self._sock is None:
                return "new"
            if self._sock.closed:
                return "closed"
            return "up" if self._sock.established else "pending"

        @property
        def written_while_not_up(self):
            return self._sock.written_while_not_up if self._sock is not None else 0

        def h_establish(self):
            self._sock.established = True
            self.handle_connect_event()

        def h_refuse(self):
            self._sock.error = errno.ECONNREFUSED
            try:
                # (asyncore.write: the socket becomes writable, the pending error is picked up)
                self.handle_write_event()
            except OSError:
                self.handle_error()

        def h_peer_close(self):
            self._sock.inbox = [b""]
            self.handle_read_event()

        def h_data(self, data):
            self._sock.inbox.append(data)
            self.handle_read_event()
    return Driven, DA
