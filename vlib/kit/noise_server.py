"""Responder side of WhatsApp's Noise handshake (XX, IK, IK -> XXfallback) and of the transport, byte stream in,
byte stream out (DESIGN.md section 4.6).  Built on dissononce primitives; shares no code with yowsup's noise layer.
Transport decryption is strictly in arrival order, like the real server."""
import struct

from .. import compat  # noqa: F401
from dissononce.processing.impl.handshakestate import HandshakeState
from dissononce.processing.impl.cipherstate import CipherState
from dissononce.cipher.aesgcm import AESGCMCipher
from dissononce.hash.sha256 import SHA256Hash
from dissononce.dh.x25519.x25519 import X25519DH
from dissononce.dh.x25519.public import PublicKey
from dissononce.processing.handshakepatterns.interactive.IK import IKHandshakePattern
from dissononce.processing.handshakepatterns.interactive.XX import XXHandshakePattern
from dissononce.processing.modifiers.fallback import FallbackPatternModifier
from dissononce.exceptions.decrypt import DecryptFailedException
from consonance.dissononce_extras.processing.symmetricstate_wa import WASymmetricState
from consonance.proto import wa20_pb2

PROLOGUE = b"WA\x04\x00"
EDGE = b"ED\x00\x01"


class ProtocolViolation(Exception):
    """the client sent something a real server would reject"""


class SrvSymmetricState(WASymmetricState):
    # like the real server: an empty payload under an unkeyed cipher state is not hashed
    def decrypt_and_hash(self, ciphertext):
        had = self._cipherstate.has_key()
        pt = self._cipherstate.decrypt_with_ad(self._h, ciphertext)
        if had:
            self.mix_hash(ciphertext)
        return pt


class NoiseServer(object):
    def __init__(self, static_keypair=None, cert=b""):
        self.dh = X25519DH()
        self.s = static_keypair or self.dh.generate_keypair()
        self.cert = cert
        self.corrupt_hello = False
        self.reset()

    def reset(self):
        self.buf = bytearray()
        self.state = "prologue"
        self.out = bytearray()
        self.send_cs = self.recv_cs = None
        self.client_payload = None
        self.frames = []
        self.variant = None
        self.edge = None
        self.client_rs = None
        self.segments_in = 0

    def _hs(self):
        return HandshakeState(SrvSymmetricState(CipherState(AESGCMCipher()), SHA256Hash()), self.dh)

    def _seg(self, data):
        self.out += struct.pack(">I", len(data))[1:] + data

    def feed(self, data):
        self.buf += data
        progressed = True
        while progressed:
            progressed = False
            if self.state == "prologue":
                if len(self.buf) >= 4 and bytes(self.buf[:4]) == EDGE:
                    if len(self.buf) >= 7:
                        n = struct.unpack(">I", b"\0" + bytes(self.buf[4:7]))[0]
                        if len(self.buf) >= 7 + n:
                            self.edge = bytes(self.buf[7:7 + n])
                            del self.buf[:7 + n]
                            progressed = True
                elif len(self.buf) >= 4:
                    if bytes(self.buf[:4]) != PROLOGUE:
                        raise ProtocolViolation("bad prologue %r" % bytes(self.buf[:8]))
                    del self.buf[:4]
                    self.state = "hello"
                    progressed = True
            else:
                if len(self.buf) >= 3:
                    n = struct.unpack(">I", b"\0" + bytes(self.buf[:3]))[0]
                    if len(self.buf) >= 3 + n:
                        seg = bytes(self.buf[3:3 + n])
                        del self.buf[:3 + n]
                        progressed = True
                        self.segments_in += 1
                        self._segment(seg)

    def _segment(self, seg):
        if self.state == "hello":
            m = wa20_pb2.HandshakeMessage()
            try:
                m.ParseFromString(seg)
            except Exception as e:
                raise ProtocolViolation("client hello does not parse: %r" % e)
            if not m.HasField("client_hello"):
                raise ProtocolViolation("first segment is not a client hello")
            ch = m.client_hello
            if ch.HasField("static"):
                hs = self._hs()
                hs.initialize(IKHandshakePattern(), False, PROLOGUE, s=self.s)
                try:
                    pb = bytearray()
                    hs.read_message(ch.ephemeral + ch.static + ch.payload, pb)
                    self.client_payload = bytes(pb)
                    mb = bytearray()
                    cs = hs.write_message(b"", mb)
                    sh = wa20_pb2.HandshakeMessage()
                    sh.server_hello.ephemeral = bytes(mb[:32])
                    sh.server_hello.payload = self._maybe_corrupt(bytes(mb[32:]))
                    self._seg(self._damage(sh))
                    self.recv_cs, self.send_cs = cs[0], cs[1]
                    self.client_rs = hs.rs
                    self.state = "transport"
                    self.variant = "IK"
                    return
                except DecryptFailedException:
                    hs = self._hs()
                    hs.initialize(FallbackPatternModifier().modify(XXHandshakePattern()), False, PROLOGUE, s=self.s,
                                  re=PublicKey(ch.ephemeral))
                    self.variant = "XXfallback"
            else:
                hs = self._hs()
                hs.initialize(XXHandshakePattern(), False, PROLOGUE, s=self.s)
                hs.read_message(ch.ephemeral, bytearray())
                self.variant = "XX"
            mb = bytearray()
            hs.write_message(self.cert, mb)
            sh = wa20_pb2.HandshakeMessage()
            sh.server_hello.ephemeral = bytes(mb[:32])
            sh.server_hello.static = bytes(mb[32:80])
            sh.server_hello.payload = self._maybe_corrupt(bytes(mb[80:]))
            self._seg(self._damage(sh))
            self.hs = hs
            self.state = "finish"
        elif self.state == "finish":
            m = wa20_pb2.HandshakeMessage()
            m.ParseFromString(seg)
            if not m.HasField("client_finish"):
                raise ProtocolViolation("expected client finish")
            pb = bytearray()
            try:
                cs = self.hs.read_message(m.client_finish.static + m.client_finish.payload, pb)
            except DecryptFailedException as e:
                raise ProtocolViolation("client finish does not authenticate: %r" % e)
            self.client_payload = bytes(pb)
            self.client_rs = self.hs.rs
            self.recv_cs, self.send_cs = cs[0], cs[1]
            self.state = "transport"
        elif self.state == "transport":
            try:
                self.frames.append(bytes(self.recv_cs.decrypt_with_ad(b"", seg)))
            except DecryptFailedException as e:
                raise ProtocolViolation("transport frame %d does not decrypt in arrival order: %r" % (len(self.frames), e))

    def _maybe_corrupt(self, payload):
        if self.corrupt_hello is True and payload:
            return bytes([payload[0] ^ 0x55]) + payload[1:]
        return payload

    def _damage(self, sh):
        """corrupt_hello = True: first payload byte flipped (above); or a string naming another way in which the reply is not the
        authentic one: <field>_flip (last byte), <field>_short (truncated to 10 bytes), <field>_empty, no_server_hello, garbage"""
        how = self.corrupt_hello
        self.last_damage_certain = True
        if not isinstance(how, str):
            return sh.SerializeToString()
        if how == "no_server_hello":
            m = wa20_pb2.HandshakeMessage()
            m.client_finish.static = b"\x01\x02\x03"      # a handshake message, but not the one that is due
            return m.SerializeToString()
        if how == "garbage":
            return b"\xff\xfe\xfd\x00\x01garbage"
        if "@" in how:
            # generated damage: <field>_flip@<pos>@<mask>, <field>_cut@<n> (only the first n bytes), <field>_long@<n> (n bytes more);
            # field "wire" = the serialised handshake message itself (its protobuf framing)
            head, rest = how.split("@", 1)
            field, what = head.rsplit("_", 1)
            nums = [int(x) for x in rest.split("@")]
            cur = sh.SerializeToString() if field == "wire" else bytes(getattr(sh.server_hello, field))
            if what == "flip":
                if cur:
                    pos = nums[0] % len(cur)
                    new = cur[:pos] + bytes([cur[pos] ^ ((nums[1] % 255) + 1)]) + cur[pos + 1:]
                else:
                    new = b"\x01"
            elif what == "cut":
                # (an empty handshake *message* would be an empty frame, which is outside the framing layer's domain)
                new = cur[:nums[0] % (len(cur) + 1)] if field != "wire" else cur[:1 + nums[0] % len(cur)]
            elif what == "long":
                new = cur + bytes((i * 7 + 3) & 0xFF for i in range(1 + nums[0] % 40))
            else:
                raise ValueError(how)
            # certainly not the authentic reply: a changed key or ciphertext field (the framing of the message is not authenticated:
            # damage there may turn out to be none)
            self.last_damage_certain = field != "wire" and new != cur
            if field == "wire":
                return new
            setattr(sh.server_hello, field, new)
            return sh.SerializeToString()
        field, what = how.rsplit("_", 1)
        cur = bytes(getattr(sh.server_hello, field))
        if what == "flip":
            new = cur[:-1] + bytes([cur[-1] ^ 0x21]) if cur else b"\x01"
        elif what == "short":
            new = cur[:10]
        elif what == "empty":
            new = b""
        else:
            raise ValueError(how)
        setattr(sh.server_hello, field, new)
        return sh.SerializeToString()

    def send_frame(self, plaintext):
        self._seg(self.send_cs.encrypt_with_ad(b"", plaintext))

    def take_out(self):
        o = bytes(self.out)
        self.out = bytearray()
        return o

    def parsed_payload(self):
        p = wa20_pb2.ClientPayload()
        p.ParseFromString(self.client_payload)
        return p
