"""Conversions between the reference tree representation and yowsup's ProtocolTreeNode, and the strict
comparator used as oracle (the library's own __eq__ is deliberately not used: it ignores child order
and effectively compares only one child)."""
from .. import compat  # noqa: F401
from yowsup.structs import ProtocolTreeNode


def to_node(tree):
    tag, attrs, content = tree
    if isinstance(content, list):
        return ProtocolTreeNode(tag, dict(attrs), [to_node(c) for c in content], None)
    return ProtocolTreeNode(tag, dict(attrs), None, content)


def from_node(node):
    """ProtocolTreeNode -> reference tuple, *without* normalising anything (types are kept so that the
    comparator can see a str content or a non-str attribute)."""
    children = node.children
    data = node.data
    if children:
        content = [from_node(c) for c in children]
        if data is not None:
            content = ("BOTH", data, content)
    else:
        content = data
    return (node.tag, dict(node.attributes), content)


def diff(expected, got, path="/"):
    """None if equal under the strict comparator, else a short description of the first difference."""
    etag, eattrs, econtent = expected
    gtag, gattrs, gcontent = got
    if type(gtag) is not str or gtag != etag:
        return "%s tag %r != %r" % (path, _short(gtag), _short(etag))
    here = path + etag[:20]
    if set(gattrs.keys()) != set(eattrs.keys()):
        missing = sorted(set(eattrs) - set(gattrs))[:3]
        extra = sorted(map(str, set(gattrs) - set(eattrs)))[:3]
        return "%s attribute keys differ missing=%r extra=%r" % (here, [_short(m) for m in missing], [_short(m) for m in extra])
    for k, v in eattrs.items():
        gv = gattrs[k]
        if type(gv) is not str or gv != v:
            return "%s attribute %r: %r != %r" % (here, _short(k), _short(gv), _short(v))
    if econtent is None:
        if gcontent is not None and gcontent != []:
            return "%s content present, expected none: %r" % (here, _short(gcontent))
        return None
    if isinstance(econtent, list):
        if not isinstance(gcontent, list):
            return "%s expected %d children, got %r" % (here, len(econtent), _short(gcontent))
        if len(gcontent) != len(econtent):
            return "%s child count %d != %d" % (here, len(gcontent), len(econtent))
        for i, (e, g) in enumerate(zip(econtent, gcontent)):
            d = diff(e, g, here + "[%d]/" % i)
            if d:
                return d
        return None
    if not isinstance(gcontent, (bytes, bytearray)):
        return "%s content type %s, expected bytes (len %d)" % (here, type(gcontent).__name__, len(econtent))
    if bytes(gcontent) != bytes(econtent):
        return "%s content differs: len %d vs %d, first difference at %s" % (
            here, len(gcontent), len(econtent), _first_diff(bytes(gcontent), bytes(econtent)))
    return None


def _first_diff(a, b):
    n = min(len(a), len(b))
    for i in range(n):
        if a[i] != b[i]:
            return i
    return n


def _short(x):
    r = repr(x)
    return r if len(r) <= 80 else r[:80] + "..."
