"""Child process of the syscall-level crash model (C13): opens the key store of the tree under test and performs ONE store call.

The parent runs it under `strace -e inject=<write-type syscalls>:signal=SIGKILL:when=N`, so that the process dies at the N-th
write-type system call - also in the middle of SQLite's COMMIT, which the in-process recorder (C-level call boundaries) cannot
reach.  usage: store_child.py <spec.json>
"""
import os
import sys
import json

VERIF = os.path.dirname(os.path.dirname(os.path.dirname(os.path.abspath(__file__))))
sys.path.insert(0, VERIF)
sys.path.insert(0, os.environ.get("YOWSUP_REPO", "/repo"))
from vlib import compat  # noqa: E402,F401
from yowsup.axolotl.store.sqlite.liteaxolotlstore import LiteAxolotlStore  # noqa: E402
from axolotl.identitykey import IdentityKey  # noqa: E402
from axolotl.state.sessionrecord import SessionRecord  # noqa: E402
from axolotl.state.prekeyrecord import PreKeyRecord  # noqa: E402
from axolotl.state.signedprekeyrecord import SignedPreKeyRecord  # noqa: E402
from axolotl.groups.state.senderkeyrecord import SenderKeyRecord  # noqa: E402
from axolotl.groups.senderkeyname import SenderKeyName  # noqa: E402
from axolotl.axolotladdress import AxolotlAddress  # noqa: E402


def main():
    spec = json.load(open(sys.argv[1]))
    if spec.get("first_open_killed_after") is not None:
        # the process dies (as by kill -9: no cleanup of any kind) when the k-th statement / commit of the store's very first
        # open has been executed: what is on disk then is whatever the statements up to there have made durable
        import sqlite3
        k = int(spec["first_open_killed_after"])
        seen = [0]

        def tick():
            seen[0] += 1
            if seen[0] >= k:
                os._exit(9)

        class _Cur(sqlite3.Cursor):
            def execute(self, *a, **kw):
                r = sqlite3.Cursor.execute(self, *a, **kw)
                tick()
                return r

        class _Con(sqlite3.Connection):
            def cursor(self, *a, **kw):
                return sqlite3.Connection.cursor(self, _Cur)

            def execute(self, *a, **kw):
                r = sqlite3.Connection.execute(self, *a, **kw)
                tick()
                return r

            def commit(self):
                sqlite3.Connection.commit(self)
                tick()
        real_connect = sqlite3.connect
        sqlite3.connect = lambda *a, **kw: real_connect(*a, **dict(kw, factory=_Con))
        LiteAxolotlStore(spec["db"])
        sys.stdout.write("opened after %d\n" % seen[0])
        sys.stdout.flush()
        os._exit(0)
    store = LiteAxolotlStore(spec["db"])
    if spec.get("orderly_abort_after"):
        # the process is told to terminate (SIGTERM, handled the usual way: sys.exit) while the update is under way: the handler
        # runs when the k-th statement of the update has been executed, and the interpreter then shuts down in an orderly fashion
        import signal
        signal.signal(signal.SIGTERM, lambda *a: sys.exit(7))
        seen = [0]
        k = int(spec["orderly_abort_after"])

        def after(q):
            if q.lstrip().upper().startswith(("INSERT", "DELETE", "UPDATE", "REPLACE")):
                seen[0] += 1
                if seen[0] == k:
                    os.kill(os.getpid(), signal.SIGTERM)     # (the handler runs here, in Python code of the main thread)

        class _Cursor(object):
            def __init__(self, real):
                self._real = real

            def execute(self, q, *a):
                self._real.execute(q, *a)
                after(q)
                return self

            def __getattr__(self, name):
                return getattr(self._real, name)

            def __iter__(self):
                return iter(self._real)

        class _Conn(object):
            def __init__(self, real):
                self._real = real

            def cursor(self):
                return _Cursor(self._real.cursor())

            def execute(self, q, *a):
                r = self._real.execute(q, *a)
                after(q)
                return r

            def __getattr__(self, name):
                return getattr(self._real, name)
        wrapped = _Conn(store.identityKeyStore.dbConn)
        for sub in (store.identityKeyStore, store.preKeyStore, store.signedPreKeyStore, store.sessionStore, store.senderKeyStore):
            sub.dbConn = wrapped
    call = spec["call"]
    b = bytes.fromhex(spec["record"]) if spec.get("record") else None
    if call == "saveIdentity":
        store.saveIdentity(spec["c"], IdentityKey(b, 0))
    elif call == "storeSession":
        store.storeSession(spec["c"], spec["device"], SessionRecord(serialized=b))
    elif call == "deleteSession":
        store.deleteSession(spec["c"], 1)
    elif call == "deleteAllSessions":
        store.deleteAllSessions(spec["c"])
    elif call == "storePreKey":
        store.storePreKey(spec["id"], PreKeyRecord(serialized=b))
    elif call == "removePreKey":
        store.removePreKey(spec["id"])
    elif call == "setAsSent":
        store.preKeyStore.setAsSent(spec["ids"])
    elif call == "storeSignedPreKey":
        store.storeSignedPreKey(spec["id"], SignedPreKeyRecord(serialized=b))
    elif call == "removeSignedPreKey":
        store.removeSignedPreKey(spec["id"])
    elif call == "storeSenderKey":
        store.storeSenderKey(SenderKeyName(spec["g"], AxolotlAddress(spec["s"], 0)), SenderKeyRecord(serialized=b))
    else:
        raise SystemExit("unknown call " + call)
    sys.stdout.write("returned\n")
    sys.stdout.flush()
    os._exit(0)


if __name__ == "__main__":
    try:
        main()
    except SystemExit:
        raise
    except BaseException as e:  # the store refused (e.g. an id that is taken): not a crash
        sys.stdout.write("raised %s\n" % type(e).__name__)
        sys.stdout.flush()
        os._exit(3)
