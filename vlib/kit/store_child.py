"""Child process of the syscall-level crash model (C13): opens the key store of the tree under test and performs ONE store call.

The parent runs it under `strace -e inject=<write-type syscalls>:signal=SIGKILL:when=N`, so that the process dies at the N-th
write-type system call - also in the middle of SQLite's COMMIT, which the in-process recorder (C-level call boundaries) cannot
reach.  usage: store_child.py <spec.json>
"""
import os
import sys
import json

VERIF = os.path.dirname(os.path.dirname(os.path.dirname(os.path.abspath(__file__))))
sys.path.insert(0, VERIF)
sys.path.insert(0, os.environ.get("YOWSUP_REPO", "/repo"))
from vlib import compat  # noqa: E402,F401
from yowsup.axolotl.store.sqlite.liteaxolotlstore import LiteAxolotlStore  # noqa: E402
from axolotl.identitykey import IdentityKey  # noqa: E402
from axolotl.state.sessionrecord import SessionRecord  # noqa: E402
from axolotl.state.prekeyrecord import PreKeyRecord  # noqa: E402
from axolotl.state.signedprekeyrecord import SignedPreKeyRecord  # noqa: E402
from axolotl.groups.state.senderkeyrecord import SenderKeyRecord  # noqa: E402
from axolotl.groups.senderkeyname import SenderKeyName  # noqa: E402
from axolotl.axolotladdress import AxolotlAddress  # noqa: E402


def main():
    spec = json.load(open(sys.argv[1]))
    store = LiteAxolotlStore(spec["db"])
    call = spec["call"]
    b = bytes.fromhex(spec["record"]) if spec.get("record") else None
    if call == "saveIdentity":
        store.saveIdentity(spec["c"], IdentityKey(b, 0))
    elif call == "storeSession":
        store.storeSession(spec["c"], spec["device"], SessionRecord(serialized=b))
    elif call == "deleteSession":
        store.deleteSession(spec["c"], 1)
    elif call == "deleteAllSessions":
        store.deleteAllSessions(spec["c"])
    elif call == "storePreKey":
        store.storePreKey(spec["id"], PreKeyRecord(serialized=b))
    elif call == "removePreKey":
        store.removePreKey(spec["id"])
    elif call == "setAsSent":
        store.preKeyStore.setAsSent(spec["ids"])
    elif call == "storeSignedPreKey":
        store.storeSignedPreKey(spec["id"], SignedPreKeyRecord(serialized=b))
    elif call == "removeSignedPreKey":
        store.removeSignedPreKey(spec["id"])
    elif call == "storeSenderKey":
        store.storeSenderKey(SenderKeyName(spec["g"], AxolotlAddress(spec["s"], 0)), SenderKeyRecord(serialized=b))
    else:
        raise SystemExit("unknown call " + call)
    sys.stdout.write("returned\n")
    sys.stdout.flush()
    os._exit(0)


if __name__ == "__main__":
    try:
        main()
    except SystemExit:
        raise
    except BaseException as e:  # the store refused (e.g. an id that is taken): not a crash
        sys.stdout.write("raised %s\n" % type(e).__name__)
        sys.stdout.flush()
        os._exit(3)
