"""Stack builders and recording layers (DESIGN.md section 4.4)."""
from .. import compat  # noqa: F401  (must precede yowsup imports)
import queue

from yowsup.layers import YowLayer
from yowsup.stacks import YowStack


class Bottom(YowLayer):
    """Plays the wire below the layers under test: records what is sent down."""

    def __init__(self):
        super(Bottom, self).__init__()
        self.sent = []
        self.on_send = None     # one-shot hook: called with the stanza while the sender is still inside its send call

    def send(self, data):
        self.sent.append(data)
        if self.on_send is not None:
            cb, self.on_send = self.on_send, None
            cb(data)

    def inject(self, data):
        """data arriving from below"""
        self.toUpper(data)

    def onEvent(self, ev):
        return False


class Top(YowLayer):
    """Plays the application above the layers under test: records what arrives."""

    def __init__(self):
        super(Top, self).__init__()
        self.got = []
        self.events = []

    def receive(self, data):
        self.got.append(data)

    def onEvent(self, ev):
        self.events.append(ev.getName())
        return False


def new_stack_class():
    """One stack class per simulated process: YowStack keeps its deferred-callback queue in a class
    attribute, i.e. per process."""
    return type("AccountStack", (YowStack,), {"_YowStack__detachedQueue": queue.Queue()})


def sandwich(layers, props=None):
    """Bottom + layers (bottom-up order) + Top.  Returns (stack, bottom, top)."""
    cls = new_stack_class()
    stack = cls((Bottom,) + tuple(layers) + (Top,), reversed=False, props=dict(props or {}))
    return stack, stack.getLayer(0), stack.getLayer(-1)


def drain_detached(stack, limit=1000):
    q = stack.__class__._YowStack__detachedQueue
    n = 0
    while n < limit:
        try:
            cb = q.get(False)
        except queue.Empty:
            break
        cb()
        n += 1
    return n


class LoopBudgetExceeded(Exception):
    pass


class loop_budget(object):
    """Deterministic guard against a loop that never ends inside the code under test: counts the backward jumps executed in
    the given functions (sys.monitoring JUMP events, local to their code objects) and raises LoopBudgetExceeded inside the
    looping code once the budget is used up.  No wall clock is involved, so the verdict is reproducible."""

    def __init__(self, functions, limit):
        self.codes = [getattr(f, "__code__", f) for f in functions]
        self.limit = limit
        self.count = 0

    def __enter__(self):
        import sys
        mon = getattr(sys, "monitoring", None)
        self.mon = mon
        if mon is None:
            return self
        self.tool = mon.DEBUGGER_ID
        try:
            mon.use_tool_id(self.tool, "verif-loop-budget")
        except ValueError:
            self.mon = None
            return self

        def on_jump(code, src, dst):
            if dst < src:
                self.count += 1
                if self.count > self.limit:
                    raise LoopBudgetExceeded("more than %d loop iterations" % self.limit)
        mon.register_callback(self.tool, mon.events.JUMP, on_jump)
        for c in self.codes:
            mon.set_local_events(self.tool, c, mon.events.JUMP)
        return self

    def __exit__(self, *a):
        mon = self.mon
        if mon is None:
            return False
        for c in self.codes:
            mon.set_local_events(self.tool, c, 0)
        mon.register_callback(self.tool, mon.events.JUMP, None)
        mon.free_tool_id(self.tool)
        return False


def functions_of(*modules_or_classes):
    """every function code object defined in the given modules / classes (for loop_budget)"""
    import inspect
    out = []
    for m in modules_or_classes:
        for name, obj in inspect.getmembers(m):
            if inspect.isfunction(obj) and (inspect.isclass(m) or obj.__module__ == getattr(m, "__name__", None)):
                out.append(obj.__code__)
            elif inspect.isclass(obj) and inspect.ismodule(m) and obj.__module__ == m.__name__:
                out.extend(functions_of(obj))
    return out
