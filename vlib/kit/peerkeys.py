"""Key material of a simulated contact and the stanzas a server builds from it (key-bundle results, group info)."""
from .. import compat  # noqa: F401
import binascii

from yowsup.axolotl.store.sqlite.liteaxolotlstore import LiteAxolotlStore
from axolotl.util.keyhelper import KeyHelper

_cache = {}


def _id3(n):
    return binascii.unhexlify(format(n, "x").zfill(6))


class Peer(object):
    def __init__(self, jid, nkeys=6):
        self.jid = jid
        self.store = LiteAxolotlStore(":memory:")
        self.identity = self.store.getIdentityKeyPair()
        self.registration = self.store.getLocalRegistrationId()
        self.signed = KeyHelper.generateSignedPreKey(self.identity, 1)
        self.store.storeSignedPreKey(self.signed.getId(), self.signed)
        self.prekeys = KeyHelper.generatePreKeys(1, nkeys)
        for k in self.prekeys:
            self.store.storePreKey(k.getId(), k)
        self.handed_out = 0

    def user_tree(self):
        """<user jid> subtree of a key-bundle result; each call hands out the next one-time prekey (the last one repeatedly)"""
        k = self.prekeys[min(self.handed_out, len(self.prekeys) - 1)]
        self.handed_out += 1
        reg = binascii.unhexlify(format(self.registration, "x").zfill(8))
        return ("user", {"jid": self.jid}, [
            ("registration", {}, reg),
            ("type", {}, b"\x05"),
            ("identity", {}, bytes(self.identity.getPublicKey().getPublicKey().serialize()[1:])),
            ("skey", {}, [("id", {}, _id3(self.signed.getId())),
                          ("value", {}, bytes(self.signed.getKeyPair().getPublicKey().serialize()[1:])),
                          ("signature", {}, bytes(self.signed.getSignature()))]),
            ("key", {}, [("id", {}, _id3(k.getId())), ("value", {}, bytes(k.getKeyPair().getPublicKey().serialize()[1:]))]),
        ])


def peer(jid):
    if jid not in _cache:
        _cache[jid] = Peer(jid)
    return _cache[jid]


def keys_result(iq_id, jids):
    return ("iq", {"type": "result", "from": "s.whatsapp.net", "id": iq_id}, [("list", {}, [peer(j).user_tree() for j in jids])])


def group_info_result(iq_id, group_jid, members, creator=None):
    creator = creator or members[0]
    return ("iq", {"type": "result", "from": group_jid, "id": iq_id},
            [("group", {"subject": "grp", "creation": "1500000000", "creator": creator, "s_t": "1500000001", "s_o": creator,
                        "id": group_jid.split("@")[0]}, [("participant", {"jid": m}, None) for m in members])])
