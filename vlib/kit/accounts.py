"""Accounts against a WhatsApp server double (DESIGN.md sections 4.4, 4.5).

Each account = a profile directory + a (re)creatable real stack from the network layer up (coder, the three encryption
layers, all protocol layers, an application layer that acknowledges like the demo clients) + a network thread.  The
dispatcher double blocks inside connect() like the real ones; frames cross the client's real coder layer, so what leaves a
client is observed as bytes.  The server double stores key bundles, serves key/group-info requests, acks, fans out group
messages, routes receipts - and lets the script decide which queued stanza is delivered next, duplicated or corrupted.
"""
import os
import time
import queue
import shutil
import threading
import traceback

from .. import compat
from ..core import HarnessError
from . import env as envkit
from .protokit import small_key_batches

import yowsup.layers.network.layer as netmod
from yowsup.layers.network.layer import YowNetworkLayer
from yowsup.layers.network.dispatcher.dispatcher import YowConnectionDispatcher
from yowsup.layers import YowParallelLayer, YowLayerEvent
from yowsup.layers.coder import YowCoderLayer
from yowsup.layers.coder.encoder import WriteEncoder
from yowsup.layers.coder.decoder import ReadDecoder
from yowsup.layers.coder.tokendictionary import TokenDictionary
from yowsup.layers.axolotl import AxolotlSendLayer, AxolotlControlLayer, AxolotlReceivelayer
from yowsup.layers.axolotl.props import PROP_IDENTITY_AUTOTRUST
from yowsup.layers.interface import YowInterfaceLayer, ProtocolEntityCallback
from yowsup.layers.protocol_iq import YowIqProtocolLayer
from yowsup.stacks import YowStack, YowStackBuilder
from yowsup.profile.profile import YowProfile
from yowsup.config.v1.config import Config
from yowsup.config.manager import ConfigManager
from yowsup.structs import ProtocolTreeNode as N
from consonance.structs.keypair import KeyPair

_td = TokenDictionary()
ENC = WriteEncoder(_td)
DEC = ReadDecoder(_td)
IDLE_TIMEOUT = 30


def encode(node):
    return bytes(bytearray(ENC.protocolTreeNodeToBytes(node)))


def install():
    compat.patch_axolotl_padding(True)
    compat.patch_axolotl_senderkey_order(True)
    small_key_batches()
    netmod.AsyncoreConnectionDispatcher = FakeDispatcher
    netmod.SocketConnectionDispatcher = FakeDispatcher


class App(YowInterfaceLayer):
    """application written the way the demo clients are: entity callbacks registered with the interface layer (whose own receive()
    dispatches to them), messages and receipts acknowledged; everything without a callback arrives through toUpper"""

    @ProtocolEntityCallback("message")
    def on_message(self, e):
        self.getProp("client").app_got.append(e)
        self.toLower(e.ack())

    @ProtocolEntityCallback("receipt")
    def on_receipt(self, e):
        self.getProp("client").app_got.append(e)
        self.toLower(e.ack())

    def toUpper(self, e):
        self.getProp("client").app_got.append(e)


class FakeDispatcher(YowConnectionDispatcher):
    def __init__(self, cb):
        super(FakeDispatcher, self).__init__(cb)
        self.up = False
        self.client = cb.getProp("client")

    def connect(self, host):
        self.connectionCallbacks.onConnecting()
        self.up = True
        self.client.disp = self
        self.client.server.attach(self, self.client.jid)
        self.connectionCallbacks.onConnected()
        self.client.server.on_connected(self)
        self.client.conn_loop(self)

    def disconnect(self):
        if self.up:
            self.up = False
            self.client.server.detach(self)
            self.connectionCallbacks.onDisconnected()

    def sendData(self, data):
        if not self.up:
            self.client.errors.append(("write_while_down", len(data)))
            return
        self.client.sent_frames.append(bytes(data))
        node = DEC.getProtocolTreeNode(bytearray(data))
        self.client.server.from_client(self, node)


class Client(object):
    def __init__(self, server, jid, home, props=None):
        self.server = server
        self.jid = jid
        self.phone = jid.split("@")[0]
        self.home = home
        self.props = dict(props or {})
        self.app_got = []
        self.sent_frames = []
        self.errors = []
        self.thread = None
        self.generation = 0
        self.start()

    # ---- (re)start: a new process on the same profile directory
    def start(self):
        self.generation += 1
        envkit_home(self.home)
        prof = YowProfile(self.phone)
        layers = (YowNetworkLayer, YowCoderLayer, AxolotlControlLayer,
                  YowParallelLayer((AxolotlSendLayer, AxolotlReceivelayer)),
                  YowParallelLayer(YowStackBuilder.getProtocolLayers()), App)
        self.StackCls = type("ClientStack", (YowStack,), {"_YowStack__detachedQueue": queue.Queue()})
        props = {YowIqProtocolLayer.PROP_PING_INTERVAL: 0, "client": self}
        props.update(self.props)
        self.stack = self.StackCls(layers, reversed=False, props=props)
        self.stack.setProfile(prof)
        self.profile = prof
        self.app = self.stack.getLayer(-1)
        self.inbox = queue.Queue()
        self.cond = threading.Condition()
        self.waiting = False      # the network thread is blocked waiting for the next command
        self.posted = 0           # commands handed to the thread
        self.taken = 0            # commands the thread has picked up
        self.dead = False
        self.disp = None
        self.thread = threading.Thread(target=self._run, daemon=True, name="net-%s-%d" % (self.phone, self.generation))
        self.thread.start()
        self.wait_idle()

    def stop(self):
        """kill the process: the connection goes away, the thread ends, the store's connection is closed"""
        if self.disp is not None and self.disp.up:
            self.post("peerclose")
        self.post("stop")
        self.thread.join(5)
        try:
            for i in (2, 3):
                layer = self.stack.getLayer(i)
                mgr = getattr(layer, "_manager", None) or getattr(getattr(layer, "sublayers", [None])[0], "_manager", None)
                if mgr is not None:
                    mgr._store.identityKeyStore.dbConn.close()
                    break
            if self.profile._axolotl_manager is not None:
                self.profile._axolotl_manager._store.identityKeyStore.dbConn.close()
        except Exception:
            pass

    # ---- network thread
    def _run(self):
        try:
            while True:
                cmd = self._get()
                if cmd[0] == "connect":
                    envkit_home(self.home)
                    self.stack.broadcastEvent(YowLayerEvent(YowNetworkLayer.EVENT_STATE_CONNECT))
                elif cmd[0] == "pump":
                    self._pump()
                elif cmd[0] == "call":
                    cmd[1]()
                elif cmd[0] == "stop":
                    with self.cond:
                        self.dead = True
                        self.cond.notify_all()
                    return
        except BaseException as e:  # noqa
            self.errors.append(("net_thread_died", repr(e), traceback.format_exc()[-800:]))
            with self.cond:
                self.dead = True
                self.cond.notify_all()

    def _get(self):
        with self.cond:
            self.waiting = True
            self.cond.notify_all()
        item = self.inbox.get()
        with self.cond:
            self.waiting = False
            self.taken += 1
        return item

    def _pump(self):
        q = self.StackCls._YowStack__detachedQueue
        for _ in range(200):
            try:
                cb = q.get(False)
            except queue.Empty:
                break
            cb()

    def conn_loop(self, disp):
        # runs inside dispatcher.connect(): everything received is processed nested in that call
        while disp.up:
            cmd = self._get()
            if cmd[0] == "deliver":
                try:
                    disp.connectionCallbacks.onRecvData(cmd[1])
                except Exception as e:
                    self.errors.append(("recv_exception", repr(e), traceback.format_exc()[-1200:]))
            elif cmd[0] == "peerclose":
                if disp.up:
                    disp.up = False
                    self.server.detach(disp)
                    disp.connectionCallbacks.onDisconnected()
            elif cmd[0] == "call":
                try:
                    cmd[1]()
                except Exception as e:
                    self.errors.append(("call_exception", repr(e), traceback.format_exc()[-1200:]))
            elif cmd[0] == "pump":
                pass     # deferred callbacks run only once connect() has returned

    # ---- harness side
    def post(self, *cmd):
        envkit_home(self.home)      # one client runs at a time; its profile directory is the process-wide config home meanwhile
        with self.cond:
            self.posted += 1
        self.inbox.put(cmd)
        self.wait_idle()

    def wait_idle(self):
        """returns when the network thread has picked up every posted command and is waiting for the next one"""
        deadline = time.time() + IDLE_TIMEOUT
        with self.cond:
            while not (self.dead or (self.waiting and self.taken == self.posted)):
                left = deadline - time.time()
                if left <= 0:
                    raise HarnessError("client %s did not become idle within %ds (inconclusive)" % (self.jid, IDLE_TIMEOUT))
                self.cond.wait(left)

    def connect(self):
        self.post("connect")

    def pump(self):
        self.post("pump")

    def connected(self):
        return self.disp is not None and self.disp.up

    def set_prop(self, key, value):
        """the application sets a stack property from its own thread while the network thread is idle"""
        self.props[key] = value
        if getattr(self, "stack", None) is not None:
            self.stack.setProp(key, value)

    def send(self, entity):
        """the application sends from its own thread (here: the harness thread, while the network thread is idle)"""
        envkit_home(self.home)
        err = []

        def f():
            try:
                self.app.toLower(entity)
            except Exception as e:
                err.append(e)
                self.errors.append(("send_exception", repr(e), traceback.format_exc()[-1200:]))
        self.post("call", f)
        return err[0] if err else None


def envkit_home(home):
    os.environ["XDG_CONFIG_HOME"] = home
    os.environ["HOME"] = home


class Server(object):
    def __init__(self):
        self.conns = {}
        self.byjid = {}
        self.keys = {}        # jid -> bundle dict
        self.groups = {}      # group jid -> [member jids]
        self.outq = []        # [jid, node, meta] waiting to be delivered
        self.offline = {}
        self.log = []
        self.uploads = []     # (jid, node) every key upload as received
        self.upload_policy = "result"   # result | error | drop | stored_unanswered | held (what the next upload gets as answer)
        self.held_key_results = []      # (jid, answer) of key requests answered under the "held" key_fetch_policy
        self.held_results = []          # (jid, iq id) of uploads stored under the "held" policy: confirmed later, by release_results()
        self.label_next_as_broadcast = False   # deliver the next one-to-one message as <message from="status@broadcast" participant=sender>
        self.key_fetch_policy = []       # answers to the next key-bundle requests: "result" (default once exhausted) | "error" | "drop"
        self.withhold_success = set()    # jids whose next connection gets no <success> (the connection drops before the login completes)
        self.seq = 0

    # ---- connections
    def attach(self, d, jid):
        self.conns[d] = jid
        self.byjid[jid] = d

    def detach(self, d):
        jid = self.conns.pop(d, None)
        if jid is not None and self.byjid.get(jid) is d:
            self.byjid.pop(jid)

    def on_connected(self, d):
        jid = self.conns[d]
        if jid in self.withhold_success:
            self.withhold_success.discard(jid)
            return
        self.q(jid, N("success", {"creation": "1500000000", "props": "4", "t": "1500000001", "location": "atn"}))
        for node in self.offline.pop(jid, []):
            self.q(jid, node)

    def q(self, jid, node, **meta):
        self.seq += 1
        self.outq.append([jid, node, dict(meta, seq=self.seq)])

    # ---- stanzas from clients
    def from_client(self, d, node):
        jid = self.conns.get(d)
        self.log.append((jid, node))
        if node.tag == "iq" and node["xmlns"] == "encrypt" and node["type"] == "set":
            policy = self.upload_policy
            self.uploads.append((jid, node, policy))
            if policy == "drop":
                return
            if policy == "stored_unanswered":
                # the server has the keys (and hands them out), the confirmation never reaches the client
                self.store_keys(jid, node)
                return
            if policy == "error":
                self.q(jid, N("iq", {"type": "error", "from": "s.whatsapp.net", "id": node["id"]},
                              [N("error", {"code": "500", "text": "internal-server-error"})]))
                return
            if policy == "held":
                # the server has the keys and hands them out; its confirmation is on its way (a slow link) and arrives later
                self.store_keys(jid, node)
                self.held_results.append((jid, node["id"]))
                return
            self.store_keys(jid, node)
            self.q(jid, N("iq", {"type": "result", "from": "s.whatsapp.net", "id": node["id"]}))
        elif node.tag == "iq" and node["xmlns"] == "encrypt" and node["type"] == "get":
            policy = self.key_fetch_policy.pop(0) if self.key_fetch_policy else "result"
            if policy == "drop":
                return
            if policy == "error":
                self.q(jid, N("iq", {"type": "error", "from": "s.whatsapp.net", "id": node["id"]},
                              [N("error", {"code": "500", "text": "internal-server-error"})]))
                return
            users = []
            for u in node.getChild("key").getAllChildren():
                k = self.keys.get(u["jid"])
                if not k:
                    continue
                children = [N("registration", data=k["reg"]), N("type", data=k["type"]), N("identity", data=k["identity"]), k["skey"]]
                if k["prekeys"]:
                    pk = k["prekeys"].pop(0)
                    k["handed_out"].append(pk)
                    children.append(pk)
                users.append(N("user", {"jid": u["jid"]}, children))
            answer = N("iq", {"type": "result", "from": "s.whatsapp.net", "id": node["id"]}, [N("list", {}, users)])
            if policy == "held":
                # the answer is on its way (a slow link): it arrives when release_key_results() says so
                self.held_key_results.append((jid, answer))
                return
            self.q(jid, answer)
        elif node.tag == "iq" and node["xmlns"] == "w:g2" and node["type"] == "get":
            g = node["to"]
            members = self.groups.get(g, [])
            parts = [N("participant", {"jid": p}) for p in members]
            creator = members[0] if members else jid
            self.q(jid, N("iq", {"type": "result", "from": g, "id": node["id"]},
                          [N("group", {"subject": "s", "creation": "1500000000", "creator": creator, "s_t": "1500000000",
                                       "s_o": creator, "id": g.split("@")[0]}, parts)]))
        elif node.tag == "message":
            to = node["to"]
            self.q(jid, N("ack", {"class": "message", "id": node["id"], "from": to, "t": "1500000100"}))
            if to in self.groups:
                per = {}
                pn = node.getChild("participants")
                if pn:
                    for t in pn.getAllChildren("to"):
                        per[t["jid"]] = t.getChild("enc")
                sk = [c for c in node.getAllChildren("enc")]
                targets = [node["participant"]] if node["participant"] else [p for p in self.groups[to] if p != jid]
                for p in targets:
                    ch = []
                    if p in per:
                        ch.append(per[p])
                    ch += sk
                    self.q(p, N("message", {"from": to, "participant": jid, "id": node["id"], "type": node["type"],
                                            "t": "1500000100", "notify": "n"}, ch), msg_id=node["id"], kind="message")
            else:
                attrs = {"from": jid, "id": node["id"], "type": node["type"], "t": "1500000100", "notify": "n"}
                if self.label_next_as_broadcast:
                    self.label_next_as_broadcast = False
                    attrs["from"] = "status@broadcast"
                    attrs["participant"] = jid
                self.q(to, N("message", attrs, list(node.getAllChildren("enc")) + [c for c in node.getAllChildren() if c.tag != "enc"]),
                       msg_id=node["id"], kind="message")
        elif node.tag == "receipt":
            to = node["to"]
            attrs = {"id": node["id"], "t": "1500000101"}
            if node["type"]:
                attrs["type"] = node["type"]
            if to in self.groups:
                attrs["from"] = to
                attrs["participant"] = jid
                target = node["participant"]
            else:
                attrs["from"] = jid
                target = to
            self.q(jid, N("ack", {"class": "receipt", "id": node["id"], "from": to, "t": "1500000100"}))
            if target:
                self.q(target, N("receipt", attrs, list(node.getAllChildren())), kind="receipt")
        elif node.tag in ("ack", "presence", "iq"):
            pass

    def release_key_results(self):
        """the key-request answers held back so far are delivered, in order"""
        held, self.held_key_results = self.held_key_results, []
        for jid, answer in held:
            self.q(jid, answer)
        return held

    def release_results(self):
        """the confirmations held back so far are delivered (to connections that still exist), in order"""
        held, self.held_results = self.held_results, []
        for jid, iq_id in held:
            self.q(jid, N("iq", {"type": "result", "from": "s.whatsapp.net", "id": iq_id}))
        return held

    def store_keys(self, jid, node):
        k = dict(identity=node.getChild("identity").data, reg=node.getChild("registration").data,
                 type=node.getChild("type").data, skey=node.getChild("skey"),
                 prekeys=[c for c in node.getChild("list").getAllChildren()], handed_out=[])
        old = self.keys.get(jid)
        if old and old["identity"] == k["identity"]:
            k["prekeys"] = old["prekeys"] + k["prekeys"]
            k["handed_out"] = old["handed_out"]
        self.keys[jid] = k

    # ---- delivery under script control
    def step(self, clients, idx=0, mutate=None, duplicate=False):
        jid, node, meta = self.outq[idx]
        if duplicate:
            self.outq.insert(idx + 1, [jid, node, dict(meta, duplicate=True)])
        self.outq.pop(idx)
        if mutate:
            node = mutate(node)
        d = self.byjid.get(jid)
        if d is None:
            self.offline.setdefault(jid, []).append(node)
            return
        clients[jid].post("deliver", encode(node))

    def run(self, clients, limit=2000):
        n = 0
        while self.outq and n < limit:
            self.step(clients)
            n += 1
        return n


def settle(server, clients, limit=60):
    """deliver everything in FIFO order and let every client run its deferred callbacks until nothing moves"""
    for _ in range(limit):
        server.run(clients, limit=400)
        for c in clients.values():
            if not c.connected():
                c.pump()
        if not server.outq:
            return True
    return False


# ----------------------------------------------------------------------------------------------
# template profiles

_templates = {}


def bundle_from_store(manager):
    """what a registration uploads: the nodes the server keeps for an account"""
    import binascii
    store = manager._store

    def id3(n):
        return binascii.unhexlify(format(n, "x").zfill(6))
    ident = bytes(manager.identity.getPublicKey().serialize()[1:])
    reg = binascii.unhexlify(format(manager.registration_id, "x").zfill(8))
    spk = manager.load_latest_signed_prekey(generate=True)
    skey = N("skey", {}, [N("id", data=id3(spk.getId())), N("value", data=bytes(spk.getKeyPair().getPublicKey().serialize()[1:])),
                          N("signature", data=bytes(spk.getSignature()))])
    prekeys = [N("key", {}, [N("id", data=id3(k.getId())), N("value", data=bytes(k.getKeyPair().getPublicKey().serialize()[1:]))])
               for k in store.loadPreKeys()]
    return dict(identity=ident, reg=reg, type=b"\x05", skey=skey, prekeys=prekeys, handed_out=[])


def template(jid, registered=True, tag=""):
    """profile directory of an account, created once per process; registered=True: keys generated and known to the server"""
    key = (jid, registered, tag)
    if key in _templates:
        return _templates[key]
    install()
    import tempfile
    home = tempfile.mkdtemp(prefix="acct_tmpl_", dir=envkit.scratch_root())
    envkit_home(home)
    phone = jid.split("@")[0]
    cfg = Config(phone=phone, cc=phone[:2], client_static_keypair=KeyPair.generate(), pushname="acct")
    ConfigManager().save(phone, cfg)
    bundle = None
    if registered:
        prof = YowProfile(phone)
        m = prof.axolotl_manager
        keys = m.level_prekeys()
        bundle = bundle_from_store(m)
        m.set_prekeys_as_sent(keys)
        m._store.identityKeyStore.dbConn.close()
    _templates[key] = (home, bundle)
    return _templates[key]


def clone(home):
    import tempfile
    dst = tempfile.mkdtemp(prefix="acct_", dir=envkit.scratch_root())
    os.rmdir(dst)
    shutil.copytree(home, dst)
    return dst


def copy_bundle(b):
    return dict(identity=b["identity"], reg=b["reg"], type=b["type"], skey=b["skey"], prekeys=list(b["prekeys"]), handed_out=[])
