"""Environment shims (DESIGN.md section 2).  Must be imported before anything from yowsup.

E1  six 1.10 cannot serve ``six.moves`` to python 3.12's import system (protobuf 4.0.0rc2 needs it)
E2  consonance 0.1.5 calls random.randint with float bounds (TypeError on 3.12)
E3  python-axolotl 0.2.2 AESCipher.encrypt pads only when len % 16 != 0 (decrypt always unpads)

Nothing here touches /repo.  ``YOWSUP_REPO`` selects the tree under test (default /repo).
"""
import os
import sys
import logging

REPO = os.environ.get("YOWSUP_REPO", "/repo")
if REPO not in sys.path:
    sys.path.insert(0, REPO)

import six  # noqa: E402

sys.modules.setdefault("six.moves", six.moves)

import random as _random  # noqa: E402


class _RandShim(object):
    def __getattr__(self, k):
        return getattr(_random, k)

    def randint(self, a, b):
        return _random.randint(int(a), int(b))


_patched = {}


def patch_consonance():
    if _patched.get("consonance"):
        return
    import consonance.handshake as h
    h.random = _RandShim()
    _patched["consonance"] = True


_orig_axolotl_encrypt = None


def patch_axolotl_padding(enable=True):
    """E3: always PKCS7-pad like libsignal does.  enable=False restores the library's behaviour
    (used by the C03 canary that documents the external defect)."""
    global _orig_axolotl_encrypt
    import axolotl.sessioncipher as sc
    if _orig_axolotl_encrypt is None:
        _orig_axolotl_encrypt = sc.AESCipher.encrypt
    if not enable:
        sc.AESCipher.encrypt = _orig_axolotl_encrypt
        return
    from cryptography.hazmat.primitives import padding as _padding

    def _enc(self, raw):
        padder = _padding.PKCS7(128).padder()
        rp = padder.update(bytes(raw)) + padder.finalize()
        e = self.cipher.encryptor()
        return e.update(rp) + e.finalize()

    sc.AESCipher.encrypt = _enc


_orig_add_sender_key_state = None


def patch_axolotl_senderkey_order(enable=True):
    """E4: python-axolotl 0.2.2 appends a newly received sender-key state at the END of the record while lookups return
    the FIRST state with the key id (libsignal adds new states in front).  A group message that arrives after a later one
    from the same sender, and carries the older key distribution, is therefore looked up in the newer (already advanced)
    state and rejected as a duplicate.  enable=False restores the library's behaviour (canary)."""
    global _orig_add_sender_key_state
    import axolotl.groups.state.senderkeyrecord as skr
    from axolotl.groups.state.senderkeystate import SenderKeyState
    if _orig_add_sender_key_state is None:
        _orig_add_sender_key_state = skr.SenderKeyRecord.addSenderKeyState
    if not enable:
        skr.SenderKeyRecord.addSenderKeyState = _orig_add_sender_key_state
        return

    def add_first(self, id, iteration, chainKey, signatureKey):
        self.senderKeyStates.insert(0, SenderKeyState(id, iteration, chainKey, signatureKey))
        del self.senderKeyStates[5:]
    skr.SenderKeyRecord.addSenderKeyState = add_first


def quiet_logging():
    """The library logs through ``logging``; keep stdout for the contract lines only."""
    logging.getLogger().setLevel(logging.CRITICAL)
    for name in ("yowsup", "consonance", "dissononce", "axolotl", "transitions"):
        logging.getLogger(name).setLevel(logging.CRITICAL)
    # AxolotlManager prints key-generation progress to sys.stdout whenever its own logger level is <= DEBUG (NOTSET is)
    logging.getLogger("yowsup.axolotl.manager").setLevel(logging.CRITICAL)
    logging.lastResort = logging.NullHandler()


def check_repo_is_under_test():
    import yowsup
    f = os.path.realpath(yowsup.__file__)
    if not f.startswith(os.path.realpath(REPO) + os.sep):
        raise RuntimeError("yowsup imported from %s, expected under %s" % (f, REPO))
