"""Runner shared by all property checks (DESIGN.md section 3).

Contract of a property module ``vlib.props.cNN``:

  ID, LEVEL ("exploration" | "fault_enumeration"), RULE (str), ASSUMPTIONS (list of str)
  plan(tier) -> dict with optional keys
        shards        number of worker processes (default 16)
        enumerations  list of (name, factory) - factory() yields cases of a finite sub-space that is
                      distinct by construction; sharded by index
        strategies    list of (name, hypothesis strategy, examples per shard)
        shrink        "hypothesis" (default) | "ddmin" | None
        budget_s      soft time budget for generation per shard (running out = inconclusive part,
                      never a violation)
        exhaustive    names of enumerations that cover their finite space completely
  run_case(case) -> Outcome
  nontrivial(case, outcome) -> bool
  optional: selftest() (raise HarnessError -> exit 2), shrink_candidates(case) for ddmin,
            init_worker(shard)

Cases are plain JSON values (dict with key "sub"); bytes travel as hex strings.
"""
import os
import sys
import json
import time
import hashlib
import importlib
import traceback
import collections
import multiprocessing
import multiprocessing.connection

VERIF = os.path.dirname(os.path.dirname(os.path.abspath(__file__)))
FINDINGS_FILE = os.path.join(VERIF, "known_findings.json")
# sensitivity runs (tools/mutants.py) redirect outputs so that committed evidence is never overwritten
OUT_DIR = os.environ.get("VERIF_OUT_DIR", VERIF)


class HarnessError(Exception):
    """Something is wrong with the machinery (exit 2), never with the code under test."""


class Violation(object):
    __slots__ = ("kind", "key", "detail", "case")

    def __init__(self, kind, key, detail=None, case=None):
        self.kind = kind
        self.key = key
        self.detail = detail
        self.case = case  # optional: the specific (smaller) case that reproduces this violation

    def to_json(self):
        return {"kind": self.kind, "key": self.key, "detail": jsonable(self.detail)}


class Outcome(object):
    __slots__ = ("labels", "violations", "evals", "nontrivial_n", "info")

    def __init__(self, labels=(), violations=(), evals=1, nontrivial_n=None, info=None):
        self.labels = list(labels)
        self.violations = list(violations)
        self.evals = evals                # how many executions this case stands for
        self.nontrivial_n = nontrivial_n  # for aggregate cases: distinct non-trivial executions inside
        self.info = info

    def label(self, *names):
        for n in names:
            if n not in self.labels:
                self.labels.append(n)

    def fail(self, kind, key, detail=None, case=None):
        self.violations.append(Violation(kind, key, detail, case))


def jsonable(x, depth=0):
    if depth > 12:
        return repr(x)[:200]
    if x is None or isinstance(x, (bool, int, float)):
        return x
    if isinstance(x, str):
        return x if len(x) <= 2000 else x[:2000] + "...[%d chars]" % len(x)
    if isinstance(x, (bytes, bytearray)):
        h = bytes(x).hex()
        return "hex:" + (h if len(h) <= 2000 else h[:2000] + "...[%d bytes]" % len(x))
    if isinstance(x, dict):
        return {str(k): jsonable(v, depth + 1) for k, v in list(x.items())[:200]}
    if isinstance(x, (list, tuple, set, frozenset)):
        return [jsonable(v, depth + 1) for v in list(x)[:200]]
    return repr(x)[:500]


def canon(case):
    return json.dumps(case, sort_keys=True, separators=(",", ":"), default=repr)


def digest(case):
    return int.from_bytes(hashlib.blake2b(canon(case).encode("utf-8", "surrogatepass"),
                                          digest_size=8).digest(), "big")


def truncate_sample(case, limit=1500):
    s = canon(case)
    if len(s) <= limit:
        return case
    return {"truncated_json": s[:limit] + "...", "json_length": len(s)}


# ----------------------------------------------------------------------------------------------
# known findings

def load_findings(pid):
    if not os.path.exists(FINDINGS_FILE):
        return []
    with open(FINDINGS_FILE) as f:
        data = json.load(f)
    return [e for e in data.get("findings", []) if e.get("property") == pid]


# ----------------------------------------------------------------------------------------------
# exception classification

def classify_exception(exc):
    """Uncaught exception out of run_case: attribute it to the repository or to the harness."""
    from . import compat
    tb = traceback.extract_tb(exc.__traceback__)
    repo = os.path.realpath(compat.REPO) + os.sep
    innermost_repo = None
    for fr in tb:
        if os.path.realpath(fr.filename).startswith(repo):
            innermost_repo = fr
    return innermost_repo, tb


class debug_logging(object):
    """the library's loggers at DEBUG for the duration; what they print is discarded"""

    def __enter__(self):
        import logging
        self.lg = logging.getLogger("yowsup")
        self.saved = (self.lg.level, self.lg.propagate, list(self.lg.handlers))
        for h in list(self.lg.handlers):
            self.lg.removeHandler(h)
        self.handler = logging.NullHandler()
        self.lg.addHandler(self.handler)
        self.lg.propagate = False
        self.lg.setLevel(logging.DEBUG)
        return self

    def __exit__(self, *a):
        self.lg.removeHandler(self.handler)
        self.lg.setLevel(self.saved[0])
        self.lg.propagate = self.saved[1]
        for h in self.saved[2]:
            self.lg.addHandler(h)
        return False


def run_marked(mod, case):
    """run_case, honouring the marker of a case that fails only with debug logging on"""
    if isinstance(case, dict) and case.get("_debug_logging"):
        with debug_logging():
            return mod.run_case({k: v for k, v in case.items() if k != "_debug_logging"})
    return mod.run_case(case)


class Stats(object):
    def __init__(self):
        self.evaluations = 0
        self.nontrivial = set()
        self.nontrivial_enum = 0
        self.labels = collections.Counter()
        self.samples = {}
        self.known_hits = collections.Counter()
        self.skipped_budget = 0
        self.by_source = collections.Counter()
        self.enum_complete = {}
        self.hyp_stats = {}

    def to_json(self):
        return {
            "evaluations": self.evaluations,
            "nontrivial": sorted(self.nontrivial),
            "nontrivial_enum": self.nontrivial_enum,
            "labels": dict(self.labels),
            "samples": [[list(k), v] for k, v in self.samples.items()],
            "known_hits": dict(self.known_hits),
            "skipped_budget": self.skipped_budget,
            "by_source": dict(self.by_source),
            "enum_complete": self.enum_complete,
        }


class PropertyViolated(Exception):
    pass


def _make_body(worker, name, last):
    def body(case):
        # Hypothesis always starts a run with the simplest value of the strategy, whatever the seed: sixteen shards would spend
        # their first example each on the same case (and a strategy with one example per shard would see nothing else).  Only
        # shard 0 evaluates it; the other shards are given one example more instead (run_strategies) and skip it here.
        last["calls"] = last.get("calls", 0) + 1
        if last["calls"] == 1 and worker.shard != 0:
            return
        if time.time() > worker.t_end and "fail" not in last:
            worker.stats.skipped_budget += 1
            return
        new = worker.evaluate(case, "gen:" + name)
        if new:
            last["fail"] = (case, new)
            raise PropertyViolated()
    return body


class Worker(object):
    def __init__(self, mod, tier, seed, shard, nshards, plan, open_keys):
        self.mod = mod
        self.tier = tier
        self.seed = seed
        self.shard = shard
        self.nshards = nshards
        self.plan = plan
        self.open_keys = open_keys
        self.stats = Stats()
        self.failure = None       # (case, [violation json], source): the most recent failure
        self.failures = []        # every failure (plan["collect_all"] lets the strategies continue after one)
        self.t_end = time.time() + plan.get("budget_s", 240 if tier == "quick" else 1500)

    # -- one evaluation ------------------------------------------------------------------------
    def evaluate(self, case, source, distinct_by_construction=False):
        new = self._evaluate(case, source, distinct_by_construction)
        # the logging configuration is part of no property's domain and must not matter to any of them: one case in six (chosen by
        # its digest; every case once a difference has shown up) is evaluated a second time with the library's loggers at DEBUG -
        # what `yowsup-cli -d` and an application being debugged run with.  A case that fails only then carries "_debug_logging".
        if not new and isinstance(case, dict) and not case.get("_debug_logging") and getattr(self.mod, "DEBUG_LOGGING_PASS", True) \
                and (self.debug_all or digest(case) % 6 == 0):
            marked = dict(case, _debug_logging=True)
            keep = (self.stats.evaluations, dict(self.stats.by_source))
            new = self._evaluate(marked, source, distinct_by_construction, count=False)
            if new:
                self.debug_all = True
                case["_debug_logging"] = True
                self.stats.labels["fails_only_with_debug_logging"] += 1
            self.stats.labels["also_evaluated_with_debug_logging"] += 1
        return new

    debug_all = False

    def _evaluate(self, case, source, distinct_by_construction=False, count=True):
        mod = self.mod
        try:
            if isinstance(case, dict) and case.get("_debug_logging"):
                with debug_logging():
                    out = mod.run_case({k: v for k, v in case.items() if k != "_debug_logging"})
            else:
                out = mod.run_case(case)
        except HarnessError:
            raise
        except Exception as e:  # noqa
            fr, tb = classify_exception(e)
            if fr is None:
                raise HarnessError("run_case raised outside the repository: %r\n%s" % (
                    e, "".join(traceback.format_exception(type(e), e, e.__traceback__))))
            out = Outcome()
            out.fail("unexpected_exception",
                     "unexpected_exception:%s:%s:%s" % (type(e).__name__, os.path.basename(fr.filename), fr.name),
                     {"exception": repr(e), "where": "%s:%s %s" % (fr.filename, fr.lineno, fr.name)})
        st = self.stats
        if not count:
            # (the second pass of a case is not another case)
            new = []
            for v in out.violations:
                if v.key in self.open_keys:
                    st.known_hits[v.key] += 1
                else:
                    new.append(v)
            return new
        st.evaluations += out.evals
        st.by_source[source] += out.evals
        for lb in out.labels:
            st.labels[lb] += 1
        if out.nontrivial_n is not None:
            st.nontrivial_enum += out.nontrivial_n
            nt = out.nontrivial_n > 0
        else:
            nt = bool(mod.nontrivial(case, out))
            if nt:
                if distinct_by_construction:
                    st.nontrivial_enum += 1
                else:
                    st.nontrivial.add(digest(case))
        if nt:
            key = tuple(sorted(out.labels))
            if key not in st.samples and len(st.samples) < 40:
                st.samples[key] = truncate_sample(case)
        new = []
        for v in out.violations:
            if v.key in self.open_keys:
                st.known_hits[v.key] += 1
            else:
                new.append(v)
        return new

    def record_failure(self, case, new, source):
        v0 = new[0]
        self.failure = (v0.case if v0.case is not None else case, [v.to_json() for v in new], source)
        self.failures.append(self.failure)

    # -- phases --------------------------------------------------------------------------------
    def run_regress(self):
        d = os.path.join(VERIF, "replays", "regress", self.mod.ID)
        if not os.path.isdir(d):
            return
        for i, name in enumerate(sorted(os.listdir(d))):
            if not name.endswith(".json") or i % self.nshards != self.shard:
                continue
            with open(os.path.join(d, name)) as f:
                rep = json.load(f)
            new = self.evaluate(rep["case"], "regress")
            if new:
                self.record_failure(rep["case"], new, "regress:" + name)
                return

    def run_enumerations(self):
        for name, factory in self.plan.get("enumerations", []):
            if self.failure:
                return
            complete = True
            for i, case in enumerate(factory()):
                if i % self.nshards != self.shard:
                    continue
                if time.time() > self.t_end:
                    complete = False
                    self.stats.skipped_budget += 1
                    break
                new = self.evaluate(case, "enum:" + name, distinct_by_construction=True)
                if new:
                    self.record_failure(case, new, "enum:" + name)
                    complete = False
                    break
            self.stats.enum_complete[name] = complete

    def run_strategies(self):
        import hypothesis
        from hypothesis import given, settings, HealthCheck, Phase, Verbosity
        shrink_mode = self.plan.get("shrink", "hypothesis")
        collect_all = bool(self.plan.get("collect_all"))
        for idx, (name, strat, n) in enumerate(self.plan.get("strategies", [])):
            if self.failure and not collect_all:
                return
            if n <= 0:
                continue
            phases = [Phase.generate]
            if shrink_mode == "hypothesis":
                phases.append(Phase.shrink)
            last = {}
            worker = self

            test = given(strat)(_make_body(worker, name, last))
            test = settings(max_examples=n if self.shard == 0 else n + 1, database=None, deadline=None, derandomize=False,
                            report_multiple_bugs=False, phases=phases, verbosity=Verbosity.quiet,
                            suppress_health_check=[HealthCheck.too_slow, HealthCheck.data_too_large,
                                                   HealthCheck.large_base_example],
                            )(test)
            test = hypothesis.seed((self.seed * 64 + self.shard) * 1000 + idx)(test)
            try:
                test()
            except PropertyViolated:
                case, new = last["fail"]
                self.record_failure(case, new, "gen:" + name)
            except hypothesis.errors.FailedHealthCheck as e:
                raise HarnessError("generator health check failed for %s: %s" % (name, e))
            except hypothesis.errors.Flaky as e:
                # the same case gave two different verdicts: the check is not a pure function of the case
                if "fail" in last:
                    case, new = last["fail"]
                    self.record_failure(case, new, "gen:" + name + ":flaky")
                else:
                    raise HarnessError("flaky evaluation in %s: %s" % (name, e))

    def ddmin(self):
        """Greedy reduction over module-provided simpler candidates (heavy, stateful properties)."""
        if not self.failure or not hasattr(self.mod, "shrink_candidates"):
            return
        case, viols, source = self.failure
        keys = set(v["key"] for v in viols)
        t_stop = time.time() + (30 if self.tier == "quick" else 300)
        improved = True
        while improved and time.time() < t_stop:
            improved = False
            for cand in self.mod.shrink_candidates(case):
                if time.time() > t_stop:
                    break
                try:
                    out = run_marked(self.mod, cand)
                except Exception:
                    continue
                new = [v for v in out.violations if v.key not in self.open_keys]
                if new and (set(v.key for v in new) & keys):
                    case, viols = cand, [v.to_json() for v in new]
                    improved = True
                    break
        self.failure = (case, viols, source)
        self.failures[-1] = self.failure

    def run_canaries(self, findings):
        res = []
        for e in findings:
            if e.get("status") != "open":
                continue
            path = os.path.join(VERIF, e["canary_replay"])
            try:
                with open(path) as f:
                    rep = json.load(f)
                out = run_marked(self.mod, rep["case"])
                hit = any(v.key == e["key"] for v in out.violations)
                other = [v.to_json() for v in out.violations if v.key not in self.open_keys]
            except Exception as ex:  # canary could not run at all: harness problem
                raise HarnessError("canary %s failed to run: %r" % (path, ex))
            res.append({"key": e["key"], "what": e["what"], "reproduces": hit, "other": other,
                        "canary": e["canary_replay"]})
        return res

    def run(self, findings):
        if hasattr(self.mod, "init_worker"):
            self.mod.init_worker(self.shard)
        canaries = []
        if self.shard == 0:
            canaries = self.run_canaries(findings)
        self.run_regress()
        if not self.failure:
            self.run_enumerations()
        if not self.failure or self.plan.get("collect_all"):
            self.run_strategies()
        if self.failure and self.plan.get("shrink") == "ddmin":
            self.ddmin()
        res = self.stats.to_json()
        res["failures"] = self.failures
        res["canaries"] = canaries
        return res


_COV = {}


def _coverage_start():
    """VERIF_COVERAGE_DIR=<dir>: record which lines of the repository each shard executes (sys.monitoring, each location reported
    once); tools/anchor_coverage.py merges the shard files and lists the lines of a property's anchor files no case reached"""
    d = os.environ.get("VERIF_COVERAGE_DIR")
    if not d or not hasattr(sys, "monitoring"):
        return
    from . import compat
    repo = compat.REPO.rstrip("/") + "/"
    mon = sys.monitoring
    tool = mon.COVERAGE_ID
    try:
        mon.use_tool_id(tool, "verif-coverage")
    except ValueError:
        return

    def on_line(code, line):
        fn = code.co_filename
        if fn.startswith(repo):
            _COV.setdefault(fn[len(repo):], set()).add(line)
        return mon.DISABLE
    mon.register_callback(tool, mon.events.LINE, on_line)
    mon.set_events(tool, mon.events.LINE)


def _coverage_dump(shard):
    d = os.environ.get("VERIF_COVERAGE_DIR")
    if not d or not _COV:
        return
    os.makedirs(d, exist_ok=True)
    with open(os.path.join(d, "shard-%d-%d.json" % (shard, os.getpid())), "w") as f:
        json.dump({k: sorted(v) for k, v in _COV.items()}, f)


def _partial(w):
    """what a shard had established before a harness error ended it: violations already found stay violations"""
    if w is None:
        return None
    try:
        res = w.stats.to_json()
        res["failures"] = w.failures
        res["canaries"] = []
        return res
    except Exception:
        return None


def _worker_main(conn, modname, tier, seed, shard, nshards, open_keys, findings):
    # keep stdout for the parent's contract lines
    try:
        sys.stdout.flush()
        os.dup2(2, 1)
    except Exception:
        pass
    try:
        import warnings
        warnings.filterwarnings("ignore", module="hypothesis")
        _coverage_start()
        mod = importlib.import_module(modname)
        plan = mod.plan(tier)
        w = None
        w = Worker(mod, tier, seed, shard, nshards, plan, set(open_keys))
        res = w.run(findings)
        _coverage_dump(shard)
        conn.send(("ok", res))
    except HarnessError as e:
        conn.send(("harness", str(e), _partial(w)))
    except BaseException as e:  # noqa
        conn.send(("harness", "worker crashed: %r\n%s" % (e, traceback.format_exc()), _partial(w)))
    finally:
        try:
            conn.close()
            from .kit import env as _env
            _env.cleanup()
        finally:
            os._exit(0)


# ----------------------------------------------------------------------------------------------

def write_evidence(mod, tier, seed, coverage, wall, nviol):
    os.makedirs(os.path.join(OUT_DIR, "evidence"), exist_ok=True)
    ev = {
        "property_id": mod.ID,
        "tier": tier,
        "seed": seed,
        "level": mod.LEVEL,
        "coverage": coverage,
        "assumptions": list(getattr(mod, "ASSUMPTIONS", [])),
        "wall_s": round(wall, 2),
        "violations": nviol,
    }
    path = os.path.join(OUT_DIR, "evidence", "%s.json" % mod.ID)
    tmp = path + ".tmp"
    with open(tmp, "w") as f:
        json.dump(ev, f, indent=1, sort_keys=True, default=repr)
        f.write("\n")
    os.replace(tmp, path)
    return path


def run_check(mod, tier, seed, shards_override=None):
    t0 = time.time()
    findings = load_findings(mod.ID)
    open_keys = [e["key"] for e in findings if e.get("status") == "open"]
    if hasattr(mod, "selftest"):
        mod.selftest()
    plan = mod.plan(tier)
    fdir = os.path.join(OUT_DIR, "replays", "found")
    if os.path.isdir(fdir):
        for name in os.listdir(fdir):
            if name.startswith(mod.ID + "-"):
                os.unlink(os.path.join(fdir, name))
    nshards = shards_override or plan.get("shards", 16)
    hard_limit = plan.get("hard_limit_s", 600 if tier == "quick" else 3600)
    ctx = multiprocessing.get_context("fork")
    procs = []
    conns = {}
    for k in range(nshards):
        parent, child = ctx.Pipe(duplex=False)
        p = ctx.Process(target=_worker_main,
                        args=(child, mod.__name__, tier, seed, k, nshards, open_keys, findings))
        p.daemon = True
        p.start()
        child.close()
        procs.append(p)
        conns[parent] = k
    results = {}
    deadline = t0 + hard_limit
    pending = dict(conns)
    while pending:
        left = deadline - time.time()
        if left <= 0:
            break
        ready = multiprocessing.connection.wait(list(pending), timeout=min(left, 5))
        for c in ready:
            k = pending.pop(c)
            try:
                results[k] = c.recv()
            except EOFError:
                results[k] = ("harness", "shard %d died without a result" % k)
    if not pending:
        # every shard has reported: give each the time to remove its scratch directories before it is ended
        for p in procs:
            p.join(20)
    for p in procs:
        if p.is_alive():
            p.terminate()
    for p in procs:
        p.join(5)
    from .kit import env as _env
    _env.sweep([p.pid for p in procs])
    errs = sorted(set(r[1] for r in results.values() if r[0] != "ok"))
    if pending:
        errs.append("watchdog expired after %ds (inconclusive)" % hard_limit)
    if errs:
        print("HARNESS-ERROR property=%s\n%s" % (mod.ID, "\n".join(errs)), file=sys.stderr)
    # a harness error makes the run inconclusive (exit 2, nothing written) - unless some shard had already found a violation:
    # that stays a violation and is reported as one
    usable = {}
    for k, r in results.items():
        if r[0] == "ok":
            usable[k] = r
        elif len(r) > 2 and r[2]:
            usable[k] = ("ok", r[2])
    if errs and not any(u[1]["failures"] for u in usable.values()):
        return 2
    results = usable

    # merge
    evaluations = 0
    nontriv = set()
    nontriv_enum = 0
    labels = collections.Counter()
    samples = {}
    known_hits = collections.Counter()
    skipped = 0
    by_source = collections.Counter()
    enum_complete = {}
    failures = []
    canaries = []
    for k in sorted(results):
        r = results[k][1]
        evaluations += r["evaluations"]
        nontriv.update(r["nontrivial"])
        nontriv_enum += r["nontrivial_enum"]
        labels.update(r["labels"])
        for key, s in r["samples"]:
            samples.setdefault(tuple(key), s)
        known_hits.update(r["known_hits"])
        skipped += r["skipped_budget"]
        by_source.update(r["by_source"])
        for name, c in r["enum_complete"].items():
            enum_complete[name] = enum_complete.get(name, True) and c
        failures.extend(r["failures"])
        canaries.extend(r["canaries"])

    sample_list = [{"labels": list(k), "case": v} for k, v in list(samples.items())[:8]]
    exhaustive_names = [n for n in plan.get("exhaustive", []) if enum_complete.get(n)]
    coverage = {
        "evaluations": evaluations,
        "distinct_nontrivial": len(nontriv) + nontriv_enum,
        "rule": mod.RULE,
        "samples": sample_list,
        "labels": dict(labels.most_common()),
        "by_source": dict(by_source),
        "excluded_known_findings": dict(known_hits),
        "skipped_after_time_budget": skipped,
        "shards": nshards,
        "exhaustive": False,
        "exhaustive_subspaces": exhaustive_names,
    }
    if hasattr(mod, "coverage_extra"):
        coverage.update(mod.coverage_extra(tier, coverage))

    rc = 0
    lines = []
    for c in canaries:
        if c["reproduces"]:
            lines.append("KNOWN-FINDING: property=%s %s [key=%s canary=%s]" % (mod.ID, c["what"], c["key"], c["canary"]))
        else:
            print("note: known finding %s no longer reproduces from %s" % (c["key"], c["canary"]), file=sys.stderr)
        if c["other"]:
            failures.append((None, c["other"], "canary:" + c["canary"]))
    nviol = 0
    if failures:
        rc = 1
        failures.sort(key=lambda f: len(canon(f[0])))
        os.makedirs(os.path.join(OUT_DIR, "replays", "found"), exist_ok=True)
        seen = set()
        for case, viols, source in failures:
            sig = tuple(sorted(v["key"] for v in viols))
            if sig in seen:
                continue
            seen.add(sig)
            nviol += 1
            h = hashlib.sha1(canon([case, viols]).encode("utf-8", "surrogatepass")).hexdigest()[:10]
            rel = os.path.join("replays", "found", "%s-%s.json" % (mod.ID, h))
            with open(os.path.join(OUT_DIR, rel), "w") as f:
                json.dump({"property": mod.ID, "case": case, "seed": seed, "tier": tier,
                           "source": source, "violations": viols}, f, indent=1, default=repr)
                f.write("\n")
            lines.append("VIOLATION property=%s replay=%s" % (mod.ID, os.path.join(OUT_DIR, rel)))
            print("  violated: %s" % "; ".join(v["key"] for v in viols), file=sys.stderr)
    coverage["violation_keys"] = sorted(set(v["key"] for f in failures for v in f[1]))
    write_evidence(mod, tier, seed, coverage, time.time() - t0, nviol)
    for ln in lines:
        print(ln)
    sys.stdout.flush()
    print("[%s %s seed=%d] evaluations=%d distinct_nontrivial=%d known_excluded=%d skipped=%d wall=%.1fs rc=%d" % (
        mod.ID, tier, seed, evaluations, coverage["distinct_nontrivial"], sum(known_hits.values()), skipped,
        time.time() - t0, rc), file=sys.stderr)
    return rc


def run_replay(mod, path):
    findings = load_findings(mod.ID)
    open_keys = set(e["key"] for e in findings if e.get("status") == "open")
    with open(path) as f:
        rep = json.load(f)
    if hasattr(mod, "init_worker"):
        mod.init_worker(0)
    try:
        out = run_marked(mod, rep["case"])
        viols = out.violations
    except HarnessError:
        raise
    except Exception as e:
        fr, tb = classify_exception(e)
        if fr is None:
            raise
        viols = [Violation("unexpected_exception",
                           "unexpected_exception:%s:%s:%s" % (type(e).__name__, os.path.basename(fr.filename), fr.name),
                           {"exception": repr(e)})]
    rc = 0
    for v in viols:
        print("  %s %s %s" % ("known" if v.key in open_keys else "VIOLATED", v.key,
                              json.dumps(jsonable(v.detail))[:1500]), file=sys.stderr)
        if v.key not in open_keys:
            rc = 1
    if rc:
        print("VIOLATION property=%s replay=%s" % (mod.ID, os.path.abspath(path)))
    else:
        print("replay: no violation", file=sys.stderr)
    return rc


def main(argv=None):
    argv = list(sys.argv[1:] if argv is None else argv)
    if not argv:
        print("usage: check <ID> [--tier quick|thorough] [--replay FILE] [--shards N]", file=sys.stderr)
        return 2
    pid = argv.pop(0).upper()
    tier = os.environ.get("VERIF_TIER", "quick")
    replay = None
    shards = None
    while argv:
        a = argv.pop(0)
        if a == "--tier":
            tier = argv.pop(0)
        elif a == "--replay":
            replay = argv.pop(0)
        elif a == "--shards":
            shards = int(argv.pop(0))
        else:
            print("unknown argument %s" % a, file=sys.stderr)
            return 2
    if tier not in ("quick", "thorough"):
        tier = "quick"
    try:
        seed = int(os.environ.get("VERIF_SEED", "1") or 1)
    except ValueError:
        seed = 1
    os.environ.setdefault("PYTHONHASHSEED", "0")
    try:
        from . import compat
        compat.quiet_logging()
        compat.check_repo_is_under_test()
        mod = importlib.import_module("vlib.props." + pid.lower())
        if replay:
            return run_replay(mod, replay)
        return run_check(mod, tier, seed, shards)
    except HarnessError as e:
        print("HARNESS-ERROR property=%s %s" % (pid, e), file=sys.stderr)
        return 2
    except Exception:
        print("HARNESS-ERROR property=%s\n%s" % (pid, traceback.format_exc()), file=sys.stderr)
        return 2
