"""Reference implementation of the WhatsApp binary-XML stanza format (DESIGN.md section 4.2).

Written against the format description, shares no code with yowsup.layers.coder.  Pure stdlib.

Tree representation:  (tag: str, attrs: dict[str, str], content)  with content one of
    None | bytes | list of trees.
Strings are Latin-1 (one byte per code point 0..255).

Format
  frame   = flags:u8  body            flags & 2 -> body is zlib-compressed
  node    = listhdr(n) string(tag) { string(key) string(value) }*  [content]
            n = 1 + 2*len(attrs) + (1 if content present)
  listhdr = 0x00 (empty) | 0xF8 u8 | 0xF9 u16be
  string  = token (3..235) | 236..239 u8 (secondary dictionary (t-236)*256+b) |
            0xFA string|0 string  (JID pair user@server; user may be the empty marker 0) |
            0xFB hex8 | 0xFF nibble8 :  u8 (bit7 = odd length, low 7 bits = byte count) packed nibbles |
            0xFC u8 raw | 0xFD u20 raw | 0xFE u31 raw
  content = listhdr node*  |  0xFC/0xFD/0xFE raw bytes | packed | string token (string-valued content)
"""
import os
import json
import zlib

LIST_EMPTY, LIST_8, LIST_16 = 0, 248, 249
JID_PAIR, HEX_8, BINARY_8, BINARY_20, BINARY_32, NIBBLE_8 = 250, 251, 252, 253, 254, 255
DICT_0 = 236

_here = os.path.dirname(os.path.abspath(__file__))
with open(os.path.join(_here, "tokens.json")) as _f:
    _tok = json.load(_f)
PRIMARY = list(_tok["primary"])
SECONDARY = list(_tok["secondary"])
PRIMARY_INDEX = {w: i for i, w in enumerate(PRIMARY) if i >= 3}
SECONDARY_INDEX = {w: i for i, w in enumerate(SECONDARY)}
NIBBLE_ALPHABET = "0123456789-."
HEX_ALPHABET = "0123456789ABCDEF"


class FormatError(Exception):
    pass


# ----------------------------------------------------------------------------------------------
# decoder (strict)

class _Reader(object):
    def __init__(self, data):
        self.d = bytes(data)
        self.p = 0

    def u8(self):
        if self.p >= len(self.d):
            raise FormatError("read past end")
        b = self.d[self.p]
        self.p += 1
        return b

    def take(self, n):
        if self.p + n > len(self.d):
            raise FormatError("read of %d bytes past end" % n)
        b = self.d[self.p:self.p + n]
        self.p += n
        return b

    def at_end(self):
        return self.p == len(self.d)


def _list_size(r, tok):
    if tok == LIST_EMPTY:
        return 0
    if tok == LIST_8:
        return r.u8()
    if tok == LIST_16:
        return (r.u8() << 8) | r.u8()
    raise FormatError("not a list header: %d" % tok)


def _packed(r, tok):
    start = r.u8()
    odd = bool(start & 0x80)
    raw = r.take(start & 0x7F)
    alphabet = NIBBLE_ALPHABET if tok == NIBBLE_8 else HEX_ALPHABET
    nibbles = []
    for b in raw:
        nibbles.append(b >> 4)
        nibbles.append(b & 0xF)
    if odd:
        if not nibbles:
            raise FormatError("odd flag on empty packed string")
        nibbles.pop()
    out = []
    for n in nibbles:
        if n >= len(alphabet):
            raise FormatError("bad packed nibble %d" % n)
        out.append(alphabet[n])
    return "".join(out)


def _raw_len(r, tok):
    if tok == BINARY_8:
        return r.u8()
    if tok == BINARY_20:
        a, b, c = r.u8(), r.u8(), r.u8()
        return ((a & 0x0F) << 16) | (b << 8) | c
    if tok == BINARY_32:
        a, b, c, d = r.u8(), r.u8(), r.u8(), r.u8()
        return ((a & 0x7F) << 24) | (b << 16) | (c << 8) | d
    raise FormatError("not a raw length token %d" % tok)


def _string(r, tok, allow_empty_marker=False):
    if tok == 0 and allow_empty_marker:
        return None
    if 3 <= tok < DICT_0:
        if tok >= len(PRIMARY):
            raise FormatError("token %d outside dictionary" % tok)
        return PRIMARY[tok]
    if DICT_0 <= tok < DICT_0 + 4:
        idx = (tok - DICT_0) * 256 + r.u8()
        if idx >= len(SECONDARY):
            raise FormatError("secondary token %d outside dictionary" % idx)
        return SECONDARY[idx]
    if tok == JID_PAIR:
        user = _string(r, r.u8(), allow_empty_marker=True)
        server = _string(r, r.u8())
        return server if user is None else user + "@" + server
    if tok in (HEX_8, NIBBLE_8):
        return _packed(r, tok)
    if tok in (BINARY_8, BINARY_20, BINARY_32):
        return r.take(_raw_len(r, tok)).decode("latin-1")
    raise FormatError("unexpected string token %d" % tok)


def _node(r):
    size = _list_size(r, r.u8())
    if size == 0:
        raise FormatError("empty node list")
    tag = _string(r, r.u8())
    nattr = (size - 1) // 2
    attrs = {}
    for _ in range(nattr):
        k = _string(r, r.u8())
        v = _string(r, r.u8())
        attrs[k] = v
    content = None
    if size % 2 == 0:
        tok = r.u8()
        if tok in (LIST_EMPTY, LIST_8, LIST_16):
            n = _list_size(r, tok)
            content = [_node(r) for _ in range(n)]
        elif tok in (BINARY_8, BINARY_20, BINARY_32):
            content = r.take(_raw_len(r, tok))
        else:
            content = _string(r, tok).encode("latin-1")
    return (tag, attrs, content)


def decode(frame):
    frame = bytes(frame)
    if not frame:
        raise FormatError("empty frame")
    flags = frame[0]
    body = frame[1:]
    if flags & 2:
        body = zlib.decompress(body)
    if flags & ~2:
        raise FormatError("unsupported flags %d" % flags)
    r = _Reader(body)
    node = _node(r)
    if not r.at_end():
        raise FormatError("%d trailing bytes" % (len(r.d) - r.p))
    return node


# ----------------------------------------------------------------------------------------------
# encoder with a choice vector

class Choices(object):
    """Sequence of integers consumed at every site where the format permits alternatives.
    Exhausted -> 0 (= the canonical/default form).  ``used`` records (site, picked, n_options)."""

    def __init__(self, seq=()):
        self.seq = list(seq)
        self.i = 0
        self.used = []

    def pick(self, site, n):
        if n <= 1:
            return 0
        v = self.seq[self.i] % n if self.i < len(self.seq) else 0
        self.i += 1
        self.used.append((site, v, n))
        return v


def _w_list(out, n, ch):
    forms = []
    if n == 0:
        forms.append("empty")
    if n < 256:
        forms.append("l8")
    if n < 65536:
        forms.append("l16")
    if not forms:
        raise FormatError("list too long")
    if n == 0:
        # for non-empty-capable forms an explicit 0-length l8/l16 is also valid
        pass
    f = forms[ch.pick("list", len(forms))]
    if f == "empty":
        out.append(LIST_EMPTY)
    elif f == "l8":
        out += bytes([LIST_8, n])
    else:
        out += bytes([LIST_16, n >> 8, n & 0xFF])


def _w_raw(out, data, ch):
    n = len(data)
    forms = []
    if n < 256:
        forms.append(8)
    if n < (1 << 20):
        forms.append(20)
    if n < (1 << 31):
        forms.append(31)
    f = forms[ch.pick("len", len(forms))]
    if f == 8:
        out += bytes([BINARY_8, n])
    elif f == 20:
        out += bytes([BINARY_20, (n >> 16) & 0x0F, (n >> 8) & 0xFF, n & 0xFF])
    else:
        out += bytes([BINARY_32, (n >> 24) & 0x7F, (n >> 16) & 0xFF, (n >> 8) & 0xFF, n & 0xFF])
    out += data


def _packable(s):
    kinds = []
    if 0 < len(s) <= 254:   # byte count must fit 7 bits: (len+1)//2 <= 127
        if all(c in NIBBLE_ALPHABET for c in s):
            kinds.append(NIBBLE_8)
        if all(c in HEX_ALPHABET for c in s):
            kinds.append(HEX_8)
    return kinds


def _w_packed(out, s, tok):
    alphabet = NIBBLE_ALPHABET if tok == NIBBLE_8 else HEX_ALPHABET
    nib = [alphabet.index(c) for c in s]
    odd = len(nib) % 2
    if odd:
        nib.append(15)
    raw = bytes((nib[i] << 4) | nib[i + 1] for i in range(0, len(nib), 2))
    out += bytes([tok, (0x80 if odd else 0) | len(raw)])
    out += raw


def _w_string(out, s, ch, allow_jid=True):
    """s: str (Latin-1)."""
    forms = []
    if s in PRIMARY_INDEX:
        forms.append("tok")
    elif s in SECONDARY_INDEX:
        forms.append("tok2")
    at = s.find("@")
    if allow_jid and at >= 1 and at < len(s) - 1:
        forms.append("jid")
    for k in _packable(s):
        forms.append(k)
    forms.append("raw")
    f = forms[ch.pick("str", len(forms))]
    if f == "tok":
        out.append(PRIMARY_INDEX[s])
    elif f == "tok2":
        i = SECONDARY_INDEX[s]
        out += bytes([DICT_0 + i // 256, i % 256])
    elif f == "jid":
        out.append(JID_PAIR)
        _w_string(out, s[:at], ch, allow_jid=False)
        _w_string(out, s[at + 1:], ch, allow_jid=False)
    elif f in (NIBBLE_8, HEX_8):
        _w_packed(out, s, f)
    else:
        _w_raw(out, s.encode("latin-1"), ch)


def _w_value(out, s, ch, serverish):
    """attribute value: a bare server name may also travel as a JID pair with the empty user marker"""
    if "@" not in s and serverish and ch.pick("jid0", 2) == 1:
        out += bytes([JID_PAIR, 0])
        _w_string(out, s, ch, allow_jid=False)
    else:
        _w_string(out, s, ch)


SERVERISH = ("s.whatsapp.net", "g.us", "broadcast", "c.us")


def _w_node(out, node, ch):
    tag, attrs, content = node
    n = 1 + 2 * len(attrs) + (0 if content is None else 1)
    if n >= 65536:
        raise FormatError("node too large")
    _w_list(out, n, ch)
    _w_string(out, tag, ch, allow_jid=False)
    for k, v in attrs.items():
        _w_string(out, k, ch, allow_jid=False)
        _w_value(out, v, ch, v in SERVERISH)
    if content is None:
        return
    if isinstance(content, list):
        _w_list(out, len(content), ch)
        for c in content:
            _w_node(out, c, ch)
    else:
        data = bytes(content)
        # string-valued content is permitted when the bytes form a string the format can express
        opts = ["bin"]
        try_s = data.decode("latin-1")
        at = try_s.find("@")
        jid_like = at >= 1 and at < len(try_s) - 1
        if data and not try_s.endswith("@") and (try_s in PRIMARY_INDEX or try_s in SECONDARY_INDEX or _packable(try_s) or jid_like):
            opts.append("string")
        if opts[ch.pick("content", len(opts))] == "bin":
            _w_raw(out, data, ch)
        else:
            forms = []
            if try_s in PRIMARY_INDEX:
                forms.append("tok")
            elif try_s in SECONDARY_INDEX:
                forms.append("tok2")
            forms += _packable(try_s)
            if jid_like:
                forms.append("jid")
            f = forms[ch.pick("cstr", len(forms))]
            if f == "tok":
                out.append(PRIMARY_INDEX[try_s])
            elif f == "tok2":
                i = SECONDARY_INDEX[try_s]
                out += bytes([DICT_0 + i // 256, i % 256])
            elif f == "jid":
                # a JID pair is a string item like any other: user and server as strings of their own
                out.append(JID_PAIR)
                _w_string(out, try_s[:at], ch, allow_jid=False)
                _w_string(out, try_s[at + 1:], ch, allow_jid=False)
            else:
                _w_packed(out, try_s, f)


def encode(node, choices=None, deflate=False):
    ch = choices if choices is not None else Choices()
    body = bytearray()
    _w_node(body, node, ch)
    if deflate:
        return bytes([2]) + zlib.compress(bytes(body))
    return bytes([0]) + bytes(body)


# ----------------------------------------------------------------------------------------------
# self test (run before every check that relies on the reference; failure = harness error)

FIXTURE_TREE = ("message", {"from": "abc", "to": "xyz"}, [("media", {"width": "123"}, b"123456")])
# byte vectors of the repository's two codec tests (yowsup/layers/coder/test_encoder.py, test_decoder.py)
FIXTURE_ENCODED = [
    bytes([0, 248, 6, 9, 11, 252, 3, 120, 121, 122, 5, 252, 3, 97, 98, 99, 248, 1, 248, 4, 50, 238, 86, 255, 130, 18,
           63, 252, 6, 49, 50, 51, 52, 53, 54]),
    bytes([0, 248, 6, 9, 5, 252, 3, 97, 98, 99, 11, 252, 3, 120, 121, 122, 248, 1, 248, 4, 50, 238, 86, 255, 130, 18,
           63, 252, 6, 49, 50, 51, 52, 53, 54]),
]


def selftest():
    problems = []
    if len(PRIMARY) != 236 or len(SECONDARY) != 1024:
        problems.append("pinned dictionary sizes %d/%d" % (len(PRIMARY), len(SECONDARY)))
    if len(set(PRIMARY + SECONDARY)) != 1260:
        problems.append("pinned dictionary has duplicates")
    for vec in FIXTURE_ENCODED:
        try:
            if decode(vec) != FIXTURE_TREE:
                problems.append("reference decoder disagrees with repository fixture: %r" % (decode(vec),))
        except FormatError as e:
            problems.append("reference decoder rejects repository fixture: %s" % e)
    if encode(FIXTURE_TREE) != FIXTURE_ENCODED[1]:
        problems.append("reference encoder (default choices) differs from the repository's pinned encoding")
    trees = [
        FIXTURE_TREE,
        ("iq", {"id": "1-2", "to": "123-456@g.us", "xmlns": "w:g2", "x": "AB12F", "y": "s.whatsapp.net"},
         [("a", {}, b"\x00\xff" * 200), ("b", {}, None), ("c", {}, [("d", {"k": "v" * 300}, b"")])]),
    ]
    for t in trees:
        for seq in ((), (1,) * 64, (2,) * 64, tuple(range(64))):
            for z in (False, True):
                try:
                    if decode(encode(t, Choices(seq), deflate=z)) != t:
                        problems.append("reference round trip differs for choices %r" % (seq[:4],))
                except FormatError as e:
                    problems.append("reference round trip error %s" % e)
    return problems
