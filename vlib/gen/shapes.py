"""Small DSL for stanza shapes and constructor arguments used by the entity catalogue (DESIGN.md 4.3).

Value kinds (each is a Kind object with a Hypothesis strategy producing a *string* unless noted):
    ID        stanza/message id, e.g. "1415389947-15", "3EB0F2A1"
    TS        timestamp, decimal >= 1
    COUNT     counter, decimal >= 1
    NUM       decimal >= 0
    JID       user jid   "49151234@s.whatsapp.net"
    GJID      group jid  "49151234-1415389947@g.us"
    AJID      either
    PHONE     bare phone number (digits)
    TEXT      free text (Latin-1, non-empty, not ending in '@')
    WORD(a,b) one of the given literals
    CONST(x)  always x
    BLOB      bytes (only for node data / bytes constructor arguments) -> python bytes
    TEXTDATA  node data that is text encoded as bytes (utf-8) -> python bytes
    BOOL / INT / LIST(kind) / NONE   only for constructor arguments

Shapes:
    N(tag, attrs={name: kind | OPT(kind)}, children=[CH(shape, min, max)], data=kind|OPT(kind)|None)
    A node has data or children, never both.

shape_strategy(shape) -> strategy of trees in the reference representation (tag, attrs, content)
args_strategy(args, kwargs) -> strategy of (list, dict) of JSON-able values; bytes as {"b": hex}
"""
from hypothesis import strategies as st


class Kind(object):
    def __init__(self, name, strategy, is_bytes=False):
        self.name = name
        self.strategy = strategy
        self.is_bytes = is_bytes

    def __repr__(self):
        return self.name


_digits = st.text(alphabet="0123456789", min_size=1, max_size=12)
_phone = st.builds(lambda a, b: a + b, st.sampled_from(["49", "1", "44", "20", "971"]), st.text(alphabet="0123456789", min_size=5, max_size=11))
_id = st.one_of(
    st.builds(lambda a, b: "%d-%d" % (a, b), st.integers(1400000000, 1700000000), st.integers(1, 999)),
    st.text(alphabet="0123456789ABCDEF", min_size=6, max_size=20),
    st.text(alphabet="abcdefghijklmnopqrstuvwxyz0123456789.-", min_size=1, max_size=16).filter(lambda s: s not in ("", )),
)
_text = st.one_of(
    st.text(alphabet=st.characters(min_codepoint=32, max_codepoint=126, blacklist_characters="@"), min_size=1, max_size=24),
    st.text(alphabet=st.characters(min_codepoint=1, max_codepoint=255), min_size=1, max_size=16).map(lambda s: s + "x" if s.endswith("@") else s),
    # free text that looks like something the codec treats specially: a leading or inner '@', digits only, hex only, a dictionary word
    st.builds(lambda a, b: a + b, st.sampled_from(["@", "@@", "a@b", "@s.whatsapp.net", "0@", "12345678", "DEADBEEF", "-", ".", "image", "s.whatsapp.net"]),
              st.text(alphabet="abc019.-@ ", min_size=0, max_size=6)).map(lambda s: s + "x" if s.endswith("@") else s),
    # long free text (a group subject, a status): beyond the 8-bit length class of the wire format, with byte-range characters
    st.builds(lambda unit, n: (unit * n)[:max(256, n)], st.text(alphabet=st.characters(min_codepoint=0xa0, max_codepoint=0xff), min_size=1, max_size=3),
              st.sampled_from([256, 257, 300, 700])),
)

ID = Kind("ID", _id)
TS = Kind("TS", st.integers(1, 2 ** 31 - 1).map(str))
COUNT = Kind("COUNT", st.integers(1, 5000).map(str))
NUM = Kind("NUM", st.integers(0, 100000).map(str))
COUNT0 = Kind("COUNT0", st.one_of(st.just("0"), st.integers(0, 5000).map(str)))      # a count that may be zero
PHONE = Kind("PHONE", _phone)
JID = Kind("JID", _phone.map(lambda p: p + "@s.whatsapp.net"))
GJID = Kind("GJID", st.builds(lambda p, t: "%s-%d@g.us" % (p, t), _phone, st.integers(1300000000, 1700000000)))
AJID = Kind("AJID", st.one_of(JID.strategy, GJID.strategy))
TEXT = Kind("TEXT", _text)
def pattern_bytes(n, pat):
    from .stanzas import pattern_bytes as _pb
    return _pb(n, pat)


# binary fields (pictures, thumbnails, ciphertexts) are mostly short, sometimes of a size at or beyond a length-class boundary
# of the wire format (8 / 20 / 31 bit length prefixes; a 20-bit length needs its top nibble from 64 KiB on)
_LARGE_SIZES = [255, 256, 257, 4095, 4096, 65535, 65536, 65537, 70000, 200000]
_large_blob = st.builds(pattern_bytes, st.sampled_from(_LARGE_SIZES), st.integers(0, 4))


def _blob(min_size):
    small = st.binary(min_size=min_size, max_size=48)
    return st.one_of(small, small, small, small, small, small, small, small, small, _large_blob)


BLOB = Kind("BLOB", _blob(0), is_bytes=True)
BLOB1 = Kind("BLOB1", _blob(1), is_bytes=True)


def _compact_bytes(b):
    """large generated blobs are stored as (length, pattern) so that cases and replay files stay small"""
    b = bytes(b)
    if len(b) > 200:
        for pat in range(5):
            if pattern_bytes(len(b), pat) == b:
                return {"len": len(b), "pat": pat}
    return None
TEXTDATA = Kind("TEXTDATA", st.text(min_size=1, max_size=24).map(lambda s: s.encode("utf-8")), is_bytes=True)
# text content that may be empty (a status that is being cleared)
TEXTDATA0 = Kind("TEXTDATA0", st.one_of(st.just(b""), st.text(min_size=0, max_size=24).map(lambda s: s.encode("utf-8"))), is_bytes=True)
BOOL = Kind("BOOL", st.booleans())
NONE = Kind("NONE", st.none())
INT = Kind("INT", st.integers(1, 2 ** 31 - 1))


def WORD(*choices):
    return Kind("WORD(%s)" % ",".join(choices), st.sampled_from(list(choices)))


def CONST(x):
    return Kind("CONST(%r)" % (x,), st.just(x), is_bytes=isinstance(x, bytes))


def BYTES(n):
    return Kind("BYTES(%d)" % n, st.binary(min_size=n, max_size=n), is_bytes=True)


def LIST(kind, min_size=0, max_size=4, unique=False):
    return Kind("LIST(%s)" % kind.name, st.lists(kind.strategy, min_size=min_size, max_size=max_size, unique=unique))


def ONEOF(*kinds):
    return Kind("ONEOF(%s)" % ",".join(k.name for k in kinds), st.one_of(*[k.strategy for k in kinds]))


def MAP(kind, fn, name=None):
    return Kind(name or "MAP(%s)" % kind.name, kind.strategy.map(fn), is_bytes=kind.is_bytes)


class OPT(object):
    def __init__(self, kind):
        self.kind = kind


class CH(object):
    """child slot: `shape` repeated between lo and hi times"""

    def __init__(self, shape, lo=1, hi=1):
        self.shape = shape
        self.lo = lo
        self.hi = hi


class ALT(object):
    """one of several alternative child shapes (exactly one is present)"""

    def __init__(self, *shapes):
        self.shapes = shapes


class N(object):
    def __init__(self, tag, attrs=None, children=None, data=None):
        self.tag = tag
        self.attrs = attrs or {}
        self.children = children or []
        self.data = data
        assert not (self.children and self.data is not None), "a node has data or children, not both"


def _strat(kind, large):
    return _large_blob if (large and kind.name in ("BLOB", "BLOB1")) else kind.strategy


def _is_blob(k):
    k = k.kind if isinstance(k, OPT) else k
    return isinstance(k, Kind) and k.name in ("BLOB", "BLOB1")


def shape_has_blob(shape):
    if shape.data is not None and _is_blob(shape.data):
        return True
    for slot in shape.children:
        subs = slot.shapes if isinstance(slot, ALT) else [slot.shape if isinstance(slot, CH) else slot]
        if any(shape_has_blob(x) for x in subs):
            return True
    return False


def args_have_blob(args, kwargs):
    return any(_is_blob(k) for k in list(args) + list((kwargs or {}).values()))


def shape_strategy(shape, large=False):
    """large: binary node content is present and of a size at or beyond a length-class boundary"""
    @st.composite
    def build(draw):
        attrs = {}
        for name, k in shape.attrs.items():
            if isinstance(k, OPT):
                if draw(st.booleans()):
                    attrs[name] = draw(k.kind.strategy)
            else:
                attrs[name] = draw(k.strategy)
        content = None
        if shape.data is not None:
            d = shape.data
            if isinstance(d, OPT):
                if (large and _is_blob(d)) or draw(st.booleans()):
                    content = draw(_strat(d.kind, large))
            else:
                content = draw(_strat(d, large))
            if isinstance(content, str):
                content = content.encode("latin-1")
        elif shape.children:
            kids = []
            for slot in shape.children:
                if isinstance(slot, ALT):
                    kids.append(draw(shape_strategy(draw(st.sampled_from(list(slot.shapes))), large)))
                    continue
                if isinstance(slot, N):
                    slot = CH(slot)
                n = draw(st.integers(max(slot.lo, 1) if (large and slot.hi >= 1 and shape_has_blob(slot.shape)) else slot.lo, slot.hi))
                for _ in range(n):
                    kids.append(draw(shape_strategy(slot.shape, large)))
            content = kids if kids else None
        tag = shape.tag if isinstance(shape.tag, str) else draw(shape.tag.strategy)
        return (tag, attrs, content)
    return build()


def tree_to_json(t):
    tag, attrs, content = t
    if isinstance(content, list):
        c = [tree_to_json(x) for x in content]
    elif content is None:
        c = None
    else:
        c = _compact_bytes(content) or {"hex": bytes(content).hex()}
    return {"t": tag, "a": [[k, v] for k, v in attrs.items()], "c": c}


def json_val(v):
    if isinstance(v, (bytes, bytearray)):
        c = _compact_bytes(v)
        return {"blen": c["len"], "bpat": c["pat"]} if c else {"b": bytes(v).hex()}
    if isinstance(v, (list, tuple)):
        return [json_val(x) for x in v]
    if isinstance(v, dict):
        return {"d": [[json_val(k), json_val(x)] for k, x in v.items()]}
    return v


def unjson_val(v):
    if isinstance(v, dict) and "b" in v and len(v) == 1:
        return bytes.fromhex(v["b"])
    if isinstance(v, dict) and "blen" in v and len(v) == 2:
        return pattern_bytes(v["blen"], v["bpat"])
    if isinstance(v, dict) and "d" in v and len(v) == 1:
        return {unjson_val(k): unjson_val(x) for k, x in v["d"]}
    if isinstance(v, list):
        return [unjson_val(x) for x in v]
    return v


def args_strategy(args, kwargs, large=False):
    @st.composite
    def build(draw):
        a = []
        for k in args:
            if isinstance(k, OPT):
                a.append(draw(_strat(k.kind, large)) if ((large and _is_blob(k)) or draw(st.booleans())) else None)
            else:
                a.append(draw(_strat(k, large)))
        kw = {}
        for name, k in (kwargs or {}).items():
            if isinstance(k, OPT):
                if (large and _is_blob(k)) or draw(st.booleans()):
                    kw[name] = draw(_strat(k.kind, large))
            else:
                kw[name] = draw(_strat(k, large))
        return [json_val(x) for x in a], {n: json_val(v) for n, v in kw.items()}
    return build()
