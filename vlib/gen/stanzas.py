"""String and stanza-tree generators (DESIGN.md section 4.1).

JSON case representation of a tree ("spec"):
    {"t": <str-spec>, "a": [[<str-spec>, <str-spec>], ...], "c": <content-spec>}
    str-spec     = "literal text (Latin-1 code points)" | {"rep": "unit", "n": N}  (unit repeated/truncated to N chars)
    content-spec = null | {"hex": "..."} | {"len": N, "pat": k} | [tree-spec, ...]
materialize(spec) -> (tag, attrs, content) in the reference representation (ref/codec.py).
"""
import itertools

from hypothesis import strategies as st

from ..ref import codec

RESERVED = ("xmlstreamstart", "xmlstreamend", "")
WORDS = [w for w in codec.PRIMARY[3:] + codec.SECONDARY if w not in RESERVED]
PRIMARY_WORDS = [w for w in codec.PRIMARY[3:]]
SECONDARY_WORDS = list(codec.SECONDARY)


def mat_str(s):
    if isinstance(s, dict):
        unit, n = s["rep"], s["n"]
        return (unit * (n // len(unit) + 1))[:n]
    return s


def pattern_bytes(n, pat):
    if pat == 0:
        return bytes(n)
    if pat == 1:
        return b"\xff" * n
    if pat == 2:
        unit = bytes(range(256))
    elif pat == 3:
        unit = b"\xf8\x01\xfc\x00\xfd\xfe\xfa\xfb\xff\x00\x02\xec"  # control bytes of the format
    else:
        unit = b"0123456789"
    return (unit * (n // len(unit) + 1))[:n]


def mat_content(c):
    if c is None:
        return None
    if isinstance(c, list):
        return [materialize(x) for x in c]
    if "children" in c:
        # n children <item i="k"/> (compact form for the wide lists at the top of the 16-bit range)
        return [("item", {"i": str(k)}, None) for k in range(c["children"])]
    if "hex" in c:
        return bytes.fromhex(c["hex"])
    return pattern_bytes(c["len"], c["pat"])


def materialize(spec):
    attrs = {}
    if isinstance(spec.get("a"), dict):
        # n attributes k<i>="<i>" (compact form)
        for i in range(spec["a"]["attrs"]):
            attrs["k%d" % i] = "%d" % i
        return (mat_str(spec["t"]), attrs, mat_content(spec.get("c")))
    for k, v in spec.get("a", []):
        attrs[mat_str(k)] = mat_str(v)
    return (mat_str(spec["t"]), attrs, mat_content(spec.get("c")))


def valid_string(s):
    return len(s) > 0 and not s.endswith("@") and s not in RESERVED and all(ord(ch) < 256 for ch in s)


# ----------------------------------------------------------------------------------------------
# string strategies (construction, no rejection)

_latin1 = st.characters(min_codepoint=0, max_codepoint=255)
_latin1_no_at = st.characters(min_codepoint=0, max_codepoint=255, blacklist_characters="@")
_ascii = st.sampled_from("abcdefghijklmnopqrstuvwxyzABCXYZ_:-. /")

dict_word = st.sampled_from(WORDS)
nibble_str = st.text(alphabet="0123456789-.", min_size=1, max_size=255)
hex_str = st.text(alphabet="0123456789ABCDEF", min_size=1, max_size=255)
digits = st.text(alphabet="0123456789", min_size=1, max_size=20)


def _fix_tail(s):
    # quantifier: non-empty, not ending in '@', not a reserved stream word
    if s.endswith("@"):
        s = s + "x"
    if s in RESERVED:
        s = s + "_"
    return s


text_str = st.one_of(
    st.text(alphabet=_ascii, min_size=1, max_size=24),
    st.text(alphabet=_latin1, min_size=1, max_size=40),
    st.text(alphabet=st.sampled_from("\x00\xff\xf8\xfa\xfc@09AF-."), min_size=1, max_size=12),
).map(_fix_tail)

jid_user = st.one_of(digits, st.builds(lambda a, b: a + "-" + b, digits, digits), hex_str.map(lambda s: s[:32]),
                     st.text(alphabet=_latin1_no_at, min_size=1, max_size=16), dict_word)
jid_server = st.one_of(st.sampled_from(["s.whatsapp.net", "g.us", "broadcast", "c.us", "lid"]),
                       st.text(alphabet=_latin1_no_at, min_size=1, max_size=12), dict_word)
jid_str = st.builds(lambda u, s: u + "@" + s, jid_user, jid_server)
odd_at_str = st.one_of(
    st.builds(lambda a, b, c: a + "@" + b + "@" + c, jid_user, jid_user, jid_server),
    st.builds(lambda s: "@" + s, jid_server),
    st.builds(lambda a, b: "@" + a + "@" + b, jid_user, jid_server),
).map(_fix_tail)

BOUNDARY_LENGTHS_SMALL = [127, 128, 129, 254, 255, 256, 257]
BOUNDARY_LENGTHS_MID = [65535, 65536, 65537]
BOUNDARY_LENGTHS_BIG = [0xFFFFF, 0x100000, 0x100001]


def long_str(lengths):
    unit = st.sampled_from(["ab", "0", "A1", "x@y", "\xff\x00", "9-."])
    return st.builds(lambda u, n: {"rep": u, "n": n} if not mat_str({"rep": u, "n": n}).endswith("@")
                     else {"rep": u, "n": n + 1}, unit, st.sampled_from(lengths))


def any_string(tier="quick", with_long=True):
    opts = [dict_word, nibble_str, hex_str, jid_str, text_str, text_str, odd_at_str]
    if with_long:
        opts.append(long_str(BOUNDARY_LENGTHS_SMALL))
    return st.one_of(*opts)


def key_string():
    # attribute keys / tags: every class, but mostly short
    return st.one_of(dict_word, dict_word, text_str, nibble_str.map(lambda s: s[:12]), hex_str.map(lambda s: s[:12]),
                     jid_str)


# ----------------------------------------------------------------------------------------------
# trees

def small_content():
    return st.one_of(
        st.binary(min_size=0, max_size=64).map(lambda b: {"hex": b.hex()}),
        st.builds(lambda n, p: {"len": n, "pat": p}, st.sampled_from([0, 1, 254, 255, 256, 257, 300, 4095]),
                  st.integers(0, 4)),
        # contents that are also expressible as strings (tokens / packed) - matters for C02
        dict_word.map(lambda w: {"hex": w.encode("latin-1").hex()}),
        nibble_str.map(lambda s: {"hex": s[:40].encode().hex()}),
        hex_str.map(lambda s: {"hex": s[:40].encode().hex()}),
        # ... or as a JID pair (user part with arbitrary byte-range characters)
        st.builds(lambda u, srv: {"hex": (u + "@" + srv).encode("latin-1").hex()},
                  st.text(alphabet=st.characters(min_codepoint=1, max_codepoint=255, blacklist_characters="@"), min_size=1, max_size=12),
                  st.sampled_from(["s.whatsapp.net", "g.us", "broadcast", "x.example", "\xe9t\xe9"])),
    )


def attrs_strategy(tier, max_attrs=6):
    pair = st.tuples(key_string(), any_string(tier))
    return st.lists(pair, min_size=0, max_size=max_attrs, unique_by=lambda kv: mat_str(kv[0])).map(
        lambda ps: [[k, v] for k, v in ps])


def tree_strategy(tier="quick", max_depth=4):
    leaf = st.builds(lambda t, a, c: {"t": t, "a": a, "c": c}, key_string(), attrs_strategy(tier),
                     st.one_of(st.none(), small_content()))

    def extend(children):
        return st.builds(lambda t, a, cs: {"t": t, "a": a, "c": cs}, key_string(), attrs_strategy(tier),
                         st.lists(children, min_size=1, max_size=5))
    return st.recursive(leaf, extend, max_leaves=12)


def boundary_trees(tier):
    """Finite list of hand-placed boundary trees (large nodes nested / top-level / followed by a sibling,
    wide attribute lists and child lists)."""
    out = []

    def leaf(tag="enc", n=0, pat=2, attrs=None):
        return {"t": tag, "a": attrs or [], "c": {"len": n, "pat": pat}}
    sizes = [255, 256, 257, 65535, 65536, 0xFFFFF, 0x100000, 0x100001]
    if tier != "quick":
        sizes += [3 * 0x100000 + 5, 16 * 0x100000 - 64]
    for n in sizes:
        for pat in ((2,) if n > 70000 else (0, 2, 3)):
            out.append({"name": "content_%d_top_pat%d" % (n, pat), "tree": leaf("media", n, pat)})
        out.append({"name": "content_%d_nested_then_sibling" % n,
                    "tree": {"t": "message", "a": [["id", "abc"]], "c": [leaf("enc", n), {"t": "after", "a": [["k", "v"]], "c": None}]}})
        out.append({"name": "content_%d_deep" % n,
                    "tree": {"t": "iq", "a": [], "c": [{"t": "list", "a": [], "c": [leaf("item", n), leaf("item", 3)]},
                                                      {"t": "tail", "a": [], "c": {"hex": "00"}}]}})
    # every bit of the long length form is used by some size: 8 MiB and above set the highest bit a frame-sized length can have
    for n in ([0x800000, 0xA5A5A5] if tier == "quick" else [0x200000, 0x400000, 0x800000, 0x800001, 0xA5A5A5, 0x5A5A5A, 0xFFFF00]):
        out.append({"name": "content_%d_top_pat2" % n, "tree": leaf("media", n, 2)})
        if tier != "quick" or n == 0x800000:
            out.append({"name": "content_%d_nested_then_sibling" % n,
                        "tree": {"t": "message", "a": [["id", "abc"]], "c": [leaf("enc", n), {"t": "after", "a": [["k", "v"]], "c": None}]}})
    for n in [255, 256, 257, 65535, 65536, 0x100000, 0x100001]:
        out.append({"name": "attr_value_%d" % n,
                    "tree": {"t": "x", "a": [["k", {"rep": "ab", "n": n}], ["z", "1"]], "c": [{"t": "after", "a": [], "c": None}]}})
    for n in [255, 256, 257, 65536]:
        out.append({"name": "tag_%d" % n, "tree": {"t": {"rep": "tg", "n": n}, "a": [], "c": None}})
    for n in [127, 128, 129, 130, 300]:
        out.append({"name": "attrs_%d" % n,
                    "tree": {"t": "x", "a": [["k%d" % i, "v%d" % i] for i in range(n)], "c": None}})
        out.append({"name": "attrs_%d_with_content" % n,
                    "tree": {"t": "x", "a": [["k%d" % i, "%d" % i] for i in range(n)], "c": {"hex": "0102"}}})
    for n in [254, 255, 256, 257, 300, 1000]:
        out.append({"name": "children_%d" % n,
                    "tree": {"t": "list", "a": [], "c": [{"t": "item", "a": [["i", str(i)]], "c": None} for i in range(n)]}})
    # the upper half and the top of the 16-bit list size (a header counts 1 + 2 per attribute + 1 for content)
    for n in [32767, 32768, 40000, 65535]:
        out.append({"name": "children_%d_then_sibling" % n,
                    "tree": {"t": "iq", "a": [["id", "x"]], "c": [{"t": "list", "a": [], "c": {"children": n}}, {"t": "after", "a": [["k", "v"]], "c": None}]}})
    for n in [16383, 16384, 20000, 32767]:
        out.append({"name": "attrs_%d_wide" % n, "tree": {"t": "x", "a": {"attrs": n}, "c": None}})
    out.append({"name": "attrs_16383_with_content", "tree": {"t": "x", "a": {"attrs": 16383}, "c": {"hex": "0102"}}})
    out.append({"name": "empty_content", "tree": {"t": "x", "a": [], "c": {"hex": ""}}})
    out.append({"name": "empty_content_then_sibling",
                "tree": {"t": "p", "a": [], "c": [{"t": "x", "a": [], "c": {"hex": ""}}, {"t": "y", "a": [], "c": None}]}})
    # nesting: a chain of single children far deeper than any real stanza, with a sibling after the innermost node
    for depth in (40, 120, 300):
        t = {"t": "leaf", "a": [["d", str(depth)]], "c": {"hex": "0a0b"}}
        for i in range(depth):
            t = {"t": "n%d" % (i % 7), "a": [], "c": [t] if i else [t, {"t": "after", "a": [], "c": None}]}
        out.append({"name": "nested_%d_deep" % depth, "tree": t})
    return out


def word_sweep():
    """every usable dictionary word as tag, attribute key, attribute value and (as bytes) content"""
    for w in WORDS:
        yield {"t": w, "a": [[w, w], ["k", w], ["j", w + "@s.whatsapp.net"], ["g", "1234-5678@" + w]], "c": [{"t": "c", "a": [[w, "v"]], "c": {"hex": w.encode("latin-1").hex()}}]}


def packed_sweep():
    """packed strings of every length 1..255 in both alphabets, as attribute value, tag, JID user"""
    nib = "0123456789-."
    hx = "0123456789ABCDEF"
    for n in range(1, 256):
        for alpha, name in ((nib, "n"), (hx, "h")):
            for off in (0, 5):
                s = "".join(alpha[(i + off) % len(alpha)] for i in range(n))
                if name == "h" and all(c in nib for c in s):
                    s = s[:-1] + "F"
                yield {"t": "x", "a": [["v", s], ["j", s[:60] + "@s.whatsapp.net"]],
                       "c": [{"t": s, "a": [], "c": None}]}


def features(tree):
    """labels for coverage accounting / the non-trivial rule, computed on the reference representation"""
    f = set()

    def strfeat(s, is_value):
        if s in codec.SECONDARY_INDEX:
            f.add("secondary_token")
        elif s in codec.PRIMARY_INDEX:
            f.add("primary_token")
        elif "@" in s and s.index("@") >= 1:
            f.add("jid")
        else:
            if len(s) >= 0x100000:
                f.add("len31")
            elif len(s) >= 256:
                f.add("len20")
            elif is_value and len(s) < 128 and (all(c in "0123456789-." for c in s) or all(c in "0123456789ABCDEF" for c in s)):
                f.add("packed")
                if len(s) % 2:
                    f.add("packed_odd")

    def walk(n, depth):
        tag, attrs, content = n
        strfeat(tag, False)
        if 1 + 2 * len(attrs) + (content is not None) >= 256:
            f.add("list16")
        for k, v in attrs.items():
            strfeat(k, False)
            strfeat(v, True)
        if depth >= 2:
            f.add("depth>=2")
        if isinstance(content, list):
            if len(content) >= 256:
                f.add("list16")
            for i, c in enumerate(content):
                if i + 1 < len(content) and isinstance(c[2], (bytes, bytearray)):
                    f.add("sibling_after_binary")
                walk(c, depth + 1)
        elif content is not None:
            if len(content) >= 0x100000:
                f.add("len31")
            elif len(content) >= 256:
                f.add("len20")
    walk(tree, 0)
    return f


NONTRIVIAL_FEATURES = {"secondary_token", "packed", "jid", "len20", "len31", "list16", "depth>=2", "sibling_after_binary"}
