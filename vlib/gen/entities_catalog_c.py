"""Catalogue part C (format: entities.py, DSL: shapes.py): protocol_profiles, protocol_media, protocol_messages.

Message stanzas: what reaches the protocol layers is <message ...><proto [mediatype=..]>SERIALIZED e2e Message</proto></message>.
The payload kinds below build the protobuf with the generated protobuf classes directly (not with the library's converter).
Payload rule: the fields the converter reads/writes unconditionally for a content kind are always set (with non-default values),
fields it guards with HasField / "is not None" are set sometimes.  That way parse -> serialise reproduces the very same bytes and
proto2 "unset vs. explicitly set default" differences (which C10 deliberately treats as equal) do not show up here.
"""
import base64
import os
import tempfile

from hypothesis import strategies as st

from .. import compat  # noqa: F401  (must precede any yowsup / protobuf import)
from .entities import recv, send, exclude
from .shapes import *  # noqa: F401,F403
from .shapes import Kind

from yowsup.layers.protocol_messages.proto.e2e_pb2 import Message

PROFILES = "yowsup.layers.protocol_profiles.protocolentities"
MEDIA = "yowsup.layers.protocol_media.protocolentities"
MESSAGES = "yowsup.layers.protocol_messages.protocolentities"
HERE = "vlib.gen.entities_catalog_c"

SERVER = CONST("s.whatsapp.net")

# ------------------------------------------------------------------------------------------------ local kinds
_digits5 = st.text(alphabet="0123456789", min_size=5, max_size=11)
_path = st.text(alphabet="abcdefghijklmnopqrstuvwxyzABCDEFGHIJKLMNOPQRSTUVWXYZ0123456789-_", min_size=4, max_size=24)
_url = st.builds(lambda h, p: "https://%s.whatsapp.net/d/%s.enc" % (h, p), st.sampled_from(["mmg", "mmg-fna", "mms884"]), _path)
_ip = st.builds(lambda a, b, c, d: "%d.%d.%d.%d" % (a, b, c, d), st.integers(1, 223), st.integers(0, 255),
                st.integers(0, 255), st.integers(1, 254))
_b64hash = st.binary(min_size=32, max_size=32).map(lambda b: base64.b64encode(b).decode())

URL = Kind("URL", _url)
IP = Kind("IP", _ip)
B64HASH = Kind("B64HASH", _b64hash)


def PJID(prefix):
    """user jid whose number starts with `prefix` (two digits): slots with different prefixes can never collide, which is
    needed where the parser keys a dict by jid (the server does not repeat a jid inside one reply)"""
    return Kind("PJID(%s)" % prefix, _digits5.map(lambda d: "%s%s@s.whatsapp.net" % (prefix, d)))


# ------------------------------------------------------------------------------------------------ payload kinds
_utext = st.text(min_size=1, max_size=20)                      # unicode without surrogates, as protobuf strings require
_bin = st.binary(min_size=1, max_size=24)
_u32 = st.integers(1, 2 ** 32 - 1)
_f32 = st.floats(min_value=0.5, max_value=1000.0, width=32)
_jid = JID.strategy


def _maybe(s):
    return st.one_of(st.none(), s)


_dm = {"url": _url, "file_sha256": st.binary(min_size=32, max_size=32), "file_length": st.integers(1, 2 ** 40),
       "media_key": st.binary(min_size=32, max_size=32)}


# (the context of a reply: the quoted message's id and author, and the accounts mentioned in the text - a repeated field)
_ctx = st.fixed_dictionaries({"stanza_id": ID.strategy, "participant": _jid, "mentioned_jid": st.lists(_jid, max_size=3)})


def build_payload(field, values):
    """serialized e2e Message with `field` (a sub-message name or "conversation") filled from `values` (None = leave unset)"""
    m = Message()
    if field == "conversation":
        m.conversation = values
        return m.SerializeToString()
    sub = getattr(m, field)
    sub.SetInParent()
    for k, v in values.items():
        if v is None:
            continue
        if k == "context_info":
            sub.context_info.stanza_id = v["stanza_id"]
            sub.context_info.participant = v["participant"]
            for j in v.get("mentioned_jid") or ():
                sub.context_info.mentioned_jid.append(j)
        else:
            setattr(sub, k, v)
    return m.SerializeToString()


def _payload(name, field, always, sometimes=None):
    spec = dict(always)
    for k, s in (sometimes or {}).items():
        spec[k] = _maybe(s)
    return Kind(name, st.fixed_dictionaries(spec).map(lambda v, _f=field: build_payload(_f, v)), is_bytes=True)


def _with(base, **more):
    d = dict(base)
    d.update(more)
    return d


PROTO_TEXT = Kind("PROTO_TEXT", _utext.map(lambda s: build_payload("conversation", s)), is_bytes=True)
PROTO_EXTTEXT = _payload("PROTO_EXTTEXT", "extended_text_message", {"text": _utext},
                         {"matched_text": _utext, "canonical_url": _url, "description": _utext, "title": _utext,
                          "jpeg_thumbnail": _bin, "context_info": _ctx})
PROTO_URL = _payload("PROTO_URL", "extended_text_message", {"text": _utext, "matched_text": _url, "canonical_url": _url},
                     {"description": _utext, "title": _utext, "jpeg_thumbnail": _bin})
PROTO_IMAGE = _payload("PROTO_IMAGE", "image_message",
                       _with(_dm, mimetype=st.sampled_from(["image/jpeg", "image/png"]), width=_u32, height=_u32),
                       {"caption": _utext, "jpeg_thumbnail": _bin,
                        "context_info": _ctx})
PROTO_AUDIO = _payload("PROTO_AUDIO", "audio_message",
                       _with(_dm, mimetype=st.sampled_from(["audio/ogg; codecs=opus", "audio/mpeg", "audio/aac"]), seconds=_u32,
                             ptt=st.booleans()),
                       {"streaming_sidecar": _bin})
# the video and sticker converters read every mapped field unconditionally, so all of them are always present (as in the fixture)
PROTO_VIDEO = _payload("PROTO_VIDEO", "video_message",
                       _with(_dm, mimetype=st.sampled_from(["video/mp4", "video/3gpp"]), width=_u32, height=_u32, seconds=_u32,
                             gif_playback=st.booleans(), jpeg_thumbnail=_bin, gif_attribution=st.sampled_from([0, 1, 2]),
                             caption=_utext, streaming_sidecar=_bin))
PROTO_STICKER = _payload("PROTO_STICKER", "sticker_message",
                         _with(_dm, mimetype=st.just("image/webp"), width=_u32, height=_u32, png_thumbnail=_bin))
PROTO_DOCUMENT = _payload("PROTO_DOCUMENT", "document_message",
                          _with(_dm, mimetype=st.sampled_from(["application/pdf", "text/plain"]), file_name=_utext),
                          {"title": _utext, "page_count": _u32, "jpeg_thumbnail": _bin})
PROTO_LOCATION = _payload("PROTO_LOCATION", "location_message",
                          {"degrees_latitude": st.floats(min_value=-90, max_value=90),
                           "degrees_longitude": st.floats(min_value=-180, max_value=180)},
                          {"name": _utext, "address": _utext, "url": _url, "duration": _f32, "accuracy_in_meters": _u32,
                           "speed_in_mps": _f32, "degrees_clockwise_from_magnetic_north": st.integers(1, 359),
                           "jpeg_thumbnail": _bin})
PROTO_CONTACT = _payload("PROTO_CONTACT", "contact_message",
                         {"display_name": _utext,
                          "vcard": _utext.map(lambda s: ("BEGIN:VCARD\nVERSION:3.0\nFN:%s\nEND:VCARD" % s).encode("utf-8"))},
                         {"context_info": _ctx})


def message_shape(mtype, payload, mediatype=None):
    """incoming message stanza as it reaches the protocol layers (ProtomessageProtocolEntity docstring + fixtures + the attributes
    MessageMetaAttributes.from_message_protocoltreenode reads).  participant is present on group messages, offline only on
    messages that were queued while the client was away."""
    return N("message", {"from": AJID, "id": ID, "t": TS, "type": CONST(mtype), "notify": TEXT,
                         "participant": OPT(JID), "offline": OPT(WORD("0", "1")), "retry": OPT(COUNT0)},
             children=[N("proto", {"mediatype": mediatype} if mediatype is not None else {}, data=payload)])


# ------------------------------------------------------------------------------------------------ send factories
# (send arguments must be JSON-able, the message constructors want attribute objects)
def _meta(to, _id=None):
    from yowsup.layers.protocol_messages.protocolentities.attributes.attributes_message_meta import MessageMetaAttributes
    return MessageMetaAttributes(id=_id, recipient=to)


def _dmattrs(mimetype, file_length, file_sha256, url, media_key):
    from yowsup.layers.protocol_messages.protocolentities.attributes.attributes_downloadablemedia import \
        DownloadableMediaMessageAttributes
    return DownloadableMediaMessageAttributes(mimetype, file_length, file_sha256, url, media_key)


def out_extendedtext(text, to, matched_text=None, canonical_url=None, description=None, title=None, jpeg_thumbnail=None, id=None):
    from yowsup.layers.protocol_messages.protocolentities import ExtendedTextMessageProtocolEntity
    from yowsup.layers.protocol_messages.protocolentities.attributes.attributes_extendedtext import ExtendedTextAttributes
    return ExtendedTextMessageProtocolEntity(
        ExtendedTextAttributes(text, matched_text, canonical_url, description, title, jpeg_thumbnail, None), _meta(to, id))


def out_url(text, matched_text, canonical_url, to, description=None, title=None, jpeg_thumbnail=None, id=None):
    from yowsup.layers.protocol_media.protocolentities import ExtendedTextMediaMessageProtocolEntity
    from yowsup.layers.protocol_messages.protocolentities.attributes.attributes_extendedtext import ExtendedTextAttributes
    return ExtendedTextMediaMessageProtocolEntity(
        ExtendedTextAttributes(text, matched_text, canonical_url, description, title, jpeg_thumbnail, None), _meta(to, id))


def out_image(mimetype, file_length, file_sha256, url, media_key, width, height, to, caption=None, jpeg_thumbnail=None, id=None):
    from yowsup.layers.protocol_media.protocolentities import ImageDownloadableMediaMessageProtocolEntity
    from yowsup.layers.protocol_messages.protocolentities.attributes.attributes_image import ImageAttributes
    return ImageDownloadableMediaMessageProtocolEntity(
        ImageAttributes(_dmattrs(mimetype, file_length, file_sha256, url, media_key), width, height, caption, jpeg_thumbnail),
        _meta(to, id))


def out_audio(mimetype, file_length, file_sha256, url, media_key, seconds, ptt, to, streaming_sidecar=None, id=None):
    from yowsup.layers.protocol_media.protocolentities import AudioDownloadableMediaMessageProtocolEntity
    from yowsup.layers.protocol_messages.protocolentities.attributes.attributes_audio import AudioAttributes
    return AudioDownloadableMediaMessageProtocolEntity(
        AudioAttributes(_dmattrs(mimetype, file_length, file_sha256, url, media_key), seconds, ptt, streaming_sidecar), _meta(to, id))


def out_video(mimetype, file_length, file_sha256, url, media_key, width, height, seconds, to, gif_playback=None,
              jpeg_thumbnail=None, gif_attribution=None, caption=None, streaming_sidecar=None, id=None):
    from yowsup.layers.protocol_media.protocolentities import VideoDownloadableMediaMessageProtocolEntity
    from yowsup.layers.protocol_messages.protocolentities.attributes.attributes_video import VideoAttributes
    return VideoDownloadableMediaMessageProtocolEntity(
        VideoAttributes(_dmattrs(mimetype, file_length, file_sha256, url, media_key), width, height, seconds, gif_playback,
                        jpeg_thumbnail, gif_attribution, caption, streaming_sidecar), _meta(to, id))


def out_document(mimetype, file_length, file_sha256, url, media_key, file_name, to, title=None, page_count=None,
                 jpeg_thumbnail=None, id=None):
    from yowsup.layers.protocol_media.protocolentities import DocumentDownloadableMediaMessageProtocolEntity
    from yowsup.layers.protocol_messages.protocolentities.attributes.attributes_document import DocumentAttributes
    return DocumentDownloadableMediaMessageProtocolEntity(
        DocumentAttributes(_dmattrs(mimetype, file_length, file_sha256, url, media_key), file_name, file_length, title, page_count,
                           jpeg_thumbnail), _meta(to, id))


def out_sticker(mimetype, file_length, file_sha256, url, media_key, width, height, to, png_thumbnail=None, id=None):
    from yowsup.layers.protocol_media.protocolentities import StickerDownloadableMediaMessageProtocolEntity
    from yowsup.layers.protocol_messages.protocolentities.attributes.attributes_sticker import StickerAttributes
    return StickerDownloadableMediaMessageProtocolEntity(
        StickerAttributes(_dmattrs(mimetype, file_length, file_sha256, url, media_key), width, height, png_thumbnail), _meta(to, id))


def out_location(degrees_latitude, degrees_longitude, to, name=None, address=None, url=None, jpeg_thumbnail=None, id=None):
    from yowsup.layers.protocol_media.protocolentities import LocationMediaMessageProtocolEntity
    from yowsup.layers.protocol_messages.protocolentities.attributes.attributes_location import LocationAttributes
    return LocationMediaMessageProtocolEntity(
        LocationAttributes(degrees_latitude, degrees_longitude, name, address, url, jpeg_thumbnail=jpeg_thumbnail), _meta(to, id))


def out_contact(display_name, vcard, to, id=None):
    from yowsup.layers.protocol_media.protocolentities import ContactMediaMessageProtocolEntity
    from yowsup.layers.protocol_messages.protocolentities.attributes.attributes_contact import ContactAttributes
    return ContactMediaMessageProtocolEntity(ContactAttributes(display_name, vcard), _meta(to, id))


def request_upload_from_file(mediaType, content):
    """the way the command line client builds the request: RequestUploadIqProtocolEntity(mediaType, filePath=path)"""
    from yowsup.layers.protocol_media.protocolentities import RequestUploadIqProtocolEntity
    fd, path = tempfile.mkstemp(prefix="c09_upload_")
    try:
        with os.fdopen(fd, "wb") as f:
            f.write(content)
        return RequestUploadIqProtocolEntity(mediaType, filePath=path)
    finally:
        os.unlink(path)


UTEXT = Kind("UTEXT", _utext)
LEN = Kind("LEN", st.integers(1, 2 ** 40))
U32 = Kind("U32", _u32)
LAT = Kind("LAT", st.floats(min_value=-90, max_value=90))
LON = Kind("LON", st.floats(min_value=-180, max_value=180))
VCARD = Kind("VCARD", _utext.map(lambda s: ("BEGIN:VCARD\nVERSION:3.0\nFN:%s\nEND:VCARD" % s).encode("utf-8")), is_bytes=True)
DM_ARGS = [LEN, BYTES(32), OPT(URL), OPT(BYTES(32))]     # file_length, file_sha256, url, media_key (the latter two known after upload)

# =============================================================================================== profiles
recv(PROFILES + ":ResultStatusesIqProtocolEntity",
     N("iq", {"type": CONST("result"), "from": SERVER, "id": ID},
       children=[N("status", {}, children=[
           CH(N("user", {"jid": PJID(p), "t": TS}, data=TEXTDATA), 0, 1) for p in ("49", "44", "20", "97")])]),
     owner="profiles", module="profiles", route="reply", request="GetStatusesIqProtocolEntity",
     notes="the parser keys a dict by jid, so every <user> slot draws from a disjoint jid range (no repeated jid in one reply)")
send(PROFILES + ":GetStatusesIqProtocolEntity", [LIST(JID, 1, 4)], {"_id": OPT(ID)}, owner="profiles", module="profiles", route="app")
send(PROFILES + ":SetStatusIqProtocolEntity", [ONEOF(TEXTDATA, TEXT, TEXTDATA0)], {"_id": OPT(ID)}, owner="profiles", module="profiles",
     route="app", notes="bytes is the documented form; the command line client still passes str (converted as Latin-1). "
                        "Answered by a plain ResultIqProtocolEntity")

recv(PROFILES + ":ResultGetPictureIqProtocolEntity",
     N("iq", {"type": CONST("result"), "from": AJID, "id": ID},
       children=[N("picture", {"type": WORD("image", "preview"), "id": ID}, data=BLOB1)]),
     owner="profiles", module="profiles", route="reply", request="GetPictureIqProtocolEntity",
     notes="the layer parses the answer to SetPictureIqProtocolEntity with this class too (that reply's shape is not documented)")
send(PROFILES + ":GetPictureIqProtocolEntity", [AJID], {"preview": OPT(BOOL), "_id": OPT(ID)}, owner="profiles", module="profiles",
     route="app")
send(PROFILES + ":SetPictureIqProtocolEntity", [AJID, BLOB1, BLOB1], {"pictureId": OPT(TS), "_id": OPT(ID)}, owner="profiles",
     module="profiles", route="app", notes="(jid, previewData, pictureData); own jid or a group jid")
send(PROFILES + ":ListPicturesIqProtocolEntity", [JID, LIST(JID, 1, 4)], owner="profiles", module="profiles", route="app",
     notes="no caller in the repository, but the profiles layer's send handler accepts it (xmlns w:profile:picture, type get)")

recv(PROFILES + ":ResultPrivacyIqProtocolEntity",
     N("iq", {"type": CONST("result"), "from": JID, "id": ID},
       children=[N("privacy", {}, children=[
           CH(N("category", {"name": CONST(n), "value": WORD("all", "contacts", "none")}), 0, 1)
           for n in ("last", "status", "profile")])]),
     owner="profiles", module="profiles", route="reply", request="GetPrivacyIqProtocolEntity",
     notes="also the answer to SetPrivacyIqProtocolEntity; one <category> per name (dict keyed by name)")
send(PROFILES + ":GetPrivacyIqProtocolEntity", [], owner="profiles", module="profiles", route="app")
send(PROFILES + ":SetPrivacyIqProtocolEntity",
     [WORD("all", "contacts", "none"),
      OPT(ONEOF(WORD("status", "profile", "last"), LIST(WORD("status", "profile", "last"), 1, 3, unique=True)))],
     owner="profiles", module="profiles", route="app", notes="(value, names); names None = all three")
send(PROFILES + ":UnregisterIqProtocolEntity", [], owner="profiles", module="profiles", route="app",
     notes="sent by the command line client's account delete; its iq xmlns attribute is None (the namespace sits on <remove>), "
           "so neither the profiles nor the iq layer's send handler forwards it")

# =============================================================================================== media
send(MEDIA + ":RequestUploadIqProtocolEntity",
     [WORD("image", "video", "audio", "document"), B64HASH, ONEOF(INT, COUNT), OPT(B64HASH)],
     owner="media", module="media", route="app", notes="(mediaType, b64Hash, size, origHash)")
send(HERE + ":request_upload_from_file", [WORD("image", "video", "audio", "document"), BLOB1],
     owner="media", module="media", route="app", name="RequestUploadIqProtocolEntity_file",
     notes="RequestUploadIqProtocolEntity(mediaType, filePath=...) as the command line client does; the factory writes the file")
recv(MEDIA + ":ResultRequestUploadIqProtocolEntity",
     N("iq", {"type": CONST("result"), "from": SERVER, "id": ID},
       children=[ALT(N("encr_media", {"url": URL, "ip": OPT(IP), "resume": OPT(COUNT)}),
                     N("duplicate", {"url": URL, "ip": OPT(IP)}))]),
     owner="media", module="media", route="reply", request="RequestUploadIqProtocolEntity",
     notes="no docstring: fixture (encr_media url+ip) plus the attributes the parser reads (resume; duplicate url/ip)")

recv(MEDIA + ":MediaMessageProtocolEntity",
     message_shape("media", PROTO_LOCATION, WORD("livelocation", "contact_array")),
     owner="media", module="media", route="internal",
     notes="only built for media types the layer does not support, to derive the receipt (id/from/participant); the payload "
           "content is irrelevant to it, a payload the converter can represent is used so that the bytes can be compared")
exclude(MEDIA + ":DownloadableMediaMessageProtocolEntity",
        "abstract base of the image/audio/video/document/sticker entities (downloadablemedia_specific_attributes raises "
        "NotImplementedError); no layer builds or sends it")

recv(MEDIA + ":ImageDownloadableMediaMessageProtocolEntity", message_shape("media", PROTO_IMAGE, CONST("image")),
     owner="media", module="media")
recv(MEDIA + ":AudioDownloadableMediaMessageProtocolEntity", message_shape("media", PROTO_AUDIO, WORD("audio", "ptt")),
     owner="media", module="media")
recv(MEDIA + ":VideoDownloadableMediaMessageProtocolEntity", message_shape("media", PROTO_VIDEO, WORD("video", "gif")),
     owner="media", module="media")
recv(MEDIA + ":DocumentDownloadableMediaMessageProtocolEntity", message_shape("media", PROTO_DOCUMENT, CONST("document")),
     owner="media", module="media")
recv(MEDIA + ":StickerDownloadableMediaMessageProtocolEntity", message_shape("media", PROTO_STICKER, CONST("sticker")),
     owner="media", module="media")
recv(MEDIA + ":LocationMediaMessageProtocolEntity", message_shape("media", PROTO_LOCATION, CONST("location")),
     owner="media", module="media")
recv(MEDIA + ":ContactMediaMessageProtocolEntity", message_shape("media", PROTO_CONTACT, CONST("contact")),
     owner="media", module="media")
recv(MEDIA + ":ExtendedTextMediaMessageProtocolEntity", message_shape("media", PROTO_URL, CONST("url")),
     owner="media", module="media")

_SEND_NOTE = "constructed through a factory of this module (attribute objects are not JSON-able); the media layer's send handler " \
             "forwards every entity of type media"
send(HERE + ":out_image", [WORD("image/jpeg", "image/png")] + DM_ARGS + [U32, U32, AJID],
     {"caption": OPT(UTEXT), "jpeg_thumbnail": OPT(BLOB1), "id": OPT(ID)},
     owner="media", module="media", route="app", name="ImageDownloadableMediaMessageProtocolEntity_send", notes=_SEND_NOTE)
send(HERE + ":out_audio", [WORD("audio/ogg; codecs=opus", "audio/mpeg")] + DM_ARGS + [U32, BOOL, AJID],
     {"streaming_sidecar": OPT(BLOB1), "id": OPT(ID)},
     owner="media", module="media", route="app", name="AudioDownloadableMediaMessageProtocolEntity_send", notes=_SEND_NOTE)
send(HERE + ":out_video", [WORD("video/mp4", "video/3gpp")] + DM_ARGS + [U32, U32, U32, AJID],
     {"gif_playback": OPT(BOOL), "jpeg_thumbnail": OPT(BLOB1), "gif_attribution": OPT(Kind("ENUM3", st.sampled_from([0, 1, 2]))),
      "caption": OPT(UTEXT), "streaming_sidecar": OPT(BLOB1), "id": OPT(ID)},
     owner="media", module="media", route="app", name="VideoDownloadableMediaMessageProtocolEntity_send", notes=_SEND_NOTE)
send(HERE + ":out_document", [WORD("application/pdf", "text/plain")] + DM_ARGS + [UTEXT, AJID],
     {"title": OPT(UTEXT), "page_count": OPT(U32), "jpeg_thumbnail": OPT(BLOB1), "id": OPT(ID)},
     owner="media", module="media", route="app", name="DocumentDownloadableMediaMessageProtocolEntity_send", notes=_SEND_NOTE)
send(HERE + ":out_sticker", [CONST("image/webp")] + DM_ARGS + [U32, U32, AJID], {"png_thumbnail": OPT(BLOB1), "id": OPT(ID)},
     owner="media", module="media", route="app", name="StickerDownloadableMediaMessageProtocolEntity_send", notes=_SEND_NOTE)
send(HERE + ":out_location", [LAT, LON, AJID],
     {"name": OPT(UTEXT), "address": OPT(UTEXT), "url": OPT(URL), "jpeg_thumbnail": OPT(BLOB1), "id": OPT(ID)},
     owner="media", module="media", route="app", name="LocationMediaMessageProtocolEntity_send", notes=_SEND_NOTE)
send(HERE + ":out_contact", [UTEXT, VCARD, AJID], {"id": OPT(ID)},
     owner="media", module="media", route="app", name="ContactMediaMessageProtocolEntity_send", notes=_SEND_NOTE)
send(HERE + ":out_url", [UTEXT, URL, URL, AJID],
     {"description": OPT(UTEXT), "title": OPT(UTEXT), "jpeg_thumbnail": OPT(BLOB1), "id": OPT(ID)},
     owner="media", module="media", route="app", name="ExtendedTextMediaMessageProtocolEntity_send", notes=_SEND_NOTE)

# =============================================================================================== messages
recv(MESSAGES + ":TextMessageProtocolEntity", message_shape("text", PROTO_TEXT), owner="messages", module="basic",
     notes="the messages layer builds it with the constructor from the parsed payload and "
           "MessageMetaAttributes.from_message_protocoltreenode(node); fromProtocolTreeNode is the inherited protomessage parser")
send(MESSAGES + ":TextMessageProtocolEntity", [UTEXT], {"to": AJID}, owner="messages", module="basic", route="app",
     name="TextMessageProtocolEntity_send", notes="TextMessageProtocolEntity(body, to=jid) as both demo clients do")
recv(MESSAGES + ":ExtendedTextMessageProtocolEntity", message_shape("text", PROTO_EXTTEXT), owner="messages", module="basic",
     notes="built like the text entity (constructor in the layer); payload = extended_text_message without mediatype")
send(HERE + ":out_extendedtext", [UTEXT, AJID],
     {"matched_text": OPT(URL), "canonical_url": OPT(URL), "description": OPT(UTEXT), "title": OPT(UTEXT),
      "jpeg_thumbnail": OPT(BLOB1), "id": OPT(ID)},
     owner="messages", module="basic", route="app", name="ExtendedTextMessageProtocolEntity_send",
     notes="factory; the messages layer's send handler forwards every entity of type text")
send(MESSAGES + ":BroadcastTextMessage", [LIST(JID, 1, 4), UTEXT], owner="messages", module="basic", route="app",
     notes="(jids, body) as the command line client does; its fromProtocolTreeNode is used by no layer")
exclude(MESSAGES + ":MessageProtocolEntity",
        "base class of all message entities (no payload); no layer builds or sends a bare instance")
