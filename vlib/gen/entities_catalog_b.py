"""Catalogue part B (format: entities.py, DSL: shapes.py): protocol_groups, protocol_notifications.

Grounding rules used here:
  * iq results/errors carry id, type, from as the server sends them (class docstrings); `from` is the literal "g.us" where the
    docstring says so, the group jid otherwise.
  * <participant> children that a parser stores in a dict {jid: type} (group info, groups list, create notification) are
    generated with pairwise distinct jids (PJID(1..3)): one member listed twice is not a valid stanza, and the dict would
    merge the two.  Parsers that keep a list get a plain 1..4 repetition.
  * `offline` is required ("0"/"1") where the class docstring and fixture show it (protocol_notifications) and optional where
    the docstring omits it but the parser reads it (group notifications).
"""
from .entities import recv, send, exclude
from .shapes import *  # noqa: F401,F403

GROUPS = "yowsup.layers.protocol_groups.protocolentities"
NOTIF = "yowsup.layers.protocol_notifications.protocolentities"

# group id without server part ("49151234-1415389947"), as in <group id="..."> of create results / group lists
GID = MAP(GJID, lambda j: j.split("@")[0], "GID")
# key of a create notification: "{{owner_username}}-{{key}}@temp"
TEMPKEY = MAP(GJID, lambda j: j.split("@")[0] + "@temp", "TEMPKEY")
GSERVER = CONST("g.us")


def PJID(i):
    """user jids that differ between slots (first digit = slot number), for participants kept in a dict"""
    return MAP(JID, lambda j, _i=i: "%d%s" % (_i, j), "PJID(%d)" % i)


def distinct_participants(*types):
    """0..3 <participant jid= [type=]> children with pairwise distinct jids"""
    return [CH(N("participant", {"jid": PJID(i), "type": OPT(WORD(*types))}), 0, 1) for i in (1, 2, 3)]


def group_attrs():
    return {"id": GID, "creator": JID, "creation": TS, "subject": TEXT, "s_t": TS, "s_o": JID}


# ---------------------------------------------------------------------------------------------- groups: requests
exclude(GROUPS + ":GroupsIqProtocolEntity", "abstract base (xmlns w:g2) of the group iq requests; no layer builds or sends it")

send(GROUPS + ":CreateGroupsIqProtocolEntity", [TEXT], {"participants": OPT(LIST(JID, 0, 4))},
     owner="groups", module="groups", route="app",
     notes="cli: CreateGroupsIqProtocolEntity(subject, participants=jids); jids may be the empty list")
send(GROUPS + ":LeaveGroupsIqProtocolEntity", [ONEOF(GJID, LIST(GJID, 1, 4))],
     owner="groups", module="groups", route="app",
     notes="constructor wraps a single jid into a list; an empty list is rejected by an assert")
send(GROUPS + ":ListGroupsIqProtocolEntity", [], {"groupsType": OPT(WORD("participating", "owning"))},
     owner="groups", module="groups", route="app", notes="cli calls it without arguments (participating)")
send(GROUPS + ":InfoGroupsIqProtocolEntity", [GJID],
     owner="groups", module="groups", route="app",
     notes="also created and sent through _sendIq by the axolotl send layer (group message without sender key)")
send(GROUPS + ":SubjectGroupsIqProtocolEntity", [GJID, ONEOF(TEXT, TEXTDATA)],
     owner="groups", module="groups", route="app",
     notes="reply is a plain ResultIqProtocolEntity (protocol_iq). The subject becomes node data: the cli passes a str "
           "(bytes under python 2), bytes is the only type ProtocolTreeNode accepts as data, so both are generated")
send(GROUPS + ":ParticipantsGroupsIqProtocolEntity", [GJID, LIST(JID, 1, 4), WORD("add", "promote", "remove", "demote")],
     owner="groups", module="groups", route="app",
     notes="docstring describes a get/<list> request, the constructor builds a set iq with a <mode> child; it is the base of "
           "add/promote/demote/remove but also listed in HANDLE and sent by the layer by itself (result -> ListParticipantsResult)")
send(GROUPS + ":AddParticipantsIqProtocolEntity", [GJID, LIST(JID, 1, 4)], owner="groups", module="groups", route="app")
send(GROUPS + ":PromoteParticipantsIqProtocolEntity", [GJID, LIST(JID, 1, 4)], owner="groups", module="groups", route="app",
     notes="reply is a plain ResultIqProtocolEntity (protocol_iq)")
send(GROUPS + ":DemoteParticipantsIqProtocolEntity", [GJID, LIST(JID, 1, 4)], owner="groups", module="groups", route="app",
     notes="reply is a plain ResultIqProtocolEntity (protocol_iq)")
send(GROUPS + ":RemoveParticipantsIqProtocolEntity", [GJID, LIST(JID, 1, 4)], owner="groups", module="groups", route="app")

# ---------------------------------------------------------------------------------------------- groups: replies
recv(GROUPS + ":SuccessCreateGroupsIqProtocolEntity",
     N("iq", {"type": CONST("result"), "id": ID, "from": GSERVER},
       children=[N("group", {"id": GID})]),
     owner="groups", module="groups", route="reply", request="CreateGroupsIqProtocolEntity")
recv(GROUPS + ":SuccessLeaveGroupsIqProtocolEntity",
     N("iq", {"type": CONST("result"), "id": ID, "from": GSERVER},
       children=[N("leave", {}, children=[N("group", {"id": GJID})])]),
     owner="groups", module="groups", route="reply", request="LeaveGroupsIqProtocolEntity",
     notes="docstring and parser know exactly one <group> inside <leave>")
recv(GROUPS + ":SuccessAddParticipantsIqProtocolEntity",
     N("iq", {"type": CONST("result"), "id": ID, "from": GJID},
       children=[CH(N("add", {"type": CONST("success"), "participant": JID}), 1, 4)]),
     owner="groups", module="groups", route="reply", request="AddParticipantsIqProtocolEntity",
     notes="parser keeps only children with type=success; no other type value is documented")
recv(GROUPS + ":FailureAddParticipantsIqProtocolEntity",
     N("iq", {"type": CONST("error"), "id": ID, "from": GJID},
       children=[N("error", {"text": WORD("item-not-found", "not-acceptable"), "code": WORD("404", "406"),
                             "backoff": OPT(COUNT)})]),
     owner="groups", module="groups", route="reply", request="AddParticipantsIqProtocolEntity",
     notes="parsed by ErrorIqProtocolEntity: text/code values are the ones of the two docstrings, backoff is optional there")
recv(GROUPS + ":SuccessRemoveParticipantsIqProtocolEntity",
     N("iq", {"type": CONST("result"), "id": ID, "from": GJID},
       children=[CH(N("remove", {"type": CONST("success"), "participant": JID}), 1, 4)]),
     owner="groups", module="groups", route="reply", request="RemoveParticipantsIqProtocolEntity",
     notes="parser keeps only children with type=success; no other type value is documented")
recv(GROUPS + ":ListGroupsResultIqProtocolEntity",
     N("iq", {"type": CONST("result"), "id": ID, "from": GSERVER},
       children=[N("groups", {}, children=[CH(N("group", group_attrs(), children=distinct_participants("admin")), 0, 3)])]),
     owner="groups", module="groups", route="reply", request="ListGroupsIqProtocolEntity")
recv(GROUPS + ":ListParticipantsResultIqProtocolEntity",
     N("iq", {"type": CONST("result"), "id": ID, "from": GJID},
       children=[CH(N("participant", {"jid": JID}), 1, 4)]),
     owner="groups", module="groups", route="reply", request="ParticipantsGroupsIqProtocolEntity")
recv(GROUPS + ":InfoGroupsResultIqProtocolEntity",
     N("iq", {"type": CONST("result"), "id": ID, "from": GJID},
       children=[N("group", group_attrs(), children=distinct_participants("admin"))]),
     owner="groups", module="groups", route="reply", request="InfoGroupsIqProtocolEntity",
     notes="the axolotl send layer parses the same result internally when it requested the info itself")

# ---------------------------------------------------------------------------------------------- groups: notifications
exclude(GROUPS + ":GroupsNotificationProtocolEntity",
        "base class of the w:gp2 notifications; the layer only builds the subject/create/add/remove subclasses")


def gp2_attrs(**extra):
    a = {"id": ID, "from": GJID, "type": CONST("w:gp2"), "t": TS, "notify": TEXT, "participant": JID,
         "offline": OPT(WORD("0", "1"))}
    a.update(extra)
    return a


recv(GROUPS + ":SubjectGroupsNotificationProtocolEntity",
     N("notification", gp2_attrs(),
       children=[N("subject", {"s_t": TS, "s_o": JID, "subject": TEXT})]),
     owner="groups", module="groups", route="unsolicited",
     notes="offline is not in the docstring but read by the parser (NotificationProtocolEntity)")
recv(GROUPS + ":CreateGroupsNotificationProtocolEntity",
     N("notification", gp2_attrs(),
       children=[N("create", {"type": CONST("new"), "key": TEMPKEY},
                   children=[N("group", group_attrs(), children=distinct_participants("admin", "superadmin"))])]),
     owner="groups", module="groups", route="unsolicited")
recv(GROUPS + ":AddGroupsNotificationProtocolEntity",
     N("notification", gp2_attrs(),
       children=[N("add", {}, children=[CH(N("participant", {"jid": JID}), 1, 4)])]),
     owner="groups", module="groups", route="unsolicited")
recv(GROUPS + ":RemoveGroupsNotificationProtocolEntity",
     N("notification", gp2_attrs(mode=OPT(CONST("none"))),
       children=[N("remove", {"subject": TEXT}, children=[CH(N("participant", {"jid": JID}), 1, 4)])]),
     owner="groups", module="groups", route="unsolicited",
     notes="mode=\"none\" is in the docstring but the parser never reads it")

# ---------------------------------------------------------------------------------------------- notifications
exclude(NOTIF + ":NotificationProtocolEntity",
        "base class; the notifications layer only builds the picture/status subclasses (axolotl and contacts entities reuse its parser)")
exclude(NOTIF + ":PictureNotificationProtocolEntity",
        "abstract base of the set/delete picture notifications (no child, constructor calls an undefined setData); "
        "the layer raises for a picture notification that is neither set nor delete")


def notif_attrs(_type, _from):
    return {"id": ID, "from": _from, "type": CONST(_type), "t": TS, "notify": OPT(TEXT), "offline": OPT(WORD("0", "1"))}


recv(NOTIF + ":SetPictureNotificationProtocolEntity",
     N("notification", notif_attrs("picture", AJID),
       children=[N("set", {"jid": AJID, "id": ID})]),
     owner="notifications", module="basic", route="unsolicited",
     notes="the layer also sends an ack for every notification")
recv(NOTIF + ":DeletePictureNotificationProtocolEntity",
     N("notification", notif_attrs("picture", AJID),
       children=[N("delete", {"jid": AJID})]),
     owner="notifications", module="basic", route="unsolicited")
recv(NOTIF + ":StatusNotificationProtocolEntity",
     N("notification", notif_attrs("status", JID),
       children=[N("set", {}, data=TEXTDATA)]),
     owner="notifications", module="basic", route="unsolicited")
