"""Catalogue content: see entities.py for the record format and shapes.py for the DSL.

Every shape is grounded in the class docstring, the fixture of its test module where one exists, and the fields the
parser (fromProtocolTreeNode) actually reads.  Value kinds are deliberately realistic (timestamps >= 1, counters >= 1)
so that "attribute meaning zero is omitted" idioms are not reported as losses.
"""
from .entities import recv, send, exclude
from .shapes import *  # noqa: F401,F403

ACKS = "yowsup.layers.protocol_acks.protocolentities"
RECEIPTS = "yowsup.layers.protocol_receipts.protocolentities"

# ---------------------------------------------------------------------------------------------- acks
recv(ACKS + ":IncomingAckProtocolEntity",
     N("ack", {"id": ID, "class": WORD("message", "receipt", "notification", "call"), "from": AJID, "t": TS}),
     owner="acks")
send(ACKS + ":OutgoingAckProtocolEntity",
     [ID, WORD("receipt", "notification", "call", "message"), OPT(WORD("read", "delivery", "played")), AJID],
     {"participant": OPT(JID)}, owner="acks", route="app")
exclude(ACKS + ":AckProtocolEntity", "base class of the incoming/outgoing ack entities")

# ---------------------------------------------------------------------------------------------- receipts
recv(RECEIPTS + ":IncomingReceiptProtocolEntity",
     N("receipt", {"id": ID, "from": AJID, "t": TS, "offline": OPT(WORD("0", "1")), "type": OPT(WORD("read", "played")),
                   "participant": OPT(JID)},
       children=[CH(N("list", {}, children=[CH(N("item", {"id": ID}), 1, 4)]), 0, 1)]),
     owner="receipts")
send(RECEIPTS + ":OutgoingReceiptProtocolEntity",
     [ONEOF(ID, LIST(ID, 1, 4)), AJID], {"read": OPT(BOOL), "participant": OPT(JID), "callId": OPT(ID)},
     owner="receipts", route="app")
exclude(RECEIPTS + ":ReceiptProtocolEntity", "base class of the incoming/outgoing receipt entities")


# the remaining packages are catalogued in separate files
from . import entities_catalog_a  # noqa: E402,F401  auth, axolotl, calls, chatstate, contacts, ib, iq, presence, privacy
from . import entities_catalog_b  # noqa: E402,F401  groups, notifications
from . import entities_catalog_c  # noqa: E402,F401  profiles, media, messages
