"""Catalogue part A (format: entities.py, DSL: shapes.py)."""
from .entities import recv, send, exclude
from .shapes import *  # noqa: F401,F403
