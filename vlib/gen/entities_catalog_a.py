"""Catalogue part A (format: entities.py, DSL: shapes.py).

Packages: auth, axolotl, protocol_calls, protocol_chatstate, protocol_contacts, protocol_ib, protocol_iq,
protocol_presence, protocol_privacy.

Grounding rules used throughout (same as entities_catalog.py):
  * a shape lists exactly the attributes of the class docstring / fixture / parser; an attribute is OPT only where the
    docstrings disagree about its presence or the parser *and* the serialiser both treat "absent" as a value of its own;
  * `offline` is generated as required wherever the docstring shows it: several parsers turn "absent" into False and
    the serialiser then writes offline="0" - that is the "absent means zero" idiom and deliberately not provoked;
  * where two fields of a stanza are the same value by construction (receipt id and retry id), they are drawn from one
    shared strategy;
  * list children that the entity keeps in a dict (keyed by jid / number) are generated with pairwise different keys
    (one child slot per disjoint key domain) - a real server does not answer twice for the same key.
"""
from hypothesis import strategies as st

from .entities import recv, send, exclude
from .shapes import *  # noqa: F401,F403
from .shapes import Kind

AUTH = "yowsup.layers.auth.protocolentities"
AXO = "yowsup.layers.axolotl.protocolentities"
CALLS = "yowsup.layers.protocol_calls.protocolentities"
CHATSTATE = "yowsup.layers.protocol_chatstate.protocolentities"
CONTACTS = "yowsup.layers.protocol_contacts.protocolentities"
IB = "yowsup.layers.protocol_ib.protocolentities"
IQ = "yowsup.layers.protocol_iq.protocolentities"
PRESENCE = "yowsup.layers.protocol_presence.protocolentities"
PRIVACY = "yowsup.layers.protocol_privacy.protocolentities"

SERVER = CONST("s.whatsapp.net")          # YowConstants.DOMAIN == YowConstants.WHATSAPP_SERVER
FLAG = WORD("0", "1")
MEDIATYPE = WORD("image", "audio", "location", "document", "contact")   # EncryptedMessageProtocolEntity docstring
ENCTYPE = WORD("pkmsg", "msg", "skmsg")                                  # EncProtocolEntity.TYPES


def _shared(kind, key):
    """the same drawn value at every place of one generated case (fields that are equal by construction)"""
    return Kind("%s(shared:%s)" % (kind.name, key), st.shared(kind.strategy, key="catalog_a:" + key))


def _jid_in(domain):
    """user jids whose number starts with `domain`: different domains give different jids"""
    return Kind("JID[%s]" % domain, PHONE.strategy.map(lambda p, d=domain: d + p + "@s.whatsapp.net"))


def _number_in(domain):
    """phone number as textual node data, first digit `domain`"""
    return Kind("NUMBER[%s]" % domain, PHONE.strategy.map(lambda p, d=domain: (d + p).encode("ascii")), is_bytes=True)


def _distinct(make_shape, kind_for, hi=3):
    """child slots for 1..hi children built by make_shape(kind) whose key kinds live in disjoint domains"""
    return [CH(make_shape(kind_for(str(i + 1))), 1 if i == 0 else 0, 1) for i in range(hi)]


# ====================================================================================================== auth
recv(AUTH + ":SuccessProtocolEntity",
     N("success", {"creation": TS, "props": COUNT, "t": TS,
                   "location": Kind("DATACENTER", st.text(alphabet="abcdefghijklmnopqrstuvwxyz", min_size=3, max_size=3))}),
     owner="auth", notes="fixture test_success.py; all four attributes are read, creation and t through int()")
recv(AUTH + ":FailureProtocolEntity",
     N("failure", {"reason": ONEOF(WORD("not-authorized"), TEXT)}),
     owner="auth", notes="fixture reason=not-authorized; the noise layer also fabricates <failure reason=str(exception)>")
recv(AUTH + ":StreamFeaturesProtocolEntity",
     N("stream:features", {}, children=[CH(N(WORD("readreceipts", "groups_v2", "privacy", "presence")), 0, 4)]),
     owner="auth", notes="feature children are bare tags; pre-Noise stanza but the handler is still registered")
recv(AUTH + ":StreamErrorProtocolEntity",
     N("stream:error", {}, children=[N("conflict"), CH(N("text", data=TEXTDATA), 0, 1)]),
     owner="auth", notes="TYPE_CONFLICT docstring: <conflict/> plus optional <text>")
recv(AUTH + ":StreamErrorProtocolEntity",
     N("stream:error", {}, children=[ALT(N("ack"), N("xml-not-well-formed"))]),
     owner="auth", name="StreamErrorProtocolEntity_bare", notes="TYPE_ACK / TYPE_XML_NOT_WELL_FORMED docstrings: a single empty child")
exclude(AUTH + ":AuthProtocolEntity", "pre-Noise WAUTH-2 login stanza; no layer, demo or stack references it")
exclude(AUTH + ":ChallengeProtocolEntity", "pre-Noise WAUTH-2 login stanza; no layer, demo or stack references it")
exclude(AUTH + ":ResponseProtocolEntity", "pre-Noise WAUTH-2 login stanza; no layer, demo or stack references it")

# ====================================================================================================== axolotl
_KEY_ID = BYTES(3)        # docstring HEX:000000 / HEX:36b545; AxolotlControlLayer.adjustId pads to >= 3 bytes
_PUBKEY = BYTES(32)
_SIGNATURE = BYTES(64)


def _keys_user(jid_kind):
    return N("user", {"jid": jid_kind}, children=[
        N("registration", data=BYTES(4)),
        N("type", data=CONST(b"\x05")),
        N("identity", data=_PUBKEY),
        N("skey", {}, children=[N("id", data=_KEY_ID), N("value", data=_PUBKEY), N("signature", data=_SIGNATURE)]),
        N("key", {}, children=[N("id", data=_KEY_ID), N("value", data=_PUBKEY)]),
    ])


send(AXO + ":GetKeysIqProtocolEntity", [LIST(JID, 1, 4)], {"reason": OPT(WORD("identity"))},
     owner="axolotl_send", module="axolotl", route="layer",
     notes="AxolotlBaseLayer.getKeysFor, used by all three axolotl layers; reason='identity' after an identity change. "
           "The cli demo also pushes one through the stack (iq layer lets xmlns 'encrypt' pass)")
recv(AXO + ":ResultGetKeysIqProtocolEntity",
     N("iq", {"type": CONST("result"), "from": SERVER, "id": ID},
       children=[N("list", {}, children=_distinct(_keys_user, _jid_in))]),
     owner="axolotl_send", module="axolotl", route="internal", request="GetKeysIqProtocolEntity",
     numeric_tags=("id", "type", "registration"),
     notes="widths as in the class docstring (what the server sends): 4-byte registration, 1-byte type, 3-byte key ids; "
           "the unit-test fixture instead builds every integer with _intToBytes (4 bytes)")


def _set_keys(identityKey, signedPreKey, preKeys, djbType, registrationId=None):
    """constructor adapter: case arguments are JSON values (a tuple arrives as a list), the constructor insists on a tuple"""
    from yowsup.layers.axolotl.protocolentities import SetKeysIqProtocolEntity
    return SetKeysIqProtocolEntity(identityKey, tuple(signedPreKey), preKeys, djbType, registrationId)


_r = send(AXO + ":SetKeysIqProtocolEntity",
          [_PUBKEY,
           Kind("SIGNED_PREKEY", st.tuples(_KEY_ID.strategy, _PUBKEY.strategy, _SIGNATURE.strategy)),
           Kind("PREKEYS", st.dictionaries(_KEY_ID.strategy, _PUBKEY.strategy, min_size=1, max_size=4)),
           CONST(5),
           ONEOF(BYTES(3), BYTES(4))],
          owner="axolotl_control", module="axolotl", route="layer",
          notes="AxolotlControlLayer.flush_keys: identity key, (id, key, signature), {id: key}, Curve.DJB_TYPE, adjustId(registration id); "
                "load() is replaced by an adapter that turns the signed-prekey list back into the tuple the constructor asserts")
_r.load = lambda: _set_keys

_ENC_SHAPE = N("enc", {"type": ENCTYPE, "v": WORD("1", "2"), "mediatype": OPT(MEDIATYPE)}, data=BLOB1)

recv(AXO + ":EncProtocolEntity", _ENC_SHAPE,
     owner="axolotl_receive", module="axolotl", route="internal",
     notes="sub-entity: built for every <enc> child by EncryptedMessageProtocolEntity.fromProtocolTreeNode")
send(AXO + ":EncProtocolEntity", [ENCTYPE, CONST(2), BLOB1, OPT(MEDIATYPE)], {"jid": OPT(JID)},
     owner="axolotl_send", module="axolotl", route="layer", name="EncProtocolEntity_send",
     notes="sendToContact / sendToGroupWithSessions; with jid the node is wrapped in <to jid=>")
recv(AXO + ":EncryptedMessageProtocolEntity",
     N("message", {"from": AJID, "id": ID, "t": TS, "type": WORD("text", "media"), "offline": OPT(FLAG),
                   "notify": OPT(TEXT), "retry": OPT(COUNT), "participant": OPT(JID)},
       children=[CH(_ENC_SHAPE, 1, 2)]),
     owner="axolotl_receive", module="axolotl", route="internal",
     notes="class docstring; consumed by AxolotlReceivelayer.handleEncMessage, re-serialised with a <proto> child added")


def _encrypted_message(encs, _type, to, id=None, participant=None):
    """constructor adapter: builds the EncProtocolEntity list and the MessageMetaAttributes the way
    AxolotlSendLayer.sendEncEntities does (attributes of the outgoing plaintext node, participant for a directed retry)"""
    from yowsup.layers.axolotl.protocolentities import EncryptedMessageProtocolEntity, EncProtocolEntity
    from yowsup.layers.protocol_messages.protocolentities.message import MessageMetaAttributes
    attrs = MessageMetaAttributes(id=id, recipient=to)
    attrs.participant = participant
    return EncryptedMessageProtocolEntity([EncProtocolEntity(t, 2, data, mediatype, jid) for t, data, mediatype, jid in encs],
                                          _type, attrs)


_media = st.one_of(st.none(), MEDIATYPE.strategy)
_pair_enc = st.tuples(st.sampled_from(["msg", "pkmsg"]), BLOB1.strategy, _media, st.none())
_pair_enc_to = st.tuples(st.sampled_from(["msg", "pkmsg"]), BLOB1.strategy, _media, JID.strategy)
_group_enc = st.tuples(st.just("skmsg"), BLOB1.strategy, _media, st.none())
_r = send(AXO + ":EncryptedMessageProtocolEntity",
          [Kind("ENC_LIST", st.one_of(
              st.tuples(_pair_enc),                                                       # 1:1 message / directed retry
              st.tuples(_group_enc),                                                      # group, sender key known to all
              st.builds(lambda tos, g: tuple(tos) + (g,), st.lists(_pair_enc_to, min_size=1, max_size=3), _group_enc))),
           WORD("text", "media"), AJID],
          {"id": ID, "participant": OPT(JID)},
          owner="axolotl_send", module="axolotl", route="layer", name="EncryptedMessageProtocolEntity_send",
          notes="AxolotlSendLayer.sendEncEntities; arguments go through an adapter (enc tuples -> EncProtocolEntity, "
                "id/to/participant -> MessageMetaAttributes)")
_r.load = lambda: _encrypted_message

_RETRY_ID = _shared(ID, "retry-receipt-id")
recv(AXO + ":RetryIncomingReceiptProtocolEntity",
     N("receipt", {"type": CONST("retry"), "from": AJID, "id": _RETRY_ID, "t": TS, "participant": OPT(JID), "offline": OPT(FLAG)},
       children=[N("retry", {"count": COUNT, "t": TS, "id": _RETRY_ID, "v": CONST("1")}),
                 N("registration", data=BYTES(4))]),
     owner="axolotl_send", module="axolotl", route="internal",
     notes="class docstring: the <retry> id repeats the receipt id; handled by AxolotlSendLayer when the message is still queued")
send(AXO + ":RetryOutgoingReceiptProtocolEntity", [ID, AJID, INT, TS],
     {"participant": OPT(JID), "count": OPT(MAP(WORD("1", "2", "3", "4", "5"), int, "RETRYCOUNT"))},
     owner="axolotl_receive", module="axolotl", route="layer",
     notes="AxolotlReceivelayer.send_retry -> fromMessageNode(id, from, registration id (int), t attribute (str), participant); "
           "count is set on the entity afterwards")
recv(AXO + ":IdentityChangeEncryptNotification",
     N("notification", {"t": TS, "id": ID, "from": ONEOF(SERVER, JID), "type": CONST("encrypt")}, children=[N("identity")]),
     owner="axolotl_control", module="axolotl", route="internal",
     notes="exactly the docstring attributes (no notify / offline); the layer asks keys for getFrom(), so a user jid is generated too")
recv(AXO + ":RequestKeysEncryptNotification",
     N("notification", {"t": TS, "id": ID, "from": SERVER, "type": CONST("encrypt")}, children=[N("count", {"value": COUNT})]),
     owner="axolotl_control", module="axolotl", route="internal",
     notes="exactly the docstring attributes (no notify / offline); the fixture inherits notify/offline from the generic notification test")

# ====================================================================================================== calls
_CALL_KINDS = WORD("offer", "transport", "relaylatency", "reject", "terminate")
recv(CALLS + ":CallProtocolEntity",
     N("call", {"from": JID, "id": ID, "t": TS, "offline": FLAG, "notify": OPT(TEXT), "retry": OPT(COUNT), "e": OPT(NUM)},
       children=[CH(N(_CALL_KINDS, {"call-id": ID}), 0, 1)]),
     owner="calls",
     notes="docstring + fixture; the docstring stanza has no child (type None, acked), the fixture an <offer call-id>")
send(CALLS + ":CallProtocolEntity", [OPT(ID), _CALL_KINDS, INT], {"callId": ID, "_to": JID},
     owner="calls", route="app", name="CallProtocolEntity_send",
     notes="no caller in the repository; YowCallsProtocolLayer.sendCall forwards any entity with tag call")

# ====================================================================================================== chatstate
recv(CHATSTATE + ":IncomingChatstateProtocolEntity",
     N("chatstate", {"from": JID}, children=[ALT(N("composing"), N("paused"))]),
     owner="chatstate")
send(CHATSTATE + ":OutgoingChatstateProtocolEntity", [WORD("composing", "paused"), AJID], owner="chatstate", route="app")
exclude(CHATSTATE + ":ChatstateProtocolEntity", "base class of the incoming/outgoing chatstate entities")

# ====================================================================================================== contacts
_SID = MAP(TS, lambda t: str((int(t) + 11644477200) * 10000000), "SID")   # formula of the SyncIqProtocolEntity docstring


def _sync_user(number_kind):
    return N("user", {"jid": JID}, data=number_kind)


send(CONTACTS + ":GetSyncIqProtocolEntity", [LIST(PHONE, 1, 4)],
     {"mode": OPT(WORD("full", "delta")), "context": OPT(WORD("registration", "interactive")),
      # a sync split into several requests: same session id, running index, only the final one marked last
      "sid": OPT(MAP(TS, lambda t: t + "0000000", "SYNCSID")), "index": OPT(MAP(WORD("0", "1", "2", "7"), int, "SYNCINDEX")), "last": OPT(BOOL)},
     owner="contacts", route="app", notes="demos pass the number list only; mode/context limited to the class constants")
recv(CONTACTS + ":ResultSyncIqProtocolEntity",
     N("iq", {"type": CONST("result"), "from": JID, "id": ID},
       children=[N("sync", {"index": NUM, "last": WORD("true", "false"), "version": TS, "sid": ONEOF(CONST("1.30615237617e+17"), _SID),
                            "wait": OPT(NUM)},
                   children=[CH(N("in", {}, children=_distinct(_sync_user, _number_in)), 0, 1),
                             CH(N("out", {}, children=_distinct(_sync_user, _number_in)), 0, 1),
                             CH(N("invalid", {}, children=[CH(N("user", {}, data=TEXTDATA), 1, 3)]), 0, 1)])]),
     owner="contacts", route="unsolicited",
     notes="class docstring. The contacts layer does not register the request: any iq result with a <sync> child goes up")
exclude(CONTACTS + ":SyncIqProtocolEntity", "base class of the get/result sync iq entities")


def _contact_notification(child, notify=True):
    attrs = {"offline": OPT(FLAG), "id": ID, "type": CONST("contacts"), "t": TS, "from": JID}
    if notify:
        attrs["notify"] = TEXT
    return N("notification", attrs, children=[child])


recv(CONTACTS + ":AddContactNotificationProtocolEntity", _contact_notification(N("add", {"jid": JID})), owner="contacts")
recv(CONTACTS + ":RemoveContactNotificationProtocolEntity", _contact_notification(N("remove", {"jid": JID})), owner="contacts")
recv(CONTACTS + ":UpdateContactNotificationProtocolEntity", _contact_notification(N("update", {"jid": JID})), owner="contacts")
recv(CONTACTS + ":ContactsSyncNotificationProtocolEntity", _contact_notification(N("sync", {"after": TS}), notify=False),
     owner="contacts", notes="the docstring stanza (a captured one) has no notify attribute")

# ====================================================================================================== ib
recv(IB + ":DirtyIbProtocolEntity",
     N("ib", {}, children=[N("dirty", {"type": WORD("groups"), "timestamp": TS})]),
     owner="ib", notes="docstring + fixture: no attributes on <ib>")
recv(IB + ":OfflineIbProtocolEntity",
     N("ib", {"from": SERVER}, children=[N("offline", {"count": COUNT})]),
     owner="ib", notes="docstring: <ib from=s.whatsapp.net> (the fixture has a bare <ib>)")
recv(IB + ":AccountIbProtocolEntity",
     N("ib", {"from": SERVER}, children=[N("account", {"status": WORD("active"), "kind": WORD("paid"), "creation": TS, "expiration": TS})]),
     owner="ib", notes="docstring")
send(IB + ":CleanIqProtocolEntity", [WORD("groups"), SERVER], owner="ib", route="app",
     notes="cli demo: CleanIqProtocolEntity('groups', YowConstants.DOMAIN)")

# ====================================================================================================== iq
exclude(IQ + ":IqProtocolEntity", "base class of all iq entities; never built or sent as such by a layer")
recv(IQ + ":ResultIqProtocolEntity",
     N("iq", {"type": CONST("result"), "id": ID, "from": SERVER, "xmlns": OPT(CONST("w:p"))}),
     owner="iq", route="reply", request="PingIqProtocolEntity",
     notes="YowIqProtocolLayer.onPong; also the success reply of several set requests in the groups/profiles layers. "
           "xmlns is read by the parser and present in the fixture, absent in the docstring")
recv(IQ + ":ErrorIqProtocolEntity",
     N("iq", {"type": CONST("error"), "id": ID, "from": ONEOF(SERVER, AJID)},
       children=[N("error", {"text": ONEOF(WORD("not-acceptable"), TEXT), "code": Kind("ERRCODE", st.integers(400, 599).map(str)),
                             "backoff": OPT(COUNT)})]),
     owner="presence", route="reply", request="LastseenIqProtocolEntity",
     notes="class docstring; delivered by the presence, groups, profiles and media layers as the error answer of their requests")
send(IQ + ":PingIqProtocolEntity", [], {"to": OPT(SERVER)}, owner="iq", route="app",
     notes="cli demo passes to=DOMAIN; YowPingThread sends a bare PingIqProtocolEntity() by itself")
send(IQ + ":PongResultIqProtocolEntity", [SERVER, ID], owner="iq", route="layer",
     notes="answer to a server ping (xmlns urn:xmpp:ping), carries the ping's id")
send(IQ + ":PushIqProtocolEntity", [], owner="iq", route="app")
send(IQ + ":PropsIqProtocolEntity", [], owner="iq", route="app")
send(IQ + ":CryptoIqProtocolEntity", [], owner="iq", route="app", notes="cli demo 'seq' command")

# ====================================================================================================== presence
recv(PRESENCE + ":PresenceProtocolEntity",
     N("presence", {"from": JID, "type": OPT(WORD("unavailable")), "last": OPT(ONEOF(WORD("deny"), TS))}),
     owner="presence", notes="the two incoming docstring forms: contact online (from only), offline (type=unavailable, last)")
send(PRESENCE + ":PresenceProtocolEntity", [], {"name": TEXT, "_type": OPT(WORD("available", "unavailable"))}, owner="presence", route="app",
     name="PresenceProtocolEntity_send",
     notes="cli demo: PresenceProtocolEntity(name=pushname)")
send(PRESENCE + ":AvailablePresenceProtocolEntity", [], owner="presence", route="app")
send(PRESENCE + ":UnavailablePresenceProtocolEntity", [], owner="presence", route="app")
send(PRESENCE + ":SubscribePresenceProtocolEntity", [JID], owner="presence", route="app")
send(PRESENCE + ":UnsubscribePresenceProtocolEntity", [JID], owner="presence", route="app")
send(PRESENCE + ":LastseenIqProtocolEntity", [JID], owner="presence", route="app")
recv(PRESENCE + ":ResultLastseenIqProtocolEntity",
     N("iq", {"type": CONST("result"), "id": ID, "from": JID}, children=[N("query", {"seconds": NUM})]),
     owner="presence", route="reply", request="LastseenIqProtocolEntity",
     notes="no docstring: the parser reads from, id and query/seconds")

# ====================================================================================================== privacy
send(PRIVACY + ":PrivacyListIqProtocolEntity", [], {"name": OPT(CONST("default"))}, owner="privacy", module="privacy", route="app",
     notes="cli demo constructs it without arguments")
