"""Entity catalogue (DESIGN.md 4.3): one declarative record per protocol-entity class.

RECV records: classes the stack builds from an incoming stanza (`Class.fromProtocolTreeNode(node)` in a layer).
    recv(cls, shape, owner=, module=, route=, request=, notes=)
        cls     "package.module:ClassName"
        shape   N(...) of shapes.py: the documented stanza shape (class docstring, fixture, the fields the parser reads)
        owner   short name of the layer that builds it ("acks", "receipts", "groups", ...)
        module  "basic" | "groups" | "media" | "privacy" | "profiles" | "axolotl"  (which optional module must be present)
        route   "unsolicited"  - an incoming stanza of this shape reaches the application as this entity
                "reply"        - iq result/error that is only delivered as the answer to `request` (name of a SEND record)
                "internal"     - consumed inside the stack (never reaches the application as an entity)
SEND records: classes that applications or layers construct and send.
    send(cls, args, kwargs=, owner=, module=, route=)
        args/kwargs  constructor argument kinds (shapes.py); OPT(kind) = may be None / omitted
        route   "app"   - the application sends it through the stack
                "layer" - a layer constructs and sends it by itself (acks, pongs, receipts, key uploads)

The catalogue content lives in entities_catalog.py (imported at the bottom) so that this file stays the format definition.
"""
import importlib

from .shapes import *  # noqa: F401,F403

RECV = []
SEND = []
EXCLUDED = {}   # "package.module:ClassName" -> reason (abstract bases, unused pre-Noise auth entities, ...)


class Rec(object):
    def __init__(self, kind, cls, **kw):
        self.kind = kind
        self.cls_path = cls
        self.__dict__.update(kw)
        self.name = kw.get("name") or cls.split(":")[1]

    def load(self):
        mod, name = self.cls_path.split(":")
        return getattr(importlib.import_module(mod), name)


def recv(cls, shape, owner, module="basic", route="unsolicited", request=None, notes="", name=None, numeric_tags=()):
    """numeric_tags: tags of child nodes whose binary content is a big-endian integer; the statement compares numbers by
    value, so a different zero-padding of such content is not a loss"""
    r = Rec("recv", cls, shape=shape, owner=owner, module=module, route=route, request=request, notes=notes, name=name,
            numeric_tags=tuple(numeric_tags))
    RECV.append(r)
    return r


def send(cls, args=(), kwargs=None, owner=None, module="basic", route="app", notes="", name=None):
    r = Rec("send", cls, args=list(args), kwargs=dict(kwargs or {}), owner=owner, module=module, route=route, notes=notes, name=name)
    SEND.append(r)
    return r


def exclude(cls, reason):
    EXCLUDED[cls] = reason


def by_name(name):
    for r in RECV + SEND:
        if r.name == name:
            return r
    raise KeyError(name)


from . import entities_catalog  # noqa: E402,F401
