"""C10 - message payloads: attribute objects <-> protobuf bytes.

(A) attrs -> bytes -> attrs : every field the sender set comes back equal (unset == proto default)
(B) peer payload (protobuf built directly by the harness with arbitrary presence) -> attrs -> bytes -> parse :
    every modelled field path keeps its value
(C) the bytes produced in (A), parsed with the protobuf classes, carry each set value at the proto field pinned in the
    harness table below (catches mirrored slips that (A) cannot see)
(D) entity level: the message entity's toProtocolTreeNode -> fromProtocolTreeNode keeps payload and meta data
"""
import os
import json
import struct

from .. import compat  # noqa: F401
from ..core import Outcome
from hypothesis import strategies as st

from yowsup.layers.protocol_messages.protocolentities.attributes.converter import AttributesConverter
from yowsup.layers.protocol_messages.protocolentities.attributes.attributes_message import MessageAttributes
from yowsup.layers.protocol_messages.protocolentities.attributes.attributes_image import ImageAttributes
from yowsup.layers.protocol_messages.protocolentities.attributes.attributes_downloadablemedia import DownloadableMediaMessageAttributes
from yowsup.layers.protocol_messages.protocolentities.attributes.attributes_context_info import ContextInfoAttributes
from yowsup.layers.protocol_messages.protocolentities.attributes.attributes_extendedtext import ExtendedTextAttributes
from yowsup.layers.protocol_messages.protocolentities.attributes.attributes_document import DocumentAttributes
from yowsup.layers.protocol_messages.protocolentities.attributes.attributes_contact import ContactAttributes
from yowsup.layers.protocol_messages.protocolentities.attributes.attributes_location import LocationAttributes
from yowsup.layers.protocol_messages.protocolentities.attributes.attributes_video import VideoAttributes
from yowsup.layers.protocol_messages.protocolentities.attributes.attributes_audio import AudioAttributes
from yowsup.layers.protocol_messages.protocolentities.attributes.attributes_sticker import StickerAttributes
from yowsup.layers.protocol_messages.protocolentities.attributes.attributes_sender_key_distribution_message import \
    SenderKeyDistributionMessageAttributes
from yowsup.layers.protocol_messages.protocolentities.attributes.attributes_protocol import ProtocolAttributes, MessageKeyAttributes
from yowsup.layers.protocol_messages.protocolentities.attributes.attributes_message_meta import MessageMetaAttributes
from yowsup.layers.protocol_messages.proto.e2e_pb2 import Message

ID = "C10"
LEVEL = "exploration"
RULE = ("generated MessageAttributes specs for every content kind the converter maps (conversation, extended text, image, video, "
        "audio, document, sticker, location, contact, protocol/revoke, sender-key distribution) over all optional-field subsets; "
        "values by field kind (unicode text incl. astral and empty, bytes, uint32/uint64 incl. 0 and max, float32-representable "
        "floats, finite doubles, bools, enum members); context info with mentions and quoted messages nested to depth 3. The same "
        "specs are also materialised directly as protobuf (explicitly set defaults allowed) as 'payload received from a peer'. "
        "In half of the entity-level cases the content is replaced in place by a second generated spec after the entity (or a deep "
        "copy of it) has been serialised once, and the next serialisation must carry the second content. "
        "Before the round trip the process may have tried 1-5 times to serialise a message that cannot be serialised (state must not leak), and in half of the cases the message is printed (str) between composing / parsing and serialising. Forward level: forward() of the composed and of the received entity must serialise to the same content under a new id and recipient, and changing the forwarded copy in place must leave the serialisation of the message it was made from unchanged. "
        "Non-trivial = at least 2 optional fields set, or nested context info, or a zero/empty value set explicitly. "
        "Distinct = distinct canonical JSON.")
ASSUMPTIONS = [
    "a field that is unset on one side and holds the proto default on the other counts as equal (the statement speaks of values)",
    "DocumentAttributes.file_length and its downloadable-media file_length are the same datum (both map to the one proto field), "
    "so the generator keeps them equal, as DocumentAttributes.from_file does",
    "the attribute-name -> proto-field table and the field kinds are pinned in the harness",
]

conv = AttributesConverter.get()

# attribute name, proto field, kind, required-positional
DM = [("mimetype", "mimetype", "str", True), ("file_length", "file_length", "u64", True),
      ("file_sha256", "file_sha256", "bytes", True), ("url", "url", "str", False), ("media_key", "media_key", "bytes", False),
      ("context_info", "context_info", "ctx", False)]
KINDS = {
    "image": dict(cls=ImageAttributes, proto="image_message", dm=True, fields=[
        ("width", "width", "u32", True), ("height", "height", "u32", True), ("caption", "caption", "str", False),
        ("jpeg_thumbnail", "jpeg_thumbnail", "bytes", False)]),
    "contact": dict(cls=ContactAttributes, proto="contact_message", dm=False, fields=[
        ("display_name", "display_name", "str", True), ("vcard", "vcard", "bytes", True), ("context_info", "context_info", "ctx", False)]),
    "location": dict(cls=LocationAttributes, proto="location_message", dm=False, fields=[
        ("degrees_latitude", "degrees_latitude", "double", True), ("degrees_longitude", "degrees_longitude", "double", True),
        ("name", "name", "str", False), ("address", "address", "str", False), ("url", "url", "str", False),
        ("duration", "duration", "float", False), ("accuracy_in_meters", "accuracy_in_meters", "u32", False),
        ("speed_in_mps", "speed_in_mps", "float", False),
        ("degrees_clockwise_from_magnetic_north", "degrees_clockwise_from_magnetic_north", "u32", False),
        ("axolotl_sender_key_distribution_message", "axolotl_sender_key_distribution_message", "bytes", False),
        ("jpeg_thumbnail", "jpeg_thumbnail", "bytes", False)]),
    "extended_text": dict(cls=ExtendedTextAttributes, proto="extended_text_message", dm=False, fields=[
        ("text", "text", "str", True), ("matched_text", "matched_text", "str", True), ("canonical_url", "canonical_url", "str", True),
        ("description", "description", "str", True), ("title", "title", "str", True), ("jpeg_thumbnail", "jpeg_thumbnail", "bytes", True),
        ("context_info", "context_info", "ctx", True)], all_optional=True),
    "document": dict(cls=DocumentAttributes, proto="document_message", dm=True, fields=[
        ("file_name", "file_name", "str", True), ("file_length", "file_length", "u64", True), ("title", "title", "str", False),
        ("page_count", "page_count", "u32", False), ("jpeg_thumbnail", "jpeg_thumbnail", "bytes", False)]),
    "audio": dict(cls=AudioAttributes, proto="audio_message", dm=True, fields=[
        ("seconds", "seconds", "u32", True), ("ptt", "ptt", "bool", True), ("streaming_sidecar", "streaming_sidecar", "bytes", False)]),
    "video": dict(cls=VideoAttributes, proto="video_message", dm=True, fields=[
        ("width", "width", "u32", True), ("height", "height", "u32", True), ("seconds", "seconds", "u32", True),
        ("gif_playback", "gif_playback", "bool", False), ("jpeg_thumbnail", "jpeg_thumbnail", "bytes", False),
        ("gif_attribution", "gif_attribution", "enum3", False), ("caption", "caption", "str", False),
        ("streaming_sidecar", "streaming_sidecar", "bytes", False)]),
    "sticker": dict(cls=StickerAttributes, proto="sticker_message", dm=True, fields=[
        ("width", "width", "u32", True), ("height", "height", "u32", True), ("png_thumbnail", "png_thumbnail", "bytes", False)]),
    "sender_key_distribution_message": dict(cls=SenderKeyDistributionMessageAttributes, proto="sender_key_distribution_message", dm=False, fields=[
        ("group_id", "group_id", "str", True),
        ("axolotl_sender_key_distribution_message", "axolotl_sender_key_distribution_message", "bytes", True)]),
    "protocol": dict(cls=ProtocolAttributes, proto="protocol_message", dm=False, fields=[
        ("key", "key", "key", True), ("type", "type", "enum1", True)]),
}
CTX = [("stanza_id", "stanza_id", "str"), ("participant", "participant", "str"), ("quoted_message", "quoted_message", "msg"),
       ("remote_jid", "remote_jid", "str"), ("mentioned_jid", "mentioned_jid", "strlist"), ("edit_version", "edit_version", "u32"),
       ("revoke_message", "revoke_message", "bool")]
KEY = [("remote_jid", "remote_jid", "str"), ("from_me", "from_me", "bool"), ("id", "id", "str"), ("participant", "participant", "str")]
DEFAULTS = {"str": "", "bytes": b"", "u32": 0, "u64": 0, "float": 0.0, "double": 0.0, "bool": False, "enum3": 0, "enum1": 0,
            "strlist": []}


def val(kind, v):
    """JSON -> python value"""
    if v is None:
        return None
    if kind == "bytes":
        return bytes.fromhex(v)
    if kind == "strlist":
        return list(v)
    if kind == "ctx":
        return build_ctx(v)
    if kind == "msg":
        return build_message(v)
    if kind == "key":
        return MessageKeyAttributes(v.get("remote_jid"), v.get("from_me"), v.get("id"), v.get("participant"))
    return v


def build_ctx(spec):
    kw = {}
    for a, p, k in CTX:
        if a in spec:
            kw[a] = val(k, spec[a])
    return ContextInfoAttributes(**kw)


def build_kind(kind, spec):
    info = KINDS[kind]
    kw = {}
    for a, p, k, req in info["fields"]:
        kw[a] = val(k, spec.get(a))
    if info["dm"]:
        d = spec["dm"]
        dkw = {a: val(k, d.get(a)) for a, p, k, req in DM}
        kw["downloadablemedia_attributes"] = DownloadableMediaMessageAttributes(**dkw)
    return info["cls"](**kw)


def build_message(spec):
    kw = {}
    if "conversation" in spec:
        kw["conversation"] = spec["conversation"]
    for kind in KINDS:
        if kind in spec:
            kw[kind] = build_kind(kind, spec[kind])
    return MessageAttributes(**kw)


# ---- extraction of attribute objects back into the spec shape -------------------------------------

def ext_val(kind, v):
    if v is None:
        return None
    if kind == "bytes":
        return bytes(v).hex() if isinstance(v, (bytes, bytearray)) else {"not_bytes": repr(v)[:60]}
    if kind == "strlist":
        return list(v)
    if kind == "ctx":
        return {a: ext_val(k, getattr(v, a)) for a, p, k in CTX}
    if kind == "msg":
        return extract_message(v)
    if kind == "key":
        return {a: ext_val(k, getattr(v, a)) for a, p, k in KEY}
    return v


def extract_message(m):
    out = {}
    if m.conversation is not None:
        out["conversation"] = m.conversation
    for kind, info in KINDS.items():
        o = getattr(m, kind)
        if o is None:
            continue
        d = {a: ext_val(k, getattr(o, a)) for a, p, k, req in info["fields"]}
        if info["dm"]:
            dm = o.downloadablemedia_attributes
            d["dm"] = {a: ext_val(k, getattr(dm, a)) for a, p, k, req in DM}
        out[kind] = d
    return out


# ---- value comparison with "unset == default" -----------------------------------------------------

def norm_scalar(kind, v):
    if v is None:
        return DEFAULTS[kind] if kind != "bytes" else ""
    if kind == "bool":
        return bool(v)
    return v


STRICT_PRESENCE = [True]


def cmp_fields(table, sent, got, path, problems, with_req=True):
    for row in table:
        a, p, k = row[0], row[1], row[2]
        sv = sent.get(a) if sent else None
        gv = got.get(a) if got else None
        here = path + "." + a
        if k == "ctx":
            if sv is None:
                if gv is not None and not ctx_is_default(gv):
                    problems.append((here, "appeared", None, "ctx"))
                continue
            if gv is None:
                if not ctx_is_default(sv) or any(v is not None and v != [] for v in sv.values()):
                    # (also a context whose fields were all set to zero / empty on purpose: the sender set them)
                    problems.append((here, "lost", None, None))
                continue
            cmp_fields(CTX, sv, gv, here, problems)
        elif k == "msg":
            if sv is None:
                if gv is not None and gv != {}:
                    problems.append((here, "appeared", None, "msg"))
                continue
            if gv is None:
                if sv != {} and not msg_is_default(sv):
                    problems.append((here, "lost", None, None))
                continue
            cmp_message(sv, gv, here, problems)
        elif k == "key":
            cmp_fields(KEY, sv or {}, gv or {}, here, problems)
        else:
            if STRICT_PRESENCE[0] and sv is not None and gv is None and k != "strlist":
                # a value the sender set - zero, empty or false as it may be - has disappeared
                problems.append((here, "explicit_value_lost", _s(sv), None))
                continue
            ns, ng = norm_scalar(k, sv), norm_scalar(k, gv)
            if ns != ng or (type(ns) is not type(ng) and not (isinstance(ns, (int, float)) and isinstance(ng, (int, float)))):
                problems.append((here, "differs", _s(sv), _s(gv)))


def ctx_is_default(c):
    for a, p, k in CTX:
        v = c.get(a)
        if k == "msg":
            if v is not None and not msg_is_default(v):
                return False
        elif v is not None and norm_scalar(k, v) != (DEFAULTS[k] if k != "bytes" else ""):
            return False
    return True


def msg_is_default(m):
    return not any(k in m for k in KINDS) and not m.get("conversation")


def cmp_message(sent, got, path, problems):
    sc, gc = sent.get("conversation") or "", got.get("conversation") or ""
    if sc != gc:
        problems.append((path + ".conversation", "differs", _s(sc), _s(gc)))
    for kind, info in KINDS.items():
        s, g = sent.get(kind), got.get(kind)
        here = path + "." + kind
        if s is None and g is None:
            continue
        if s is None:
            problems.append((here, "appeared", None, None))
            continue
        if g is None:
            problems.append((here, "lost", None, None))
            continue
        cmp_fields(info["fields"], s, g, here, problems)
        if info["dm"]:
            cmp_fields(DM, s.get("dm"), g.get("dm"), here + ".dm", problems)


def _s(v):
    r = repr(v)
    return r if len(r) < 80 else r[:80] + "..."


# ---- harness-side protobuf construction / reading with the pinned field table ---------------------

def fill_proto_fields(pm, table, spec, explicit):
    for row in table:
        a, p, k = row[0], row[1], row[2]
        v = spec.get(a)
        if v is None:
            continue
        if k == "ctx":
            fill_ctx(getattr(pm, p), v, explicit)
            getattr(pm, p).SetInParent()
        elif k == "msg":
            fill_message(getattr(pm, p), v, explicit)
            getattr(pm, p).SetInParent()
        elif k == "key":
            fill_proto_fields(getattr(pm, p), KEY, v, explicit)
            getattr(pm, p).SetInParent()
        elif k == "strlist":
            getattr(pm, p).extend(v)
        elif k == "bytes":
            setattr(pm, p, bytes.fromhex(v))
        else:
            setattr(pm, p, v)


def fill_ctx(pc, spec, explicit):
    fill_proto_fields(pc, CTX, spec, explicit)


def fill_message(pm, spec, explicit=True):
    if spec.get("conversation"):
        pm.conversation = spec["conversation"]
    for kind, info in KINDS.items():
        if kind in spec:
            sub = getattr(pm, info["proto"])
            sub.SetInParent()
            fill_proto_fields(sub, info["fields"], spec[kind], explicit)
            if info["dm"]:
                fill_proto_fields(sub, DM, spec[kind]["dm"], explicit)


def read_proto_fields(pm, table):
    out = {}
    for row in table:
        a, p, k = row[0], row[1], row[2]
        if k == "ctx":
            out[a] = read_proto_fields(getattr(pm, p), CTX) if pm.HasField(p) else None
        elif k == "msg":
            out[a] = read_message(getattr(pm, p)) if pm.HasField(p) else None
        elif k == "key":
            out[a] = read_proto_fields(getattr(pm, p), KEY) if pm.HasField(p) else None
        elif k == "strlist":
            out[a] = list(getattr(pm, p))
        elif k == "bytes":
            out[a] = bytes(getattr(pm, p)).hex()
        else:
            out[a] = getattr(pm, p)
    return out


def read_message(pm):
    out = {}
    if pm.conversation:
        out["conversation"] = pm.conversation
    for kind, info in KINDS.items():
        if pm.HasField(info["proto"]):
            sub = getattr(pm, info["proto"])
            d = read_proto_fields(sub, info["fields"])
            if info["dm"]:
                d["dm"] = read_proto_fields(sub, DM)
            out[kind] = d
    return out


# ----------------------------------------------------------------------------------------------

def spec_stats(spec, depth=0):
    """(number of optional fields set, has nested ctx, has explicit zero/empty, kinds)"""
    n_opt = 0
    nested = False
    zero = False
    kinds = []
    if "conversation" in spec:
        kinds.append("conversation")
        if spec["conversation"] == "":
            zero = True

    def scan(table, d):
        nonlocal n_opt, nested, zero
        for row in table:
            a, p, k = row[0], row[1], row[2]
            req = row[3] if len(row) > 3 else False
            v = d.get(a)
            if v is None:
                continue
            if not req:
                n_opt += 1
            if k == "ctx":
                nested = True
                scan(CTX, v)
            elif k == "msg":
                s2 = spec_stats(v, depth + 1)
                nested = True
                kinds.extend("quoted:" + x for x in s2[3])
            elif k == "key":
                scan(KEY, v)
            elif v in ("", 0, 0.0, False, []) and not (req and k in ("u32", "u64", "bool", "double")):
                zero = True
    for kind, info in KINDS.items():
        if kind in spec:
            kinds.append(kind)
            scan(info["fields"], spec[kind])
            if info["dm"]:
                scan(DM, spec[kind]["dm"])
    return n_opt, nested, zero, kinds


def _unserialisable(depth):
    """a reply chain `depth` quotes deep whose innermost quoted message is an image without a mime type"""
    m = MessageAttributes(image=ImageAttributes(DownloadableMediaMessageAttributes(None, 1, b"\x00" * 32), 1, 1))
    for i in range(max(1, depth)):
        ctx = ContextInfoAttributes(stanza_id="X%d" % i, participant="1@s.whatsapp.net", quoted_message=m)
        m = MessageAttributes(extended_text=ExtendedTextAttributes("re %d" % i, None, None, None, None, None, ctx))
    return m


def _edit_lists_in_place(obj, seen):
    """appends an entry to every list held by the attribute objects of a composed message; returns how many"""
    if id(obj) in seen or not hasattr(obj, "__dict__") or not type(obj).__module__.startswith("yowsup."):
        return 0
    seen.add(id(obj))
    n = 0
    for v in list(vars(obj).values()):
        if isinstance(v, list):
            v.append("4915100000099@s.whatsapp.net")
            n += 1
        else:
            n += _edit_lists_in_place(v, seen)
    return n


def _from_file(case, out):
    """composing downloadable-media attributes from a file on disk: what the application states explicitly is kept, what it leaves
    out is taken from the file (its size, its SHA-256, its MIME type) - and the result serialises and parses back unchanged"""
    import hashlib
    import tempfile
    content = bytes((i * 31 + 7) & 0xFF for i in range(case["size"]))
    d = tempfile.mkdtemp(prefix="c10_file_")
    path = os.path.join(d, "upload" + case.get("ext", ".jpg"))
    try:
        with open(path, "wb") as f:
            f.write(content)
        given = {k: (bytes.fromhex(v) if k in ("file_sha256", "media_key") else v) for k, v in case["given"].items()}
        out.label("from_file", "from_file:given=" + ("+".join(sorted(given)) or "nothing"))
        try:
            attrs = DownloadableMediaMessageAttributes.from_file(path, **given)
        except Exception as e:
            out.fail("compose", "from_file:raises:%s" % type(e).__name__, {"error": repr(e)[:300], "given": sorted(given)})
            return out
        expected = {"file_length": len(content), "file_sha256": hashlib.sha256(content).digest(), "url": None, "media_key": None}
        expected.update(given)
        for k, v in expected.items():
            if k == "mimetype":
                continue
            got = getattr(attrs, k)
            if got != v:
                out.fail("compose", "from_file:%s_%s" % (k, "given_value_replaced" if k in given else "not_taken_from_the_file"),
                         {"given": sorted(given), "got": repr(got)[:80], "expected": repr(v)[:80]})
                return out
        if "mimetype" in given and attrs.mimetype != given["mimetype"]:
            out.fail("compose", "from_file:mimetype_given_value_replaced", {"got": attrs.mimetype})
            return out
        out.info = {"nt": 0 < len([k for k in ("file_length", "file_sha256") if k in given]) < 2}
        return out
    finally:
        import shutil
        shutil.rmtree(d, ignore_errors=True)


def run_case(case):
    out = Outcome()
    if case["sub"] == "from_file":
        return _from_file(case, out)
    spec = case["spec"]
    sub = case["sub"]
    n_opt, nested, zero, kinds = spec_stats(spec)
    out.label("sub=" + sub, *["kind=" + k for k in kinds[:6]])
    if nested:
        out.label("context_info")
    if zero:
        out.label("explicit_zero_or_empty")
    out.info = {"nt": n_opt >= 2 or nested or zero}
    if case.get("after_failures"):
        # what was serialised before - also attempts that failed - has no influence on what a message serialises to: the process
        # first tries to serialise messages that cannot be (a quoted image whose mime type was never set, at a generated depth)
        n_f, depth = case["after_failures"]
        failed = 0
        for _ in range(n_f):
            try:
                conv.message_to_protobytes(_unserialisable(depth))
            except (TypeError, ValueError):
                failed += 1
        out.label("after_failed_serialisations" if failed else "after_failures_none_failed")
    if sub == "attrs" and case.get("earlier_composed"):
        # an earlier message composed in the same process - and edited in place afterwards, the way an application adds a mention
        # to a reply (ctx.mentioned_jid.append(jid)) - has no part in what a later, separately composed message carries
        try:
            earlier = build_message(case["earlier_composed"])
            n_edit = _edit_lists_in_place(earlier, set())
            conv.message_to_protobytes(earlier)
            out.label("after_an_earlier_message_edited_in_place" if n_edit else "after_an_earlier_message")
        except Exception:
            out.label("earlier_message_not_composable")
    if sub == "attrs":
        try:
            attrs = build_message(spec)
        except Exception as e:
            # constructing the attribute objects is part of composing a message
            out.fail("compose", "compose:raises:%s" % type(e).__name__, {"error": repr(e)[:300], "kinds": kinds})
            return out
        if case.get("mention_edit"):
            # the application adds a mention to the reply it has composed, the way lists are edited: through the list the context
            # hands out (ctx.mentioned_jid.append(jid)).  What is serialised afterwards carries it
            import copy
            spec = copy.deepcopy(spec)
            edited = 0
            for kind in [k for k in spec if k in KINDS]:
                if not isinstance(spec[kind], dict):
                    continue
                in_dm = isinstance(spec[kind].get("dm"), dict) and isinstance(spec[kind]["dm"].get("context_info"), dict)
                cspec = spec[kind]["dm"]["context_info"] if in_dm else spec[kind].get("context_info")
                if not isinstance(cspec, dict) or not isinstance(cspec.get("mentioned_jid"), list):
                    continue
                try:
                    holder = getattr(attrs, kind)
                    lst = (holder.downloadablemedia_attributes if in_dm else holder).context_info.mentioned_jid
                except Exception:
                    continue
                if isinstance(lst, list):
                    lst.append("4915100000077@s.whatsapp.net")
                    cspec["mentioned_jid"] = cspec["mentioned_jid"] + ["4915100000077@s.whatsapp.net"]
                    edited += 1
            out.label("mention_appended_through_the_accessor" if edited else "mention_edit_without_mentions_list")
        if case.get("log"):
            # applications and the layers' own loggers print messages between composing and sending: looking at a message does
            # not change it
            try:
                str(attrs)
                out.label("printed_before_serialising")
            except Exception as e:
                out.fail("compose", "compose:str_raises:%s" % type(e).__name__, {"error": repr(e)[:300], "kinds": kinds})
                return out
        try:
            data = conv.message_to_protobytes(attrs)
        except Exception as e:
            out.fail("serialise", "serialise:raises:%s:%s" % (type(e).__name__, where(e)), {"error": repr(e)[:300], "kinds": kinds})
            return out
        try:
            back = conv.protobytes_to_message(data)
            if case.get("log"):
                str(back)
            got = extract_message(back)
        except Exception as e:
            out.fail("parse", "parse:raises:%s:%s" % (type(e).__name__, where(e)), {"error": repr(e)[:300], "kinds": kinds})
            return out
        problems = []
        cmp_message(spec, got, "message", problems)
        if problems:
            p = problems[0]
            out.fail("roundtrip", "roundtrip:%s:%s" % (p[1], strip_idx(p[0])), {"path": p[0], "sent": p[2], "got": p[3], "all": [x[0] for x in problems[:8]]})
            return out
        # (C) pinned field table against the bytes
        pm = Message()
        pm.ParseFromString(data)
        wire = read_message(pm)
        problems = []
        cmp_message(spec, wire, "message", problems)
        if problems:
            p = problems[0]
            out.fail("fieldmap", "fieldmap:%s:%s" % (p[1], strip_idx(p[0])), {"path": p[0], "sent": p[2], "on_wire": p[3]})
            return out
        # (D) entity level
        _entity_level(out, attrs, spec, case)
        return out
    if sub == "peer":
        pm = Message()
        wire_spec = spec
        if case.get("omit"):
            # the peer left out fields whose value is the protobuf default (valid proto2): the library's classes require them
            import copy
            wire_spec = copy.deepcopy(spec)
            for kind, field in case["omit"]:
                if kind in wire_spec and isinstance(wire_spec[kind], dict):
                    wire_spec[kind].pop(field, None)
            out.label("peer_omits_required_default_field")
        fill_message(pm, wire_spec)
        data1 = pm.SerializeToString()
        try:
            attrs = conv.protobytes_to_message(data1)
            if case.get("log"):
                str(attrs)
                out.label("printed_before_reserialising")
            data2 = conv.message_to_protobytes(attrs)
        except Exception as e:
            out.fail("peer", "peer:raises:%s:%s" % (type(e).__name__, where(e)), {"error": repr(e)[:300], "kinds": kinds})
            return out
        pm1, pm2 = Message(), Message()
        pm1.ParseFromString(data1)
        pm2.ParseFromString(data2)
        w1, w2 = read_message(pm1), read_message(pm2)
        problems = []
        cmp_message(w1, w2, "message", problems)
        if problems:
            p = problems[0]
            out.fail("peer", "peer:%s:%s" % (p[1], strip_idx(p[0])), {"path": p[0], "received": p[2], "reserialised": p[3]})
        return out
    raise ValueError(sub)


def strip_idx(path):
    return path


def where(e):
    """innermost repository function on the traceback (keys a failure by root cause rather than by input shape)"""
    import traceback
    from .. import compat as _c
    name = "?"
    for fr in traceback.extract_tb(e.__traceback__):
        if fr.filename.startswith(_c.REPO):
            name = fr.name
    return name


def _entity_level(out, attrs, spec, case):
    from yowsup.layers.protocol_messages.protocolentities.protomessage import ProtomessageProtocolEntity
    from yowsup.layers.protocol_media.protocolentities.message_media import MediaMessageProtocolEntity
    meta = case.get("meta") or {}
    incoming = bool(meta.get("incoming", True))
    kw = dict(id=meta.get("id", "3EB0ABCD"), notify=meta.get("notify"), timestamp=meta.get("t", 1500000000),
              participant=meta.get("participant"), offline=meta.get("offline"))
    if incoming:
        kw["sender"] = meta.get("jid", "4911111@s.whatsapp.net")
    else:
        kw["recipient"] = meta.get("jid", "4911111@s.whatsapp.net")
    try:
        m = MessageMetaAttributes(**kw)
        mediatype = meta.get("mediatype")
        if mediatype:
            ent = MediaMessageProtocolEntity(mediatype, attrs, m)
            cls = MediaMessageProtocolEntity
        else:
            ent = ProtomessageProtocolEntity("text", attrs, m)
            cls = ProtomessageProtocolEntity
        node = ent.toProtocolTreeNode()
        ent2 = cls.fromProtocolTreeNode(node)
        got = extract_message(ent2.message_attributes)
    except Exception as e:
        out.fail("entity", "entity:raises:%s" % type(e).__name__, {"error": repr(e)[:300]})
        return
    problems = []
    cmp_message(spec, got, "message", problems)
    if problems:
        out.fail("entity", "entity:payload_%s:%s" % (problems[0][1], problems[0][0]), {"path": problems[0][0]})
        return
    if ent2.getId() != ent.getId() or ent2.getType() != ent.getType() or ent2.getParticipant() != ent.getParticipant():
        out.fail("entity", "entity:meta_differs", {"id": [ent.getId(), ent2.getId()]})
    if incoming and (ent2.getFrom() != ent.getFrom() or ent2.getTimestamp() != ent.getTimestamp() or ent2.getNotify() != ent.getNotify()):
        out.fail("entity", "entity:meta_differs", {"from": [ent.getFrom(), ent2.getFrom()], "t": [ent.getTimestamp(), ent2.getTimestamp()]})
    if not incoming and ent2.getTo() != ent.getTo():
        out.fail("entity", "entity:meta_differs", {"to": [ent.getTo(), ent2.getTo()]})
    if mediatype and ent2.media_type != mediatype:
        out.fail("entity", "entity:mediatype_differs", {"got": ent2.media_type})
    if not out.violations:
        _forward_level(out, cls, ent, ent2, spec, case)
    if not out.violations:
        _typed_level(out, spec, case, kw)
    if not out.violations:
        _attribute_setters(out, spec, case)
    if out.violations or not case.get("edit"):
        return
    # composing in steps: the application changes the content after the entity has been serialised once (a first send, a log
    # line, a forwarded copy) - the next serialisation carries what the sender set last
    import copy
    out.label("edited_after_first_serialisation")
    try:
        target = copy.deepcopy(ent) if case.get("edit_copy") else ent
        a2 = build_message(case["edit"])
        for name in MESSAGE_FIELDS:
            setattr(target.message_attributes, name, getattr(a2, name))
        got2 = extract_message(cls.fromProtocolTreeNode(target.toProtocolTreeNode()).message_attributes)
        got1 = extract_message(cls.fromProtocolTreeNode(ent.toProtocolTreeNode()).message_attributes) if target is not ent else None
    except Exception as e:
        out.fail("entity", "entity:edit:raises:%s" % type(e).__name__, {"error": repr(e)[:300]})
        return
    problems = []
    cmp_message(case["edit"], got2, "message", problems)
    if problems:
        out.fail("entity", "entity:edit_not_serialised:%s:%s" % (problems[0][1], problems[0][0]), {"path": problems[0][0], "copy": bool(case.get("edit_copy"))})
        return
    if got1 is not None:
        problems = []
        cmp_message(spec, got1, "message", problems)
        if problems:
            out.fail("entity", "entity:edit_of_copy_changed_original:%s" % problems[0][0], {"path": problems[0][0]})


def _forward_level(out, cls, ent, ent2, spec, case):
    """forward(to) - what the echo client does with a received message - gives an independent message with the same content:
    it serialises to the original content, and changing the copy (or the original) afterwards leaves the other one as it was"""
    for what, source in (("composed", ent), ("received", ent2)):
        try:
            fwd = source.forward("4922222@s.whatsapp.net")
            got = extract_message(cls.fromProtocolTreeNode(fwd.toProtocolTreeNode()).message_attributes)
        except Exception as e:
            out.fail("entity", "entity:forward:%s:raises:%s" % (what, type(e).__name__), {"error": repr(e)[:200]})
            return
        problems = []
        cmp_message(spec, got, "message", problems)
        if problems:
            out.fail("entity", "entity:forward:%s:content_%s:%s" % (what, problems[0][1], problems[0][0]), {"path": problems[0][0]})
            return
        if fwd.getTo() != "4922222@s.whatsapp.net" or fwd.getId() == source.getId():
            out.fail("entity", "entity:forward:%s:addressing" % what, {"to": fwd.getTo()})
            return
        if case.get("edit"):
            # change the forwarded copy: the message it was made from must still serialise to its own content
            try:
                a2 = build_message(case["edit"])
                for name in MESSAGE_FIELDS:
                    obj_f, obj_n = getattr(fwd.message_attributes, name), getattr(a2, name)
                    if obj_f is not None and obj_n is not None and type(obj_f) is type(obj_n) and not isinstance(obj_f, str):
                        # same content kind on both sides: change it field by field, in place
                        for attr in [a for a in dir(obj_n) if not a.startswith("_") and isinstance(getattr(type(obj_n), a, None), property)]:
                            try:
                                setattr(obj_f, attr, getattr(obj_n, attr))
                            except AttributeError:
                                pass
                    else:
                        setattr(fwd.message_attributes, name, obj_n)
                back = extract_message(cls.fromProtocolTreeNode(source.toProtocolTreeNode()).message_attributes)
            except Exception as e:
                out.fail("entity", "entity:forward:%s:edit_raises:%s" % (what, type(e).__name__), {"error": repr(e)[:200]})
                return
            problems = []
            cmp_message(spec, back, "message", problems)
            if problems:
                out.fail("entity", "entity:forward:%s:editing_the_copy_changed_the_original:%s" % (what, problems[0][0]), {"path": problems[0][0]})
                return
            out.label("forward_then_edit")
    out.label("forward")


def _attribute_setters(out, spec, case):
    """composing through the attribute objects' own property setters: every field assigned after construction (also nested
    context info and the downloadable part) is what the serialised payload carries"""
    import copy
    kinds = [k for k in spec if k in KINDS]
    edit = case.get("typed_edit")
    if len(kinds) != 1 or "conversation" in spec or not isinstance(edit, dict):
        return
    kind = kinds[0]
    info = KINDS[kind]
    merged = copy.deepcopy(spec)
    try:
        attrs = build_message(spec)
        obj = getattr(attrs, kind)
        for a, p_, k, req in info["fields"]:
            if edit.get(a) is not None:
                setattr(obj, a, val(k, edit[a]))
                merged[kind][a] = edit[a]
        if info["dm"] and isinstance(edit.get("dm"), dict):
            for a, p_, k, req in DM:
                if edit["dm"].get(a) is not None:
                    setattr(obj.downloadablemedia_attributes, a, val(k, edit["dm"][a]))
                    merged[kind]["dm"][a] = edit["dm"][a]
            if kind == "document":
                # one datum in two places (see ASSUMPTIONS): keep them equal, as the entity class's setter does
                fl = merged[kind]["dm"].get("file_length")
                if fl is not None:
                    obj.file_length = fl
                    obj.downloadablemedia_attributes.file_length = fl
                    merged[kind]["file_length"] = fl
        got = extract_message(conv.protobytes_to_message(conv.message_to_protobytes(attrs)))
    except RecursionError as e:
        out.fail("setters", "attribute_setter:%s:RecursionError" % kind, {"error": repr(e)[:120]})
        return
    except Exception as e:
        out.fail("setters", "attribute_setter:%s:raises:%s:%s" % (kind, type(e).__name__, where(e)), {"error": repr(e)[:300]})
        return
    out.label("attribute_setters:" + kind)
    problems = []
    cmp_message(merged, got, "message", problems)
    if problems:
        p0 = problems[0]
        out.fail("setters", "attribute_setter:%s:%s" % (p0[1], strip_idx(p0[0])), {"path": p0[0], "set": p0[2], "got": p0[3]})


def _typed_classes():
    from yowsup.layers.protocol_media import protocolentities as PE
    return {"image": PE.ImageDownloadableMediaMessageProtocolEntity, "video": PE.VideoDownloadableMediaMessageProtocolEntity,
            "audio": PE.AudioDownloadableMediaMessageProtocolEntity, "document": PE.DocumentDownloadableMediaMessageProtocolEntity,
            "sticker": PE.StickerDownloadableMediaMessageProtocolEntity, "contact": PE.ContactMediaMessageProtocolEntity,
            "location": PE.LocationMediaMessageProtocolEntity, "extended_text": PE.ExtendedTextMediaMessageProtocolEntity}


def _typed_properties(cls):
    """name -> property object for the content properties a typed media entity class offers (own class and its media bases)"""
    from yowsup.layers.protocol_media.protocolentities.message_media import MediaMessageProtocolEntity
    props = {}
    for k in cls.__mro__:
        if k is MediaMessageProtocolEntity:
            break
        for name, obj in vars(k).items():
            if isinstance(obj, property) and name not in ("media_specific_attributes", "downloadablemedia_specific_attributes"):
                props.setdefault(name, obj)
    return props


def _typed_level(out, spec, case, meta_kw):
    """the per-kind entity classes applications compose media messages with (ImageDownloadableMediaMessageProtocolEntity, ...):
    every content property returns what the sender set, and a value assigned through a property setter is what the serialised
    message carries"""
    kinds = [k for k in spec if k in KINDS]
    typed = _typed_classes()
    if len(kinds) != 1 or "conversation" in spec or kinds[0] not in typed:
        return
    kind = kinds[0]
    T = typed[kind]
    info = KINDS[kind]
    fields = {a: k for a, p, k, req in info["fields"]}
    dmf = {a: k for a, p, k, req in DM} if info["dm"] else {}
    out.label("typed_entity:" + kind)
    try:
        ent = T(build_kind(kind, spec[kind]), MessageMetaAttributes(**meta_kw))
    except Exception as e:
        out.fail("typed", "typed:%s:constructor_raises:%s" % (T.__name__, type(e).__name__), {"error": repr(e)[:300]})
        return
    edit = case.get("typed_edit") or ((case.get("edit") or {}).get(kind) if isinstance(case.get("edit"), dict) else None)
    # the names come from the field table, not from what the class happens to declare as properties: a content field the typed
    # entity answers in some other way (attribute lookup hooks) is still a field the application reads and assigns by that name
    for name in sorted(set(_typed_properties(T)) - set(fields) - set(dmf)):
        out.label("typed_property_without_field:%s.%s" % (T.__name__, name))
    for name in sorted(set(fields) | set(dmf)):
        if name in fields:
            k, want, new = fields[name], spec[kind].get(name), (edit or {}).get(name)
        else:
            k, want, new = dmf[name], spec[kind]["dm"].get(name), ((edit or {}).get("dm") or {}).get(name)
        if k in ("ctx", "msg", "key"):
            continue
        try:
            got = ext_val(k, getattr(ent, name))
        except Exception as e:
            out.fail("typed", "typed:%s.%s:getter_raises:%s" % (T.__name__, name, type(e).__name__), {"error": repr(e)[:200]})
            return
        if norm_scalar(k, got) != norm_scalar(k, want):
            out.fail("typed", "typed:%s.%s:getter_differs" % (T.__name__, name), {"got": _s(got), "set": _s(want)})
            return
        if new is None:
            continue
        try:
            setattr(ent, name, val(k, new))
            back = T.fromProtocolTreeNode(ent.toProtocolTreeNode())
            got2 = ext_val(k, getattr(back, name))
        except Exception as e:
            out.fail("typed", "typed:%s.%s:setter_path_raises:%s" % (T.__name__, name, type(e).__name__), {"error": repr(e)[:200]})
            return
        if norm_scalar(k, got2) != norm_scalar(k, new):
            out.fail("typed", "typed:%s.%s:value_set_through_property_not_serialised" % (T.__name__, name), {"got": _s(got2), "set": _s(new)})
            return
        out.label("typed_setter")


MESSAGE_FIELDS = ("conversation", "image", "contact", "location", "extended_text", "document", "audio", "video", "sticker",
                  "sender_key_distribution_message", "protocol")


def nontrivial(case, out):
    return bool(out.info and out.info.get("nt"))


# ----------------------------------------------------------------------------------------------
# generators

def f32(x):
    return struct.unpack("<f", struct.pack("<f", x))[0]


_text = st.one_of(st.text(max_size=20), st.sampled_from(["", "a", "\U0001F600 grüße", "http://x.y/z?q=1"]))
_bytes = st.binary(max_size=40).map(lambda b: b.hex())
_u32 = st.one_of(st.integers(0, 2 ** 32 - 1), st.sampled_from([0, 1, 2 ** 32 - 1]))
_u64 = st.one_of(st.integers(0, 2 ** 64 - 1), st.sampled_from([0, 1, 2 ** 64 - 1, 2 ** 32]))
_float = st.floats(allow_nan=False, allow_infinity=False, width=32)
_double = st.floats(allow_nan=False, allow_infinity=False)
_jid = st.builds(lambda n: "%d@s.whatsapp.net" % n, st.integers(1000, 10 ** 12))


def kind_value(k, depth):
    if k == "str":
        return _text
    if k == "bytes":
        return _bytes
    if k == "u32":
        return _u32
    if k == "u64":
        return _u64
    if k == "float":
        return _float
    if k == "double":
        return _double
    if k == "bool":
        return st.booleans()
    if k == "enum3":
        return st.sampled_from([0, 1, 2])
    if k == "enum1":
        return st.just(0)
    if k == "strlist":
        return st.lists(_jid, max_size=3)
    if k == "ctx":
        return ctx_strategy(depth)
    if k == "key":
        # (the participant is only there for messages of a group: a one-to-one revoke has none)
        base = st.fixed_dictionaries({"remote_jid": _jid, "from_me": st.booleans(), "id": _text}, optional={"participant": st.one_of(_text, _jid)})
        # (fields that happen to hold the same value stay two fields: a key built from a one-to-one message's sender names that
        # jid as chat and as participant)
        return st.one_of(base, base, base.map(lambda d: dict(d, participant=d["remote_jid"])))
    if k == "msg":
        return message_strategy(depth + 1)
    raise ValueError(k)


def optional_fields(table, depth):
    @st.composite
    def build(draw):
        d = {}
        for row in table:
            a, p, k = row[0], row[1], row[2]
            req = row[3] if len(row) > 3 else False
            if k in ("ctx", "msg") and depth >= 3:
                continue
            if req or draw(st.integers(0, 2)) == 0:
                d[a] = draw(kind_value(k, depth))
        return d
    return build()


def ctx_strategy(depth):
    return st.deferred(lambda: optional_fields(CTX, depth))


def kind_strategy(kind, depth):
    info = KINDS[kind]

    @st.composite
    def build(draw):
        table = info["fields"]
        if info.get("all_optional"):
            table = [(a, p, k, False) for a, p, k, r in table]
        d = draw(optional_fields(table, depth))
        if info["dm"]:
            d["dm"] = draw(optional_fields(DM, depth))
            if kind == "document":
                d["dm"]["file_length"] = d["file_length"]
        return d
    return build()


def message_strategy(depth=0):
    @st.composite
    def build(draw):
        kind = draw(st.sampled_from(["conversation"] + list(KINDS)))
        spec = {}
        if kind == "conversation":
            spec["conversation"] = draw(_text)
        else:
            spec[kind] = draw(kind_strategy(kind, depth))
        # occasionally a second content kind (sender-key distribution rides along with a real payload in groups)
        if depth == 0 and draw(st.integers(0, 5)) == 0:
            spec["sender_key_distribution_message"] = draw(kind_strategy("sender_key_distribution_message", depth))
        return spec
    return st.deferred(lambda: build())


MEDIATYPE = {"image": "image", "video": "video", "audio": "audio", "document": "document", "sticker": "sticker",
             "location": "location", "contact": "contact", "extended_text": "url"}


def case_strategy(sub):
    @st.composite
    def build(draw):
        spec = draw(message_strategy(0))
        case = {"sub": sub, "spec": spec}
        if draw(st.integers(0, 5)) == 0:
            case["after_failures"] = [draw(st.integers(1, 5)), draw(st.integers(1, 3))]
        if draw(st.booleans()):
            case["log"] = True
        if sub == "peer":
            omit = []
            for kind, info in KINDS.items():
                if kind in spec:
                    for row in info["fields"]:
                        if len(row) > 3 and row[3] and row[2] in DEFAULTS and row[2] != "strlist" and draw(st.integers(0, 2)) == 0:
                            omit.append([kind, row[0]])
            if omit:
                case["omit"] = omit
        if sub == "attrs":
            kinds = [k for k in spec if k in MEDIATYPE]
            meta = {"incoming": draw(st.booleans()), "id": draw(st.text(alphabet="0123456789ABCDEF", min_size=4, max_size=20)),
                    "t": draw(st.integers(1, 2 ** 31)), "jid": draw(_jid)}
            if kinds and draw(st.booleans()):
                meta["mediatype"] = MEDIATYPE[kinds[0]]
            if meta["incoming"]:
                meta["notify"] = draw(st.one_of(st.none(), st.text(min_size=1, max_size=10)))
                if draw(st.booleans()):
                    meta["participant"] = draw(_jid)
            case["meta"] = meta
            if draw(st.integers(0, 2)) == 0:
                case["earlier_composed"] = draw(message_strategy(0))
            if draw(st.integers(0, 3)) == 0:
                case["mention_edit"] = True
            if draw(st.booleans()):
                case["edit"] = draw(message_strategy(0))
                case["edit_copy"] = draw(st.booleans())
            only = [k for k in spec if k in KINDS]
            if len(only) == 1 and "conversation" not in spec and only[0] in MEDIATYPE and draw(st.booleans()):
                # values assigned afterwards through the properties of the kind's own entity class
                case["typed_edit"] = draw(kind_strategy(only[0], 1))
        return case
    return build()


def _enum_each_kind():
    full_dm = {"mimetype": "image/jpeg", "file_length": 12345, "file_sha256": "aa" * 32, "url": "https://mmg.whatsapp.net/d/f/x.enc",
               "media_key": "bb" * 32}
    ctx = {"stanza_id": "ABCD", "participant": "4922@s.whatsapp.net", "mentioned_jid": ["4933@s.whatsapp.net", "4944@s.whatsapp.net"],
           "quoted_message": {"conversation": "quoted"}}
    specs = [
        {"conversation": "hello"},
        {"image": {"width": 640, "height": 480, "caption": "cap", "jpeg_thumbnail": "ffd8", "dm": dict(full_dm, context_info=ctx)}},
        {"image": {"width": 0, "height": 0, "dm": {"mimetype": "", "file_length": 0, "file_sha256": ""}}},
        {"contact": {"display_name": "Bob", "vcard": "424547494e", "context_info": ctx}},
        {"location": {"degrees_latitude": 52.52, "degrees_longitude": 13.4, "name": "Berlin", "address": "Mitte", "url": "http://b",
                      "duration": 1.5, "accuracy_in_meters": 7, "speed_in_mps": 2.5, "degrees_clockwise_from_magnetic_north": 90,
                      "axolotl_sender_key_distribution_message": "0102", "jpeg_thumbnail": "ffd8"}},
        {"extended_text": {"text": "see http://x", "matched_text": "http://x", "canonical_url": "http://x/", "description": "d",
                           "title": "t", "jpeg_thumbnail": "ffd8", "context_info": ctx}},
        {"document": {"file_name": "a.pdf", "file_length": 12345, "title": "A", "page_count": 3, "jpeg_thumbnail": "ffd8", "dm": full_dm}},
        {"audio": {"seconds": 7, "ptt": True, "streaming_sidecar": "0a0b", "dm": full_dm}},
        {"video": {"width": 320, "height": 240, "seconds": 9, "gif_playback": True, "jpeg_thumbnail": "ffd8", "gif_attribution": 2,
                   "caption": "v", "streaming_sidecar": "0c", "dm": full_dm}},
        {"sticker": {"width": 64, "height": 64, "png_thumbnail": "8950", "dm": full_dm}},
        {"sender_key_distribution_message": {"group_id": "1-2@g.us", "axolotl_sender_key_distribution_message": "33" * 10}},
        {"protocol": {"key": {"remote_jid": "49@s.whatsapp.net", "from_me": True, "id": "X", "participant": "p"}, "type": 0}},
        {"protocol": {"key": {"remote_jid": "49@s.whatsapp.net", "from_me": True, "id": "X1"}, "type": 0}},
        {"protocol": {"key": {"remote_jid": "49@s.whatsapp.net", "from_me": False, "id": "X2", "participant": "49@s.whatsapp.net"}, "type": 0}},
    ]
    for i, s in enumerate(specs):
        yield {"sub": "attrs", "spec": s, "meta": {"incoming": True}, "edit": specs[(i + 1) % len(specs)], "edit_copy": bool(i % 2)}
        if "mentioned_jid" in json.dumps(s):
            yield {"sub": "attrs", "spec": s, "meta": {"incoming": False}, "mention_edit": True}
        yield {"sub": "peer", "spec": s}
    yield {"sub": "peer", "spec": specs[-1], "omit": [["protocol", "type"]]}
    # a context whose only fields are zero / empty ones the sender set on purpose (first edit, not revoked, an empty quote id)
    zero_ctx = [{"edit_version": 0}, {"revoke_message": False}, {"stanza_id": ""}, {"participant": "", "remote_jid": ""},
                {"edit_version": 0, "revoke_message": False, "stanza_id": ""}]
    for zc in zero_ctx:
        for s0 in (specs[1], specs[6], specs[7], specs[8], specs[9]):
            kind = [k for k in s0 if k in KINDS][0]
            body = dict(s0[kind], dm=dict(s0[kind]["dm"], context_info=zc))
            yield {"sub": "attrs", "spec": {kind: body}, "meta": {"incoming": False}}
            yield {"sub": "peer", "spec": {kind: body}}
        yield {"sub": "attrs", "spec": {"contact": {"display_name": "Bob", "vcard": "424547494e", "context_info": zc}}, "meta": {"incoming": True}}
        yield {"sub": "attrs", "spec": {"extended_text": dict(specs[5]["extended_text"], context_info=zc)}, "meta": {"incoming": True}}
    # a reply composed and given a mention in place, then another message with a context of its own and no mentions
    plain_ctx = {"stanza_id": "ABCDEF0123", "participant": "4915100000001@s.whatsapp.net", "quoted_message": {"conversation": "quoted"}}
    for s0 in (specs[3], specs[5], {"image": dict(specs[1]["image"], dm=dict(full_dm, context_info=plain_ctx))}):
        kind = [k for k in s0 if k in KINDS][0]
        body = dict(s0[kind])
        if "dm" not in body:
            body["context_info"] = plain_ctx
        yield {"sub": "attrs", "spec": {kind: body}, "meta": {"incoming": False},
               "earlier_composed": {"extended_text": {"text": "@you", "context_info": {"stanza_id": "00FF"}}}}
    # the kind's own entity classes: read every property, assign every property
    for s in specs[1:10]:
        kind = [k for k in s if k in KINDS][0]
        other = [x for x in specs[1:10] if kind in x and x is not s]
        yield {"sub": "attrs", "spec": s, "meta": {"incoming": False}, "typed_edit": (other[0] if other else s)[kind]}


def _from_file_strategy():
    opt = {"file_length": st.integers(0, 2 ** 40), "file_sha256": st.binary(min_size=32, max_size=32).map(lambda b: b.hex()),
           "mimetype": st.sampled_from(["image/jpeg", "video/mp4", "application/octet-stream"]), "url": st.just("https://mmg.whatsapp.net/d/f/x.enc"),
           "media_key": st.binary(min_size=32, max_size=32).map(lambda b: b.hex())}

    @st.composite
    def build(draw):
        given = {k: draw(v) for k, v in opt.items() if draw(st.booleans())}
        return {"sub": "from_file", "size": draw(st.sampled_from([0, 1, 231, 4096, 70000])), "ext": draw(st.sampled_from([".jpg", ".mp4", ".bin"])), "given": given}
    return build()


def _enum_from_file():
    for given in ({}, {"file_length": 257}, {"file_sha256": "ab" * 32}, {"file_length": 257, "file_sha256": "ab" * 32},
                  {"mimetype": "image/png", "file_sha256": "cd" * 32}, {"url": "https://mmg.whatsapp.net/d/f/x.enc", "media_key": "11" * 32, "file_length": 9}):
        yield {"sub": "from_file", "size": 231, "ext": ".jpg", "given": given}


def plan(tier):
    quick = tier == "quick"
    return {
        "shards": 16,
        "enumerations": [("each_kind_full", _enum_each_kind), ("attributes_from_a_file", _enum_from_file)],
        "strategies": [
            ("attrs", case_strategy("attrs"), 200 if quick else 8000),
            ("peer", case_strategy("peer"), 120 if quick else 8000),
            ("from_file", _from_file_strategy(), 20 if quick else 600),
        ],
        "shrink": "hypothesis",
        "budget_s": 150 if quick else 1500,
    }

RULE += (' Also: an earlier message composed in the same process and edited in place; message keys whose participant equals the chat jid; attributes composed from a file with any subset of values stated (from_file); values the sender set explicitly (zero, empty, false) must not come back absent.')
RULE += (" A composed message may get a mention appended through the list its context hands out (mention_edit) before it is serialised.")
