"""C16 - connection lifecycle: login, failure, stream error, keep-alive and reconnect.

The full default stack (network, segments, noise, coder, logger, the three encryption layers, all protocol layers, an
interface-layer application and a recorder above it) runs under the deterministic scheduler with a dispatcher double whose
connect() blocks like the real ones, against the Noise responder double.  A reference state machine is run in lock-step
with generated event histories; probes record the network layer's announcements, dispatcher calls and what reaches the top.
"""
from .. import compat  # noqa: F401
import errno
from ..core import Outcome
from ..kit import transport as TR
from ..kit import sched as S
from ..kit import protokit
from ..kit import stackkit
from ..kit.netkit import AsyncoreShim as _AsyncoreShim, driven_asyncore_class as _driven_asyncore_class
from ..ref import codec as R
from hypothesis import strategies as st

from yowsup.layers import YowLayer, YowParallelLayer, YowLayerEvent
from yowsup.layers.interface import YowInterfaceLayer
from yowsup.layers.network.layer import YowNetworkLayer
from yowsup.layers.auth.layer_authentication import YowAuthenticationProtocolLayer
from yowsup.layers.axolotl import AxolotlSendLayer, AxolotlControlLayer, AxolotlReceivelayer
from yowsup.layers.protocol_iq import YowIqProtocolLayer
from yowsup.stacks import YowStackBuilder
from yowsup.profile.profile import YowProfile

ID = "C16"
LEVEL = "exploration"
RULE = ("generated histories of 3-25 events over {connect request (established / refused; the server's handshake reply delivered at "
        "once or held back so that the connection is still being established when the next event arrives), a server reply that fails authentication (optionally with one more frame behind it in the same read), peer close, disconnect "
        "request (only while up or being established), server reply, success, (failure, stream error and peer close optionally with the first "
        "bytes of a further, never completed frame in the same read), failure, stream error (conflict / ack / xml-not-well-formed, with or without text), keep-alive tick (virtual "
        "clock, one second at a time), pong for a chosen outstanding ping, late pong for a ping of an earlier connection, application send (also one that stays unwritten in the dispatcher's buffer before the peer resets the connection), loop runs} ; a sub-case over the network layer alone with an asynchronous dispatcher double separates connect request, established, refused, a connect() that raises, peer close, disconnect request, data and send (requests through the event and through the layer interface)} with options {reconnect on "
        "stream error on/off, ping interval 1-3 s, passive}; the history is closed out (connection closed, loop run until no deferred "
        "callback is left) before the top-level counts are compared. Non-trivial = at least 2 established connections in the history, "
        "or a keep-alive decision (a tick with a ping outstanding, or a pong). Distinct = distinct canonical JSON.")
ASSUMPTIONS = [
    "the dispatcher double keeps the contract of the real dispatchers: connect() blocks for the life of the connection, disconnect() "
    "from any thread announces the connection down synchronously and ends the blocked connect()",
    "at the top only counts are asserted, after close-out: with blocking dispatchers an automatic reconnect runs nested inside the "
    "delivery of the previous connection's deferred 'disconnected', so upper layers legitimately see the new 'connected' first",
    "a refused connection attempt may be announced down without having been announced up (the statement constrains connections "
    "that were announced up)",
    "the real socket/asyncore dispatchers are not exercised here (a hang there could only be shown through an expiring wait)",
]

EV_CONNECTED = YowNetworkLayer.EVENT_STATE_CONNECTED
EV_DISCONNECTED = YowNetworkLayer.EVENT_STATE_DISCONNECTED


class App(YowInterfaceLayer):
    def __init__(self):
        super(App, self).__init__()
        self.events = []

    def onEvent(self, ev):
        self.events.append(ev.getName())
        return super(App, self).onEvent(ev)


class Above(YowLayer):
    """what the interface layer hands further up: entities without a callback of its own, stream errors"""

    def __init__(self):
        super(Above, self).__init__()
        self.got = []
        self.events = []

    def receive(self, e):
        self.got.append(e)

    def onEvent(self, ev):
        self.events.append(ev.getName())
        return False


def _quiet(fn):
    try:
        fn()
    except S._Stop:
        raise
    except Exception:
        pass


def build(case):
    home = protokit.clone_home(protokit.template_home(uploaded=not case.get("fresh_keys")))
    protokit.use_home(home)
    profile = YowProfile(protokit.OWN_PHONE)
    upper = (AxolotlControlLayer, YowParallelLayer((AxolotlSendLayer, AxolotlReceivelayer)),
             YowParallelLayer(YowStackBuilder.getProtocolLayers()), App, Above)
    props = {YowIqProtocolLayer.PROP_PING_INTERVAL: case.get("ping_interval", 2),
             YowInterfaceLayer.PROP_RECONNECT_ON_STREAM_ERR: bool(case.get("reconnect", True)),
             YowAuthenticationProtocolLayer.PROP_PASSIVE: bool(case.get("passive", False))}
    rig = TR.Rig(choices=case.get("choices", ()), upper=upper, props=props, profile=profile, preempt=case.get("preempt"))
    rig.home = home
    return rig


class _DoubleDispatcher(object):
    """dispatcher double in the style of the default (asyncore) dispatcher: connect() returns at once, the outcome of the connection
    attempt and everything else is reported later by the event loop - here: when the history says so"""
    made = []
    fail_next_connect = False

    def __init__(self, callbacks):
        self.cb = callbacks
        self.state = "new"       # new -> pending -> up -> closed
        self.written = []
        self.written_while_not_up = 0
        _DoubleDispatcher.made.append(self)

    def connect(self, host):
        if _DoubleDispatcher.fail_next_connect:
            _DoubleDispatcher.fail_next_connect = False
            self.state = "closed"
            raise IOError("Name or service not known")
        self.state = "pending"
        self.cb.onConnecting()

    def disconnect(self):
        if self.state in ("pending", "up"):
            self.state = "closed"
            self.cb.onDisconnected()

    def sendData(self, data):
        if self.state != "up":
            self.written_while_not_up += 1
            return
        self.written.append(bytes(data))

    # what the event loop reports, when the history says so
    def h_establish(self):
        self.state = "up"
        self.cb.onConnected()

    def h_refuse(self):
        self.state = "closed"
        self.cb.onConnectionError(IOError("connection refused"))

    def h_peer_close(self):
        self.state = "closed"
        self.cb.onDisconnected()

    def h_data(self, data):
        self.cb.onRecvData(data)


class _NetTop(YowLayer):
    def __init__(self):
        super(_NetTop, self).__init__()
        self.events = []
        self.got = []

    def onEvent(self, ev):
        self.events.append(ev.getName().split(".")[-1])
        return False

    def receive(self, data):
        self.got.append(bytes(data))

    def send(self, data):
        self.toLower(data)


def _run_net_async(case, out):
    """the network layer alone over an asynchronous dispatcher double: histories in which 'connect request' and 'connected' are
    separate events, so that further requests can arrive while a connection is still being established"""
    import yowsup.layers.network.layer as netmod
    from yowsup.stacks import YowStack
    saved = (netmod.AsyncoreConnectionDispatcher, netmod.SocketConnectionDispatcher)
    DA = None
    if case.get("dispatcher") == "asyncore":
        # the library's own asynchronous dispatcher class, its loop events driven by the history
        _AsyncDispatcher, DA = _driven_asyncore_class()
        DA.asyncore = _AsyncoreShim(DA.asyncore)
    else:
        _AsyncDispatcher = _DoubleDispatcher
    netmod.AsyncoreConnectionDispatcher = netmod.SocketConnectionDispatcher = _AsyncDispatcher
    _AsyncDispatcher.made = []
    try:
        stack = stackkit.new_stack_class()((YowNetworkLayer, _NetTop), reversed=False, props={YowNetworkLayer.PROP_ENDPOINT: ("e1.whatsapp.net", 443)})
        top = stack.getLayer(1)
        out.label("net_async")
        if DA is not None:
            out.label("net_async_over_the_real_asyncore_dispatcher")
        n_data = 0
        timeline = []
        seen_events = [0]
        for step, op in enumerate(case["ops"]):
            kind = op[0]
            live = [d for d in _AsyncDispatcher.made if d.state in ("pending", "up")]
            pending = [d for d in live if d.state == "pending"]
            ups = [d for d in live if d.state == "up"]
            if kind == "connect_request":
                if live:
                    out.label("connect_request_while_" + ("up" if ups else "being_established"))
                timeline.append("request")
                raises = len(op) > 1 and op[1] == "raises" and not live
                _AsyncDispatcher.fail_next_connect = raises
                try:
                    if len(op) > 1 and op[1] == "api":
                        # the way the interface layer, the cli demo and the key-upload reconnect ask for a connection
                        top.getLayerInterface(YowNetworkLayer).connect()
                        out.label("connect_through_layer_interface")
                    else:
                        stack.broadcastEvent(YowLayerEvent(YowNetworkLayer.EVENT_STATE_CONNECT))
                except IOError:
                    out.label("connect_raises")
                    timeline.append("attempt_over")
                _AsyncDispatcher.fail_next_connect = False
                if not live and not raises and not [d for d in _AsyncDispatcher.made if d.state in ("pending", "up")]:
                    # nothing was up or being established: the request must have opened a connection
                    out.fail("lifecycle", "net_async:connect_request_ignored_while_down", {"step": step, "history": case["ops"][:step + 1]})
                    return out
            elif kind == "established" and pending:
                pending[op[1] % len(pending)].h_establish()
            elif kind == "refused" and pending:
                pending[op[1] % len(pending)].h_refuse()
            elif kind == "peer_close" and ups:
                ups[op[1] % len(ups)].h_peer_close()
            elif kind == "disconnect_request" and live:
                stack.broadcastEvent(YowLayerEvent(YowNetworkLayer.EVENT_STATE_DISCONNECT, reason="requested"))
            elif kind == "data" and ups:
                n_data += 1
                ups[op[1] % len(ups)].h_data(b"in-%d" % n_data)
            elif kind == "send":
                top.send(b"out-%d" % step)
            elif kind == "loop":
                stackkit.drain_detached(stack)
            else:
                continue
            live = [d for d in _AsyncDispatcher.made if d.state in ("pending", "up")]
            if len(live) > 1:
                out.label("two_sockets_open")
            # what the application sees, in order: announcements and data
            if kind == "data":
                timeline.append("data")
            stackkit.drain_detached(stack)
            for e in top.events[seen_events[0]:]:
                if e in ("connected", "disconnected"):
                    timeline.append(e)
            seen_events[0] = len(top.events)
        stackkit.drain_detached(stack)
        # announcements alternate (each connection is announced up once and down once), and nothing arrives from a connection
        # that was never announced or has been announced as down
        state = "down"
        for i, e in enumerate(timeline):
            if e == "connected":
                if state == "up":
                    out.fail("lifecycle", "net_async:connected_announced_twice_in_a_row", {"timeline": timeline, "history": case["ops"]})
                    return out
                state = "up"
            elif e == "request":
                if state == "down":
                    state = "connecting"
            elif e == "attempt_over":
                if state == "connecting":
                    state = "down"
            elif e == "disconnected":
                # (a failed or abandoned attempt is announced as down too)
                if state == "down":
                    out.fail("lifecycle", "net_async:disconnected_announced_without_a_connection", {"timeline": timeline, "history": case["ops"]})
                    return out
                state = "down"
            elif e == "data" and state != "up":
                out.fail("lifecycle", "net_async:data_delivered_while_announced_down", {"timeline": timeline, "history": case["ops"]})
                return out
        if any(d.written_while_not_up for d in _AsyncDispatcher.made):
            out.fail("lifecycle", "net_async:written_to_a_connection_that_is_not_up", {"history": case["ops"]})
            return out
        out.info = {"nt": any(l.startswith("connect_request_while") for l in out.labels)}
        return out
    finally:
        netmod.AsyncoreConnectionDispatcher, netmod.SocketConnectionDispatcher = saved
        if DA is not None:
            DA.asyncore = DA.asyncore._real


def run_case(case):
    out = Outcome()
    if case.get("sub") == "net_async":
        return _run_net_async(case, out)
    rig = build(case)
    try:
        return _run(case, out, rig)
    finally:
        try:
            rig.close()
        finally:
            import shutil
            shutil.rmtree(rig.home, ignore_errors=True)


def _run(case, out, rig):
    net = rig.stack.getLayer(0)
    app = rig.stack.getLayer(-2)
    above = rig.stack.getLayer(-1)
    announced = []       # the network layer's announcements, in order
    orig_emit = net.emitEvent

    def emit(ev):
        announced.append(ev.getName())
        rig.log.append(("announce", ev.getName()))
        return orig_emit(ev)
    net.emitEvent = emit
    # events travelling downward from the protocol layers (auth request, authed) are observed at the layer below them
    below = rig.stack.getLayer(5)
    seen_below = []
    orig_on_event = below.onEvent

    def on_event(ev):
        seen_below.append(ev.getName())
        return orig_on_event(ev)
    below.onEvent = on_event
    interval = case.get("ping_interval", 2)
    reconnect_opt = bool(case.get("reconnect", True))

    m = {"state": "down", "authed": False, "pending_reconnect": False, "outstanding": [], "established": 0, "attempts": 0,
         "successes": 0, "failures": 0, "stream_errors": 0, "keepalive_decision": False, "held": None, "cut_in_handshake": 0, "old_pings": [],
         "unsent": bool(case.get("fresh_keys")), "rejected": 0}
    corrupt = list(case.get("corrupt", []))
    late = list(case.get("late", []))
    rig.redundant_down = bool(case.get("redundant_down"))
    rig.connect_outcomes.extend(case.get("outcomes", []))   # consumed by the dispatcher double, one per connection attempt

    def fail(key, detail):
        out.fail("lifecycle", key, detail)
        return False

    def count(lst, name):
        return len([e for e in lst if e == name])

    def stuck_now():
        """a handshake worker waiting for the server's reply is not stuck while that reply is being held back, and the worker of a
        connection that was cut off keeps waiting until the next login wakes it up"""
        last = getattr(rig.sched, "last_handshake_task", None)
        res = []
        for name, on in rig.stuck_tasks():
            if name.startswith("handshake") and (name != last or m["state"] != "up" or m["held"] is not None):
                continue
            res.append((name, on))
        return res

    scheduled = bool(case.get("choices") or case.get("preempt"))

    def check_invariants(step, op):
        if rig.writes_while_down:
            if scheduled and any(o[0] == "close_and_send" for o in case["ops"][:step + 1]):
                # a sender that had seen the connection up is overtaken by the close between its check and its write: a thread
                # schedule, not an event history (the statement quantifies over histories; the real dispatchers answer such a write
                # with a warning or an error to the sender).  Labelled, not failed; without a forced schedule it does fail.
                out.label("write_overtaken_by_close_under_forced_schedule")
                del rig.writes_while_down[:]
            else:
                return fail("write_to_connection_that_is_down", {"step": step, "op": op, "bytes": rig.writes_while_down[:3]})
        stuck = stuck_now()
        if stuck:
            return fail("task_blocked_forever", {"step": step, "op": op, "blocked": stuck})
        if rig.sched.overrun:
            return fail("no_progress", {"step": step})
        errs = [(n, repr(e)[:200]) for n, e in rig.task_errors()] + [("net", repr(e)[:200]) for e in rig.net_errors]
        if errs:
            return fail("task_died", {"step": step, "op": op, "errors": errs})
        # announcements of the network layer: every connection announced up is announced down exactly once before the next one
        up = False
        for e in announced:
            if e == EV_CONNECTED:
                if up:
                    return fail("announced_up_twice_without_down", {"step": step, "announced": [a.split(".")[-1] for a in announced]})
                up = True
            elif e == EV_DISCONNECTED:
                up = False
        downs = None     # 'disconnected' announcements of the connection that was announced up last (None: attempt not announced up)
        for e in rig.log:
            if e[0] == "dispatcher.connect":
                if downs == 0:
                    return fail("new_attempt_before_previous_connection_announced_down", {"step": step, "op": op})
                downs = None
            elif e == ("announce", EV_CONNECTED):
                downs = 0
            elif e == ("announce", EV_DISCONNECTED) and downs is not None:
                downs += 1
                if downs > 1:
                    return fail("announced_down_twice", {"step": step, "op": op, "announced": [a.split(".")[-1] for a in announced]})
        auths = count(seen_below, YowAuthenticationProtocolLayer.EVENT_AUTH)
        if auths != m["established"]:
            return fail("login_requests_per_connection", {"step": step, "op": op, "auth_events": auths, "established": m["established"]})
        if count(announced, EV_CONNECTED) != m["established"]:
            return fail("connected_announcements_differ", {"step": step, "op": op, "announced": count(announced, EV_CONNECTED),
                                                           "established": m["established"]})
        if (m["state"] == "up") != up:
            return fail("announced_state_differs_from_model", {"step": step, "op": op, "model": m["state"],
                                                               "announced": [a.split(".")[-1] for a in announced][-4:]})
        connects = len([1 for e in rig.log if e[0] == "dispatcher.connect"])
        if connects != m["attempts"]:
            return fail("connection_attempts_differ", {"step": step, "op": op, "dispatcher_connects": connects, "model": m["attempts"]})
        return True

    def login_roundtrip(step, op):
        """bytes of a fresh attempt: exactly one prologue + client hello, handshake completes"""
        b = rig.take_client_bytes(only=rig.current)
        for d_ in rig.dispatchers:
            if d_ is not rig.current:
                del d_.sent[:]
        rig.server.reset()
        if not (b.startswith(b"WA\x04\x00") or b.startswith(b"ED\x00\x01")):
            return fail("login_attempt_without_prologue", {"step": step, "head": b[:8].hex()})
        if b.count(b"WA\x04\x00") != 1:
            return fail("login_attempts_per_connection", {"step": step, "prologues": b.count(b"WA\x04\x00")})
        raw = corrupt.pop(0) if corrupt else False
        trailing = raw == 2 and raw is not True
        bad = bool(raw)
        # a string names another way in which the reply is not the authentic one (kit/noise_server._damage)
        rig.server.corrupt_hello = raw if isinstance(raw, str) else bad
        if isinstance(raw, str):
            out.label("handshake_reply_malformed")
        try:
            rig.server.feed(b)
        except TR.ProtocolViolation as e:
            return fail("fresh_login_rejected_by_server", {"step": step, "problem": str(e)})
        finally:
            rig.server.corrupt_hello = False
        o = rig.server.take_out()
        if bad and o:
            # the server's reply does not authenticate: the login failure is delivered to the application and the connection closed
            if late:
                late.pop(0)
            n_f = len([e for e in above.got if getattr(e, "getTag", lambda: "")() == "failure"])
            d_ = rig.current
            if trailing:
                # one more frame in the same read, behind the reply that fails: it belongs to this attempt and to no later one
                o += b"\x00\x00\x0a" + b"\xc3" * 10
                out.label("frame_behind_rejected_reply")
            rig.deliver(o)
            rig.shuttle(only=d_)
            out.label("handshake_reply_rejected")
            m["rejected"] += 1
            went_down()
            if len([e for e in above.got if getattr(e, "getTag", lambda: "")() == "failure"]) != n_f + 1:
                return fail("rejected_handshake_not_delivered_as_one_failure",
                            {"step": step, "delivered": len([e for e in above.got if getattr(e, "getTag", lambda: "")() == "failure"]) - n_f})
            return True
        if not o:
            return fail("fresh_login_incomplete", {"step": step, "op": op, "problems": ["no server reply to the client's opening bytes"],
                                                   "state": rig.server.state, "client_bytes": len(b)})
        if late and late.pop(0):
            # the server's reply is still on its way: the connection is "being established"
            m["held"] = o
            out.label("server_reply_held_back")
            return True
        return finish_handshake(step, op, o)

    def finish_handshake(step, op, o):
        m["held"] = None
        rig.deliver(o)
        probs = rig.shuttle(only=rig.current)
        if probs or rig.server.state != "transport":
            return fail("fresh_login_incomplete", {"step": step, "op": op, "problems": [str(p) for p in probs], "state": rig.server.state,
                                                   "stuck": rig.stuck_tasks()})
        return True

    def ensure_handshake(step, op):
        if m["state"] == "up" and m["held"] is not None:
            return finish_handshake(step, op, m["held"])
        return True

    def connection_established(step, op):
        m["state"] = "up"
        m["authed"] = False
        m["outstanding"] = []
        m["established"] += 1
        return login_roundtrip(step, op)

    def went_down():
        m["state"] = "down"
        m["authed"] = False
        m["old_pings"].extend(m["outstanding"])
        m["outstanding"] = []
        if m["held"] is not None:
            m["held"] = None
            m["cut_in_handshake"] += 1
            out.label("cut_while_being_established")

    def attempts_seen():
        return [e for e in rig.log if e[0] == "dispatcher.connect"]

    def settle(step, op, expected_new):
        """the application's main thread runs stack.loop() whenever it is not inside a connection: deferred callbacks are
        delivered as soon as the connection they were queued under has ended; a pending reconnect turns into one attempt"""
        for _ in range(8):
            if rig.detached_pending() == 0:
                break
            rig.post("loop")
            rig.run()
            # an attempt that was established needs its server before anything else can happen
            new = attempts_seen()[m["attempts"]:]
            if new:
                break
        new = attempts_seen()[m["attempts"]:]
        if len(new) != expected_new:
            key = "no_reconnect_after_stream_error" if len(new) < expected_new else "unexpected_connection_attempt"
            return fail(key, {"step": step, "op": op, "attempts": len(new), "expected": expected_new})
        for e in new:
            m["attempts"] += 1
            if e[1] == "ok":
                out.label("established_by_" + ("request" if op[0] == "connect" else "auto_reconnect"))
                if not connection_established(step, op):
                    return False
            else:
                out.label("attempt_refused")
        if new:
            # deferred callbacks of a refused attempt
            for _ in range(4):
                if rig.detached_pending() == 0 or m["state"] == "up":
                    break
                rig.post("loop")
                rig.run()
        return True

    def partial_frame(k):
        """the first k bytes of a further frame (3-byte header announcing 32 bytes, then payload bytes)"""
        return (b"\x00\x00\x20" + b"\xab" * 32)[:k]

    def server_stanza(tree, partial=0):
        # only the connection the stanza is sent on takes part: a reconnect triggered by it belongs to settle()
        d = rig.current
        rig.server.send_frame(R.encode(tree))
        if partial:
            # the same read also carries the beginning of the server's next frame, which this connection never completes
            rig.server.out += partial_frame(partial)
            out.label("unfinished_frame_behind_closing_stanza")
        rig.shuttle(only=d)

    def app_task(name, fn):
        res = {}

        def f():
            try:
                fn()
                res["ok"] = True
            except S._Stop:
                raise
            except Exception as e:
                res["exc"] = e
        rig.sched.spawn(name, f)
        rig.run()
        return res

    connections = 0
    for step, op in enumerate(case["ops"]):
        kind = op[0]
        expected_new = 0
        if kind in ("success", "failure", "stream_error", "tick", "pong", "stale_pong", "send", "server_reply"):
            if not ensure_handshake(step, op):
                return out
        if kind == "server_reply":
            pass
        elif kind == "connect":
            if m["state"] == "up":
                # a connect request while connected is ignored with a warning
                app_task("app%d" % step, lambda: rig.stack.broadcastEvent(YowLayerEvent(YowNetworkLayer.EVENT_STATE_CONNECT)))
            else:
                expected_new = 1
                rig.post("connect")
                rig.run()
        elif kind == "peer_close":
            if m["state"] != "up":
                continue
            if len(op) > 1 and op[1] and m["held"] is None:
                rig.deliver(partial_frame(op[1]))
                rig.run()
                out.label("unfinished_frame_before_peer_close")
            rig.current.inbox.put(("close",))
            rig.run()
            went_down()
            out.label("peer_close")
        elif kind == "close_and_send":
            # the connection drops while an application thread is sending (before the loop has delivered 'disconnected')
            if m["state"] != "up":
                continue
            from yowsup.layers.protocol_presence.protocolentities import AvailablePresenceProtocolEntity
            rig.current.inbox.put(("close",))
            rig.sched.spawn("app%d" % step, lambda: _quiet(lambda: app.toLower(AvailablePresenceProtocolEntity())))
            rig.run()
            went_down()
            out.label("close_and_send")
        elif kind == "unwritten_send_then_close":
            # the peer stops reading: what the application sends stays in the dispatcher's write buffer; then the connection is reset.
            # Those bytes die with the connection - the next one starts with its own prologue
            if m["state"] != "up" or m["held"] is not None:
                continue
            from yowsup.layers.protocol_presence.protocolentities import AvailablePresenceProtocolEntity
            rig.hold_writes = True
            app_task("app%d" % step, lambda: _quiet(lambda: app.toLower(AvailablePresenceProtocolEntity())))
            rig.hold_writes = False
            rig.current.inbox.put(("close",))
            rig.run()
            went_down()
            out.label("unwritten_send_then_close")
        elif kind == "disconnect":
            if m["state"] != "up":
                continue
            app_task("app%d" % step, app.disconnect)
            went_down()
            out.label("disconnect_request")
        elif kind == "success":
            if m["state"] != "up" or m["authed"]:
                continue
            n_auth = count(seen_below, YowAuthenticationProtocolLayer.EVENT_AUTHED)
            n_succ = len([e for e in above.got if getattr(e, "getTag", lambda: "")() == "success"])
            frames_before = len(rig.server.frames)
            server_stanza(("success", {"creation": "1500000000", "props": "4", "t": "1500000001", "location": "atn"}, None))
            m["authed"] = True
            m["successes"] += 1
            out.label("success")
            if m["unsent"]:
                # keys that were never uploaded: the login was passive, the upload follows the success; once it is confirmed the
                # library closes the connection itself and connects again (not passive)
                ups = []
                for f in rig.server.frames[frames_before:]:
                    t = R.decode(f)
                    if t[0] == "iq" and t[1].get("type") == "set" and t[1].get("xmlns") == "encrypt":
                        ups.append(t[1]["id"])
                if len(ups) != 1:
                    fail("key_upload_after_passive_login", {"step": step, "uploads": len(ups)})
                    return out
                if (op[1] if len(op) > 1 else 0) % 3 != 2:
                    server_stanza(("iq", {"type": "result", "id": ups[0], "from": "s.whatsapp.net"}, None))
                    m["unsent"] = False
                    went_down()
                    m["pending_reconnect"] = True
                    out.label("key_upload_confirmed_reconnect")
                else:
                    out.label("key_upload_unanswered")
            if count(seen_below, YowAuthenticationProtocolLayer.EVENT_AUTHED) != n_auth + 1:
                fail("authed_not_announced_once", {"step": step, "delta": count(seen_below, YowAuthenticationProtocolLayer.EVENT_AUTHED) - n_auth})
                return out
            if len([e for e in above.got if getattr(e, "getTag", lambda: "")() == "success"]) != n_succ + 1:
                fail("success_entity_not_delivered_once", {"step": step})
                return out
        elif kind == "failure":
            if m["state"] != "up" or m["authed"]:
                continue
            n_f = len([e for e in above.got if getattr(e, "getTag", lambda: "")() == "failure"])
            server_stanza(("failure", {"reason": op[1] if len(op) > 1 else "401"}, None), op[2] if len(op) > 2 else 0)
            m["failures"] += 1
            went_down()
            out.label("failure")
            if len([e for e in above.got if getattr(e, "getTag", lambda: "")() == "failure"]) != n_f + 1:
                fail("failure_not_delivered_once", {"step": step, "delivered": len([e for e in above.got if getattr(e, "getTag", lambda: "")() == "failure"]) - n_f})
                return out
        elif kind == "stream_error":
            if m["state"] != "up":
                continue
            n_e = len([e for e in above.got if getattr(e, "getTag", lambda: "")() == "stream:error"])
            children = [(op[1], {}, None)]
            if op[1] == "conflict" and len(op) > 2 and op[2]:
                children.append(("text", {}, b"Replaced by new connection"))
            server_stanza(("stream:error", {}, children), op[3] if len(op) > 3 else 0)
            m["stream_errors"] += 1
            went_down()
            m["pending_reconnect"] = reconnect_opt and op[1] != "conflict"
            out.label("stream_error:" + op[1])
            if len([e for e in above.got if getattr(e, "getTag", lambda: "")() == "stream:error"]) != n_e + 1:
                fail("stream_error_not_delivered_once", {"step": step})
                return out
        elif kind == "tick":
            # one keep-alive interval passes, a second at a time
            before = len(rig.server.frames)
            d = rig.current
            for _ in range(interval):
                rig.sched.advance(1.0)
                rig.shuttle(only=d)
            pings = []
            for f in rig.server.frames[before:]:
                t = R.decode(f)
                if t[0] == "iq" and t[1].get("xmlns") == "w:p":
                    pings.append(t[1]["id"])
            if m["state"] == "up" and m["authed"]:
                m["keepalive_decision"] = m["keepalive_decision"] or bool(m["outstanding"])
                if m["outstanding"]:
                    # a ping is still unanswered at the time the next one is due: the keep-alive closes the connection
                    went_down()
                    out.label("keepalive_timeout")
                else:
                    if len(pings) != 1:
                        fail("keepalive_ping_count", {"step": step, "pings": len(pings)})
                        return out
                    m["outstanding"] = pings
                    out.label("keepalive_ping")
            elif m["state"] == "up":
                # not logged in on this connection: the statement does not say whether a keep-alive is running (the library's own
                # reconnect after a key upload keeps the previous one).  What it does say: no close while every ping is answered.
                still_up = True
                for e in announced:
                    still_up = True if e == EV_CONNECTED else False if e == EV_DISCONNECTED else still_up
                if not still_up:
                    if not m["outstanding"]:
                        fail("closed_by_keepalive_although_no_ping_was_unanswered", {"step": step})
                        return out
                    went_down()
                    out.label("keepalive_timeout_before_login")
                elif pings:
                    m["outstanding"] = m["outstanding"] + pings
                    out.label("keepalive_ping_before_login")
        elif kind == "pong":
            if m["state"] != "up" or not m["outstanding"]:
                continue
            pid = m["outstanding"][op[1] % len(m["outstanding"])]
            server_stanza(("iq", {"type": "result", "id": pid, "from": "s.whatsapp.net"}, None))
            m["outstanding"] = []
            m["keepalive_decision"] = True
            out.label("pong")
        elif kind == "stale_pong":
            # the answer to a ping of an earlier connection arrives on the current one: it answers nothing that is awaited now
            if m["state"] != "up" or not m["authed"] or not m["old_pings"]:
                continue
            pid = m["old_pings"][op[1] % len(m["old_pings"])]
            server_stanza(("iq", {"type": "result", "id": pid, "from": "s.whatsapp.net"}, None))
            if m["outstanding"]:
                m["keepalive_decision"] = True
                out.label("stale_pong_while_a_ping_is_outstanding")
            out.label("stale_pong")
        elif kind == "send":
            from yowsup.layers.protocol_presence.protocolentities import AvailablePresenceProtocolEntity
            before = len(rig.server.frames)
            d = rig.current
            app_task("app%d" % step, lambda: app.toLower(AvailablePresenceProtocolEntity()))
            probs = rig.shuttle(only=d)
            if m["state"] == "up":
                if probs:
                    fail("send_breaks_stream", {"step": step, "problem": str(probs[0])})
                    return out
        elif kind == "loop":
            pass
        else:
            raise ValueError(kind)
        if out.violations:
            return out
        if m["state"] == "down" and m["pending_reconnect"]:
            m["pending_reconnect"] = False
            expected_new = 1
        if not settle(step, op, expected_new):
            return out
        if not check_invariants(step, op):
            return out
    # ---- close out the history
    out.label("connections=%s" % ("0" if m["established"] == 0 else "1" if m["established"] == 1 else "2+"))
    for _ in range(8):
        if m["state"] == "up":
            rig.current.inbox.put(("close",))
            rig.run()
            went_down()
        if not settle(len(case["ops"]), ["close_out"], 0):
            return out
        if m["state"] == "down" and rig.detached_pending() == 0:
            break
    if not check_invariants(len(case["ops"]), ["close_out"]):
        return out
    # top-level counts
    if count(app.events, EV_CONNECTED) != m["established"]:
        fail("top:connected_count", {"top": count(app.events, EV_CONNECTED), "established": m["established"]})
        return out
    if count(app.events, EV_DISCONNECTED) < m["established"]:
        fail("top:disconnected_count", {"top": count(app.events, EV_DISCONNECTED), "established": m["established"]})
        return out
    if count(seen_below, YowAuthenticationProtocolLayer.EVENT_AUTHED) != m["successes"]:
        fail("authed_count", {"seen": count(seen_below, YowAuthenticationProtocolLayer.EVENT_AUTHED), "successes": m["successes"]})
        return out
    out.info = {"nt": m["established"] >= 2 or m["keepalive_decision"]}
    if m["cut_in_handshake"] and m["established"] >= 2:
        out.label("login_after_cut_handshake")
    return out


def nontrivial(case, out):
    return bool(out.info and out.info.get("nt"))


def shrink_candidates(case):
    ops = case["ops"]
    for i in range(len(ops) - 1, -1, -1):
        yield dict(case, ops=ops[:i] + ops[i + 1:])
    if case.get("choices"):
        yield dict(case, choices=[])


_partial = st.sampled_from([0, 0, 0, 1, 2, 3, 5, 20])


def op_strategy():
    return st.one_of(
        st.just(["connect"]), st.just(["connect"]), st.tuples(st.just("peer_close"), _partial).map(list), st.just(["disconnect"]),
        st.tuples(st.just("success"), st.integers(0, 2)).map(list), st.tuples(st.just("success"), st.integers(0, 2)).map(list),
        st.tuples(st.just("failure"), st.sampled_from(["401", "403", "not-authorized"]), _partial).map(list),
        st.tuples(st.just("stream_error"), st.sampled_from(["conflict", "ack", "xml-not-well-formed"]), st.booleans(), _partial).map(list),
        st.just(["tick"]), st.just(["tick"]),
        st.tuples(st.just("pong"), st.integers(0, 3)).map(list),
        st.tuples(st.just("stale_pong"), st.integers(0, 3)).map(list),
        st.just(["send"]), st.just(["close_and_send"]), st.just(["server_reply"]), st.just(["unwritten_send_then_close"]),
    )


def keepalive_ops_strategy():
    """histories built from connection lives that stay logged in long enough for keep-alive decisions: connect, success, rounds
    of (tick, maybe pong, maybe a late pong of an earlier connection, maybe a send), then one of the ways down"""
    @st.composite
    def build(draw):
        ops = []
        for life in range(draw(st.integers(1, 4))):
            if life:
                ops.append(["connect"])
            ops.append(["success"])
            for _ in range(draw(st.integers(0, 4))):
                ops.append(["tick"])
                r = draw(st.integers(0, 9))
                if r <= 5:
                    ops.append(["pong", draw(st.integers(0, 3))])
                if r in (4, 5, 6, 7):
                    ops.append(["stale_pong", draw(st.integers(0, 3))])
                if r == 8:
                    ops.append(["send"])
            ops.append(draw(st.sampled_from([["peer_close", 0], ["disconnect"], ["tick"], ["stream_error", "ack", False, 0],
                                             ["stream_error", "conflict", True, 0], ["close_and_send"]])))
        return ops
    return build()


def case_strategy(ops=None):
    @st.composite
    def build_(draw):
        n = draw(st.sampled_from([0, 0, 30]))
        return {"sub": "history",
                "ops": [["connect"]] + (draw(st.lists(op_strategy(), min_size=2, max_size=24)) if ops is None else draw(ops)),
                "outcomes": draw(st.lists(st.sampled_from(["ok", "ok", "ok", "refused"]), min_size=0, max_size=6)) if ops is None else [],
                "reconnect": draw(st.booleans()),
                "ping_interval": draw(st.integers(1, 3)),
                "passive": draw(st.booleans()),
                "redundant_down": draw(st.booleans()),
                "late": draw(st.lists(st.booleans(), min_size=0, max_size=6)),
                "fresh_keys": draw(st.sampled_from([False, False, True])),
                "corrupt": draw(st.lists(st.sampled_from([False, False, False, False, False, False, True, 2, "ephemeral_short", "no_server_hello", "payload_short", "static_flip"]), min_size=0, max_size=5)),
                "choices": draw(st.lists(st.integers(0, 5), min_size=n, max_size=n)),
                "preempt": draw(st.lists(st.tuples(st.integers(0, 1500), st.integers(0, 3)).map(list), min_size=0, max_size=3)) if n == 0 else []}
    return build_()


def _enum_basic():
    base = {"sub": "history", "outcomes": [], "reconnect": True, "ping_interval": 2, "passive": False, "choices": []}
    yield dict(base, ops=[["connect"], ["success"], ["tick"], ["pong", 0], ["tick"], ["pong", 0], ["tick"], ["tick"], ["loop"]])
    yield dict(base, ops=[["connect"], ["success"], ["stream_error", "ack", False], ["loop"], ["success"], ["stream_error", "conflict", True], ["loop"]])
    yield dict(base, reconnect=False, ops=[["connect"], ["success"], ["stream_error", "xml-not-well-formed", False], ["loop"], ["connect"], ["success"]])
    yield dict(base, ops=[["connect"], ["failure", "401"], ["loop"], ["connect"], ["success"], ["peer_close"], ["send"], ["loop"], ["connect"]])
    yield dict(base, outcomes=["refused", "ok"], ops=[["connect"], ["loop"], ["connect"], ["success"], ["disconnect"], ["loop"]])
    # the automatic reconnection after a stream error is itself refused / given up by the application while it is being established:
    # exactly one attempt was due, none follows by itself
    yield dict(base, outcomes=["ok", "refused", "ok"], ops=[["connect"], ["success"], ["stream_error", "ack", False], ["loop"], ["loop"], ["tick"], ["loop"]])
    yield dict(base, outcomes=["ok", "refused", "refused", "ok"], ops=[["connect"], ["success"], ["stream_error", "xml-not-well-formed", False], ["loop"],
                                                                        ["loop"], ["connect"], ["loop"], ["connect"], ["success"]])
    yield dict(base, late=[False, True, False], ops=[["connect"], ["success"], ["stream_error", "ack", False], ["loop"], ["disconnect"], ["loop"], ["loop"],
                                                     ["connect"], ["success"]])
    yield dict(base, ops=[["connect"], ["connect"], ["success"], ["tick"], ["peer_close"], ["tick"], ["loop"], ["connect"], ["success"], ["tick"]])
    yield dict(base, redundant_down=True, ops=[["connect"], ["success"], ["close_and_send"], ["connect"], ["success"], ["disconnect"], ["connect"], ["peer_close"]])
    yield dict(base, late=[True, True, True, False], ops=[["connect"], ["peer_close"], ["connect"], ["disconnect"], ["connect"], ["server_reply"], ["success"],
                                                          ["peer_close"], ["connect"], ["success"], ["tick"]])
    yield dict(base, ops=[["connect"], ["failure", "401", 5], ["connect"], ["success"], ["stream_error", "ack", False, 2], ["success"], ["peer_close", 4],
                          ["connect"], ["success"], ["tick"]])
    yield dict(base, ops=[["connect"], ["success"], ["tick"], ["peer_close"], ["connect"], ["success"], ["tick"], ["stale_pong", 0], ["tick"], ["loop"],
                          ["connect"], ["success"], ["tick"], ["pong", 0], ["stale_pong", 1], ["tick"]])
    yield dict(base, fresh_keys=True, ops=[["connect"], ["success", 0], ["success", 0], ["tick"], ["pong", 0], ["peer_close", 0], ["connect"], ["success", 0]])
    yield dict(base, fresh_keys=True, ops=[["connect"], ["success", 2], ["peer_close", 0], ["connect"], ["success", 0], ["success", 0], ["tick"]])
    yield dict(base, corrupt=["ephemeral_short", "no_server_hello", False], ops=[["connect"], ["loop"], ["connect"], ["loop"], ["connect"], ["success"], ["send", 1], ["loop"]])
    yield dict(base, corrupt=[2, False], ops=[["connect"], ["loop"], ["connect"], ["success"], ["send", 1], ["loop"]])
    yield dict(base, corrupt=[True, False, True], ops=[["connect"], ["loop"], ["connect"], ["success"], ["stream_error", "ack", False, 0], ["loop"], ["connect"],
                                                        ["success"]])
    yield dict(base, ops=[["connect"], ["success"], ["unwritten_send_then_close"], ["loop"], ["connect"], ["success"], ["send"], ["tick"]])
    yield dict(base, late=[True, True], ops=[["connect"], ["close_and_send"], ["loop"], ["connect"], ["success"], ["stream_error", "ack", False], ["success"]])


def net_async_strategy():
    sel = st.integers(0, 2)
    op = st.one_of(st.just(["connect_request"]), st.just(["connect_request"]), st.just(["connect_request", "raises"]), st.just(["connect_request", "api"]), st.tuples(st.just("established"), sel).map(list),
                   st.tuples(st.just("established"), sel).map(list), st.tuples(st.just("refused"), sel).map(list),
                   st.tuples(st.just("peer_close"), sel).map(list), st.just(["disconnect_request"]), st.tuples(st.just("data"), sel).map(list),
                   st.just(["send"]), st.just(["loop"]))
    return st.tuples(st.lists(op, min_size=2, max_size=14), st.sampled_from(["double", "asyncore"])).map(
        lambda t: dict({"sub": "net_async", "ops": [["connect_request"]] + t[0]}, **({"dispatcher": "asyncore"} if t[1] == "asyncore" else {})))


def _enum_net_async():
    for c in _enum_net_async_double():
        yield c
        yield dict(c, dispatcher="asyncore")


def _enum_net_async_double():
    yield {"sub": "net_async", "ops": [["connect_request"], ["connect_request"], ["established", 0], ["established", 0], ["data", 0], ["loop"]]}
    yield {"sub": "net_async", "ops": [["connect_request"], ["established", 0], ["connect_request"], ["data", 0], ["peer_close", 0], ["loop"],
                                       ["connect_request"], ["established", 0], ["send"]]}
    yield {"sub": "net_async", "ops": [["connect_request"], ["refused", 0], ["loop"], ["connect_request"], ["connect_request"], ["established", 0],
                                       ["disconnect_request"], ["loop"], ["connect_request"], ["established", 0], ["data", 0]]}
    yield {"sub": "net_async", "ops": [["connect_request"], ["connect_request", "api"], ["established", 0], ["established", 0], ["data", 0], ["loop"]]}
    yield {"sub": "net_async", "ops": [["connect_request", "api"], ["established", 0], ["connect_request", "api"], ["data", 0], ["peer_close", 0], ["loop"]]}
    yield {"sub": "net_async", "ops": [["connect_request", "raises"], ["connect_request"], ["established", 0], ["data", 0], ["peer_close", 0], ["loop"],
                                       ["connect_request", "raises"], ["connect_request", "raises"], ["connect_request"], ["established", 0], ["send"]]}
    yield {"sub": "net_async", "ops": [["connect_request"], ["disconnect_request"], ["connect_request"], ["established", 0], ["established", 0],
                                       ["data", 0], ["data", 1]]}


def plan(tier):
    quick = tier == "quick"
    return {
        "shards": 16,
        "enumerations": [("basic_histories", _enum_basic), ("net_async_basic", _enum_net_async)],
        "strategies": [("histories", case_strategy(), 90 if quick else 2400),
                       ("keepalive_histories", case_strategy(keepalive_ops_strategy()), 40 if quick else 1200),
                       ("net_async", net_async_strategy(), 150 if quick else 6000)],
        "shrink": "ddmin",
        "budget_s": 170 if quick else 1800,
    }

RULE += (" The asynchronous histories (net_async) run over a callback-level dispatcher double and over the library's own AsyncoreConnectionDispatcher (socket double, asyncore's event methods driven by the history).")
