"""C06 - exactly-once routing of stanzas and entities through the assembled protocol layer set.

For every catalogue record and every configuration (16 optional-module selections x with/without the encryption layers):
  upward   - an incoming stanza of a supported kind produces exactly one entity of the catalogued class at the application,
             whose serialisation matches the stanza (C09's comparator); with the owning module left out: nothing, no error
  downward - an entity the application sends leaves the protocol layers as exactly one stanza equal to its serialisation;
             with the owning module left out: nothing, no error
Replies a layer sends down while handling an incoming stanza belong to C07 and are ignored here.
"""
import itertools

from .. import compat  # noqa: F401
from ..core import Outcome
from ..gen import entities as E
from ..gen import shapes as S
from ..gen import stanzas as G
from ..kit import trees as T
from ..kit.protokit import ProtoRig, FLAG_NAMES
from . import c09
from hypothesis import strategies as st

ID = "C06"
LEVEL = "exploration"
RULE = ("kinds = every catalogue record with route 'unsolicited' (incoming) or 'app' (outgoing); for each generated stanza / "
        "constructor-argument draw the complete grid of 32 configurations (groups/media/privacy/profiles on/off x encryption "
        "layers present/absent) is executed. Outgoing message entities are only checked without the encryption layers (with them "
        "they continue into C03). Two-step kinds: a text payload that carries a sender key next to its content, and 1-3 receipts "
        "(delivery / read / played) for a message this client sent itself before (one-to-one and group; with the encryption layers "
        "the key and group-info requests of that send are answered by a simulated contact). Non-trivial = the stanza tag is claimed by two or more layers (iq, message, notification) or the "
        "configuration is not all-on; every (draw, configuration) pair counts as one evaluation, distinct by construction of the "
        "grid and de-duplicated on the draw by canonical JSON.")
ASSUMPTIONS = [
    "the routing table (kind -> owning module -> entity class) is the entity catalogue pinned in vlib/gen/entities_catalog*.py",
    "incoming message stanzas carry a plaintext proto child, which is what reaches the protocol layers in both configurations",
]

ALL_CONFIGS = [list(bits) + [ax] for ax in (False, True) for bits in itertools.product([True, False], repeat=4)]
MULTI_TAGS = ("iq", "message", "notification")


def in_records():
    return [r for r in E.RECV if r.route == "unsolicited" and r.module != "axolotl"]


def out_records():
    return [r for r in E.SEND if r.route == "app" and r.module != "axolotl"]


# ---- message payloads that carry a sender key next to their content (what a group member receives when the sender answers
# its retry request): the application must still get exactly one entity with the content
def _payload_with_sender_key(kind, text):
    from yowsup.layers.protocol_messages.proto.e2e_pb2 import Message
    m = Message()
    m.sender_key_distribution_message.group_id = "4915100000021-1500000001@g.us"
    m.sender_key_distribution_message.axolotl_sender_key_distribution_message = b"\x33" * 40
    if kind == "text":
        m.conversation = text
    elif kind == "link":
        m.extended_text_message.text = text
        m.extended_text_message.matched_text = "http://example.org"
    elif kind == "location":
        m.location_message.degrees_latitude = 1.5
        m.location_message.degrees_longitude = 2.5
        m.location_message.name = text
    return m.SerializeToString()


SK_KINDS = {"text": ("text", None, "basic"), "link": ("text", None, "basic"), "location": ("media", "location", "media")}


def sender_key_shape(kind):
    mtype, mediatype, module = SK_KINDS[kind]
    blob = S.Kind("PAYLOAD_SK_" + kind, S.TEXT.strategy.map(lambda t, _k=kind: json_text_payload(_k, t)), is_bytes=True)
    attrs = {"from": S.GJID, "participant": S.JID, "id": S.ID, "t": S.TS, "type": S.CONST(mtype), "notify": S.OPT(S.TEXT)}
    pattrs = {"mediatype": S.CONST(mediatype)} if mediatype else {}
    return S.N("message", attrs, children=[S.N("proto", pattrs, data=blob)])


def json_text_payload(kind, text):
    return _payload_with_sender_key(kind, text)


def run_sender_key_case(case, out):
    kind = case["kind"]
    mtype, mediatype, module = SK_KINDS[kind]
    tree = G.materialize(case["tree"])
    configs = case.get("configs") or ALL_CONFIGS
    evals = nt = 0
    out.label("in", "sender_key_with_content:" + kind)
    for cfg in configs:
        flags, axolotl = cfg[:4], bool(cfg[4])
        on = True if module == "basic" else flags[FLAG_NAMES.index(module)]
        single = dict(case, configs=[cfg])
        rig = ProtoRig(flags, axolotl)
        try:
            try:
                rig.inject(T.to_node(tree))
            except Exception as e:
                out.fail("up", "up:sender_key_with_content:%s:raises:%s" % (kind, type(e).__name__), {"error": repr(e)[:300], "config": cfg}, case=single)
                return out
            got = list(rig.top.got)
        finally:
            rig.close()
        if on and len(got) != 1:
            out.fail("up", "up:sender_key_with_content:%s:%s" % (kind, "not_delivered" if not got else "delivered_%d_times" % len(got)),
                     {"config": cfg}, case=single)
            return out
        if not on and got:
            out.fail("up", "up:sender_key_with_content:%s:delivered_although_module_off" % kind, {"config": cfg}, case=single)
            return out
        if on:
            e = got[0]
            if e.getId() != tree[1]["id"] or e.getFrom() != tree[1]["from"] or e.getParticipant() != tree[1]["participant"]:
                out.fail("up", "up:sender_key_with_content:%s:meta_differs" % kind, {"config": cfg}, case=single)
                return out
        evals += 1
        nt += 1
    out.evals = max(1, evals)
    out.nontrivial_n = nt
    return out


# ---- receipts for a message this client sent itself: with the encryption layers the sent message is remembered (for retries), and the
# receipts of the recipient(s) must still reach the application, one entity each
OWN_GROUP = "4915100000021-1500000001@g.us"
OWN_MEMBERS = ["4915100000022@s.whatsapp.net", "4915100000023@s.whatsapp.net"]


def run_own_receipt_case(case, out):
    from yowsup.layers.protocol_messages.protocolentities import TextMessageProtocolEntity
    from ..kit import peerkeys
    configs = case.get("configs") or ALL_CONFIGS
    group = bool(case["group"])
    out.label("in", "receipt_for_own_message:" + ("group" if group else "direct"))
    evals = nt = 0
    for cfg in configs:
        flags, axolotl = cfg[:4], bool(cfg[4])
        single = dict(case, configs=[cfg])
        rig = ProtoRig(flags, axolotl)
        try:
            to = OWN_GROUP if group else OWN_MEMBERS[0]
            ent = TextMessageProtocolEntity(case["body"], to=to)
            try:
                rig.send(ent)
                for _ in range(4):
                    reqs = [n for n in rig.bottom.sent if n.tag == "iq" and n["type"] == "get" and not getattr(n, "_answered", False)]
                    if not reqs:
                        break
                    for req in reqs:
                        req._answered = True
                        if req["xmlns"] == "encrypt":
                            jids = [u["jid"] for u in req.getChild("key").getAllChildren()]
                            rig.inject(T.to_node(peerkeys.keys_result(req["id"], jids)))
                        elif req["xmlns"] == "w:g2":
                            rig.inject(T.to_node(peerkeys.group_info_result(req["id"], req["to"], ["4915100000021@s.whatsapp.net"] + OWN_MEMBERS)))
            except Exception as e:
                out.fail("down", "down:own_message:raises:%s" % type(e).__name__, {"error": repr(e)[:300], "config": cfg}, case=single)
                return out
            left = [n for n in rig.bottom.sent if n.tag == "message" and n["id"] == ent.getId()]
            if len(left) != 1:
                out.fail("down", "down:own_message:%s" % ("not_sent" if not left else "sent_%d_times" % len(left)), {"config": cfg}, case=single)
                return out
            for k, r in enumerate(case["receipts"]):
                attrs = {"id": ent.getId(), "t": r["t"]}
                if r.get("type"):
                    attrs["type"] = r["type"]
                if group:
                    attrs["from"] = OWN_GROUP
                    attrs["participant"] = OWN_MEMBERS[r["who"] % len(OWN_MEMBERS)]
                else:
                    attrs["from"] = OWN_MEMBERS[0]
                before = len(rig.top.got)
                try:
                    rig.inject(T.to_node(("receipt", attrs, None)))
                except Exception as e:
                    out.fail("up", "up:receipt_for_own_message:raises:%s" % type(e).__name__, {"error": repr(e)[:300], "config": cfg}, case=single)
                    return out
                got = [e for e in rig.top.got[before:]]
                recs = [e for e in got if getattr(e, "getTag", lambda: None)() == "receipt"]
                if len(recs) != 1 or len(got) != 1:
                    out.fail("up", "up:receipt_for_own_message:%s" % ("not_delivered" if not recs else "delivered_%d_times" % len(recs)),
                             {"config": cfg, "receipt": k, "attrs": attrs, "got": [type(g).__name__ for g in got]}, case=single)
                    return out
                e = recs[0]
                if e.getId() != attrs["id"] or e.getFrom() != attrs["from"] or e.getType() != attrs.get("type") \
                        or e.getParticipant() != attrs.get("participant"):
                    out.fail("up", "up:receipt_for_own_message:fields_differ", {"config": cfg, "attrs": attrs}, case=single)
                    return out
        finally:
            rig.close()
        evals += 1
        nt += 1
    out.evals = max(1, evals)
    out.nontrivial_n = nt
    return out


def run_ping_reply_case(case, out):
    """the answer to a ping - the application's own or the one the library's keep-alive sends (announced to the outstanding-ping
    queue first, as the ping thread does) - is an incoming stanza like any other: exactly one result entity at the application
    side, with the stanza's fields"""
    from yowsup.layers.protocol_iq import YowIqProtocolLayer
    from yowsup.layers.protocol_iq.protocolentities import PingIqProtocolEntity, IqProtocolEntity, ErrorIqProtocolEntity
    configs = case.get("configs") or ALL_CONFIGS
    out.label("in", "ping_reply:" + case["who"], "ping_reply:" + case["reply"])
    evals = 0
    for cfg in configs:
        flags, axolotl = cfg[:4], bool(cfg[4])
        single = dict(case, configs=[cfg])
        rig = ProtoRig(flags, axolotl)
        try:
            iql = None
            for i in range(1, 6):
                try:
                    layer = rig.stack.getLayer(i)
                except IndexError:
                    break
                for sub_ in getattr(layer, "sublayers", []) or []:
                    if isinstance(sub_, YowIqProtocolLayer):
                        iql = sub_
            pings = []
            try:
                for k in range(case.get("n", 1)):
                    ping = PingIqProtocolEntity()
                    pings.append(ping)
                    if case["who"] == "keepalive":
                        if k == 0:
                            iql.waitPong(ping.getId())
                        iql.sendIq(ping)
                    else:
                        rig.send(ping)
            except Exception as e:
                out.fail("down", "down:ping:raises:%s" % type(e).__name__, {"error": repr(e)[:300], "config": cfg}, case=single)
                return out
            for ping in pings:
                attrs = {"id": ping.getId(), "type": case["reply"], "from": "s.whatsapp.net"}
                kids = None
                if case["reply"] == "error":
                    kids = [("error", {"code": str(case.get("code", 500)), "text": "internal-server-error"}, None)]
                elif case.get("xmlns"):
                    attrs["xmlns"] = "w:p"
                before = len(rig.top.got)
                try:
                    rig.inject(T.to_node(("iq", attrs, kids)))
                except Exception as e:
                    out.fail("up", "up:ping_reply:raises:%s" % type(e).__name__, {"error": repr(e)[:300], "config": cfg, "who": case["who"]}, case=single)
                    return out
                got = rig.top.got[before:]
                # (the result entity the iq layer builds is a plain IqProtocolEntity of type result: the fields are what counts)
                ok = len(got) == 1 and isinstance(got[0], IqProtocolEntity) and got[0].getId() == ping.getId() and got[0].getType() == case["reply"] \
                    and (case["reply"] != "error" or isinstance(got[0], ErrorIqProtocolEntity) and str(got[0].code) == str(case.get("code", 500)))
                if not ok:
                    out.fail("up", "up:ping_reply:%s" % ("not_delivered" if not got else "delivered_%d_times" % len(got) if len(got) > 1 else "wrong_entity"),
                             {"config": cfg, "who": case["who"], "got": [type(g).__name__ for g in got]}, case=single)
                    return out
        finally:
            rig.close()
        evals += 1
    out.evals = max(1, evals)
    out.nontrivial_n = evals
    return out


def reply_records():
    import copy
    send = {r.name for r in E.SEND}
    recs = [r for r in E.RECV if r.route == "reply" and r.request in send and r.module != "axolotl"]
    # a sync result also arrives as the answer to the application's sync request (the contacts layer registers that request);
    # the catalogue lists it as unsolicited because it goes up without a request as well
    sync = copy.copy(E.by_name("ResultSyncIqProtocolEntity"))
    sync.route, sync.request = "reply", "GetSyncIqProtocolEntity"
    return recs + ([sync] if sync.request in send else [])


def run_reply_case(case, out):
    """the reply to a request the application sent is an incoming stanza of a supported kind: exactly one entity of the kind that
    belongs to that request arrives at the application side, carrying the reply's fields"""
    rec = E.by_name(case["name"])
    cls = rec.load()
    req = E.by_name(case["request"])
    req_cls = req.load()
    configs = case.get("configs") or ALL_CONFIGS
    out.label("in", "reply:" + rec.name, "owner=" + str(rec.owner), "module=" + rec.module)
    evals = 0
    for cfg in configs:
        flags, axolotl = cfg[:4], bool(cfg[4])
        if not module_on(rec, cfg):
            continue
        single = dict(case, configs=[cfg])
        rig = ProtoRig(flags, axolotl)
        try:
            args = [S.unjson_val(a) for a in case["args"]]
            kwargs = {k: S.unjson_val(v) for k, v in case["kwargs"].items()}
            try:
                ent = req_cls(*args, **kwargs)
                rig.send(ent)
            except Exception as e:
                out.fail("down", "down:%s:raises:%s" % (req.name, type(e).__name__), {"error": repr(e)[:300], "config": cfg}, case=single)
                return out
            sent = [n for n in rig.bottom.sent if n.tag == "iq" and n["id"] == ent.getId()]
            if len(sent) != 1:
                out.fail("down", "down:%s:%s" % (req.name, "not_sent" if not sent else "sent_%d_times" % len(sent)), {"config": cfg}, case=single)
                return out
            tree = G.materialize(case["tree"])
            tree = (tree[0], dict(tree[1], id=ent.getId()), tree[2])
            before = len(rig.top.got)
            try:
                rig.inject(T.to_node(tree))
            except Exception as e:
                out.fail("up", "up:reply:%s:raises:%s" % (rec.name, type(e).__name__), {"error": repr(e)[:300], "config": cfg, "request": req.name}, case=single)
                return out
            again = [n for n in rig.bottom.sent if n.tag == "iq" and n["id"] == ent.getId()]
            if len(again) != 1:
                # one entity sent, one stanza out: the reply arriving does not make the request leave the stack once more
                out.fail("down", "down:%s:sent_%d_times_once_the_reply_arrived" % (req.name, len(again)), {"config": cfg, "reply": rec.name}, case=single)
                return out
            got = rig.top.got[before:]
            if len(got) != 1:
                out.fail("up", "up:reply:%s:%s" % (rec.name, "not_delivered" if not got else "delivered_%d_times" % len(got)),
                         {"config": cfg, "request": req.name, "got": [type(g).__name__ for g in got]}, case=single)
                return out
            e = got[0]
            # (the plain result entity the iq layer hands up is an IqProtocolEntity of type result)
            plain_result = rec.name == "ResultIqProtocolEntity" and type(e).__name__ == "IqProtocolEntity" and e.getType() == "result"
            if not isinstance(e, cls) and type(e).__name__ != cls.__name__ and not plain_result:
                out.fail("up", "up:reply:%s:wrong_entity_class" % rec.name, {"config": cfg, "request": req.name, "got": type(e).__name__}, case=single)
                return out
            try:
                back = e.toProtocolTreeNode()
            except Exception as ex:
                out.fail("up", "up:reply:%s:entity_unserialisable:%s" % (rec.name, type(ex).__name__), {"error": repr(ex)[:200]}, case=single)
                return out
            d = c09.loose_diff(T.to_node(tree), back, "", getattr(rec, "numeric_tags", ()))
            if d:
                out.fail("up", "up:reply:%s:fields_differ:%s" % (rec.name, d[0]), {"config": cfg, "diff": d[1], "request": req.name}, case=single)
                return out
        finally:
            rig.close()
        evals += 1
    out.evals = max(1, evals)
    out.nontrivial_n = evals
    return out


def module_on(rec, cfg):
    if rec.module in FLAG_NAMES:
        return cfg[FLAG_NAMES.index(rec.module)]
    return True


def run_case(case):
    """(the case is evaluated a second time with the library's loggers at DEBUG - what `yowsup-cli -d` and applications that are
    being debugged run with: routing does not depend on the logging configuration)"""
    out = _run_case(case)
    if not out.violations and case["sub"] in ("in", "out") and case.get("debug_logging"):
        import logging
        lg = logging.getLogger("yowsup.layers.logger.layer")
        handler = logging.NullHandler()
        saved = (lg.level, lg.propagate)
        lg.addHandler(handler)
        lg.propagate = False          # formatted, then swallowed: nothing of it reaches the check's own output
        lg.setLevel(logging.DEBUG)
        try:
            configs = case.get("configs") or ALL_CONFIGS
            out2 = _run_case(dict(case, configs=configs[:4] + configs[16:20]))
        finally:
            lg.setLevel(saved[0])
            lg.propagate = saved[1]
            lg.removeHandler(handler)
        out.label("also_with_debug_logging")
        for v in out2.violations:
            out.fail(v.kind, "debug_logging:" + v.key, v.detail, case=v.case)
        out.evals += out2.evals
    return out


def _run_case(case):
    out = Outcome()
    if case["sub"] == "in_sender_key":
        return run_sender_key_case(case, out)
    if case["sub"] == "in_own_receipt":
        return run_own_receipt_case(case, out)
    if case["sub"] == "in_ping_reply":
        return run_ping_reply_case(case, out)
    if case["sub"] == "in_reply":
        return run_reply_case(case, out)
    rec = E.by_name(case["name"])
    cls = rec.load()
    configs = case.get("configs") or ALL_CONFIGS
    nt = 0
    evals = 0
    out.label(case["sub"], "owner=" + str(rec.owner), "module=" + rec.module)
    for cfg in configs:
        flags, axolotl = cfg[:4], bool(cfg[4])
        on = module_on(rec, cfg)
        single = dict(case, configs=[cfg])
        if case["sub"] == "in":
            tree = G.materialize(case["tree"])
            tag = tree[0]
            wire_tree = tree
            if case.get("unnamed_first_child") and isinstance(tree[2], list):
                # the stanza carries a child the library has no name for in front of the one that says what it is: still this kind
                wire_tree = (tree[0], tree[1], [(case["unnamed_first_child"], {}, None)] + list(tree[2]))
                out.label("unnamed_child_in_front")
            rig = ProtoRig(flags, axolotl)
            try:
                try:
                    rig.inject(T.to_node(wire_tree))
                except Exception as e:
                    out.fail("up", "up:%s:raises:%s:%s" % (rec.name, type(e).__name__, "module_on" if on else "module_off"),
                             {"error": repr(e)[:300], "config": cfg}, case=single)
                    return out
                got = list(rig.top.got)
            finally:
                rig.close()
            if not on:
                if got:
                    out.fail("up", "up:%s:delivered_although_module_off" % rec.name,
                             {"config": cfg, "got": [type(g).__name__ for g in got]}, case=single)
                    return out
            else:
                if len(got) != 1:
                    out.fail("up", "up:%s:%s" % (rec.name, "not_delivered" if not got else "delivered_%d_times" % len(got)),
                             {"config": cfg, "got": [type(g).__name__ for g in got]}, case=single)
                    return out
                ent = got[0]
                if not isinstance(ent, cls) and not (hasattr(ent, "getTag") and type(ent).__name__ == cls.__name__):
                    out.fail("up", "up:%s:wrong_entity_class" % rec.name, {"config": cfg, "got": type(ent).__name__,
                                                                          "expected": getattr(cls, "__name__", str(cls))}, case=single)
                    return out
                try:
                    back = ent.toProtocolTreeNode()
                except Exception as e:
                    out.fail("up", "up:%s:entity_unserialisable:%s" % (rec.name, type(e).__name__), {"error": repr(e)[:200]}, case=single)
                    return out
                d = c09.loose_diff(T.to_node(tree), back, "", getattr(rec, "numeric_tags", ()))
                if d:
                    out.fail("up", "up:%s:fields_differ:%s" % (rec.name, d[0]), {"config": cfg, "diff": d[1]}, case=single)
                    return out
        else:
            args = [S.unjson_val(a) for a in case["args"]]
            kwargs = {k: S.unjson_val(v) for k, v in case["kwargs"].items()}
            ent = cls(*args, **kwargs)
            tag = ent.getTag()
            if tag == "message" and axolotl:
                continue
            expected = ent.toProtocolTreeNode()
            rig = ProtoRig(flags, axolotl)
            try:
                try:
                    rig.send(ent)
                except Exception as e:
                    out.fail("down", "down:%s:raises:%s:%s" % (rec.name, type(e).__name__, "module_on" if on else "module_off"),
                             {"error": repr(e)[:300], "config": cfg}, case=single)
                    return out
                sent = list(rig.bottom.sent)
            finally:
                rig.close()
            if not on:
                if sent:
                    out.fail("down", "down:%s:sent_although_module_off" % rec.name, {"config": cfg, "n": len(sent)}, case=single)
                    return out
            else:
                if len(sent) != 1:
                    out.fail("down", "down:%s:%s" % (rec.name, "not_sent" if not sent else "sent_%d_times" % len(sent)),
                             {"config": cfg, "tags": [getattr(s, "tag", type(s).__name__) for s in sent]}, case=single)
                    return out
                d = c09.loose_diff(expected, sent[0]) or c09.loose_diff(sent[0], expected)
                if d:
                    out.fail("down", "down:%s:stanza_differs:%s" % (rec.name, d[0]), {"config": cfg, "diff": d[1]}, case=single)
                    return out
        evals += 1
        if tag in MULTI_TAGS or not (all(flags)):
            nt += 1
    out.evals = max(1, evals)
    out.nontrivial_n = nt
    return out


def nontrivial(case, out):
    return True


def plan(tier):
    quick = tier == "quick"
    strategies = []
    n = 1 if quick else 20
    for r in in_records():
        strategies.append(("in:" + r.name,
                           S.shape_strategy(r.shape).map(lambda t, _n=r.name: {"sub": "in", "name": _n, "tree": S.tree_to_json(t), "debug_logging": True}), n))
    for r in out_records():
        strategies.append(("out:" + r.name,
                           S.args_strategy(r.args, r.kwargs).map(lambda ak, _n=r.name: {"sub": "out", "name": _n, "args": ak[0], "kwargs": ak[1], "debug_logging": True}), n))
    for r in in_records():
        if isinstance(r.shape.tag, str) and r.shape.tag in ("ib", "call"):
            strategies.append(("in_with_unnamed_child_in_front:" + r.name,
                               st.tuples(S.shape_strategy(r.shape), st.sampled_from(["x", "edge_routing", "meta"])).map(
                                   lambda t, _n=r.name: {"sub": "in", "name": _n, "tree": S.tree_to_json(t[0]), "unnamed_first_child": t[1]}), max(n, 2)))
    for kind in SK_KINDS:
        strategies.append(("in_sender_key:" + kind,
                           S.shape_strategy(sender_key_shape(kind)).map(lambda t, _k=kind: {"sub": "in_sender_key", "kind": _k,
                                                                                            "tree": S.tree_to_json(t)}), n))
    receipt = st.fixed_dictionaries({"t": S.TS.strategy, "type": st.sampled_from([None, None, "read", "played"]), "who": st.integers(0, 3)})
    for group in (False, True):
        strategies.append(("in_own_receipt:" + ("group" if group else "direct"),
                           st.builds(lambda body, rs, _g=group: {"sub": "in_own_receipt", "group": _g, "body": body, "receipts": rs},
                                     S.TEXT.strategy, st.lists(receipt, min_size=1, max_size=3)), n))
    for r in reply_records():
        q = E.by_name(r.request)
        strategies.append(("in_reply:" + r.name,
                           st.tuples(S.shape_strategy(r.shape), S.args_strategy(q.args, q.kwargs)).map(
                               lambda t, _n=r.name, _q=q.name: {"sub": "in_reply", "name": _n, "request": _q, "tree": S.tree_to_json(t[0]),
                                                                "args": t[1][0], "kwargs": t[1][1]}), n))
    strategies.append(("in_ping_reply",
                       st.builds(lambda who, reply, n, x, code: {"sub": "in_ping_reply", "who": who, "reply": reply, "n": n, "xmlns": x, "code": code},
                                 st.sampled_from(["keepalive", "application"]), st.sampled_from(["result", "result", "error"]), st.integers(1, 3),
                                 st.booleans(), st.integers(400, 599)), n))
    return {
        "shards": 16,
        "enumerations": [("ping_replies", lambda: iter([{"sub": "in_ping_reply", "who": w, "reply": r, "n": 1} for w in ("keepalive", "application")
                                                        for r in ("result", "error")]))],
        "strategies": strategies,
        "shrink": "hypothesis",
        "budget_s": 200 if quick else 1800,
        "collect_all": True,
    }

RULE += (" Also: every reply kind of the catalogue (15) as an incoming stanza after its request was sent from the top (in_reply), replies to the application's and the keep-alive's ping (in_ping_reply); every case is evaluated a second time with the logger layer at DEBUG.")
RULE += (" ib and call stanzas also with a child of an unknown kind in front of the one that names the kind.")
