"""C15 - media cipher: lossless round trip, tamper detection, WhatsApp-compatible layout.

Reference: HKDF-SHA256 (RFC 5869, zero salt, info = kind string, 112 bytes) written with stdlib hmac;
iv = okm[0:16], key = okm[16:48], mac key = okm[48:80]; AES-256-CBC with unconditional PKCS7;
tag = HMAC-SHA256(mac key, iv || ciphertext)[:10].  The reference must reproduce the real WhatsApp
sample pinned from the repository's media test before any run (else harness error).
"""
import os
import hmac
import json
import base64
import hashlib

from .. import compat  # noqa: F401
from ..core import Outcome, HarnessError
from hypothesis import strategies as st
from cryptography.hazmat.primitives.ciphers import Cipher, algorithms, modes
from cryptography.hazmat.backends import default_backend

from yowsup.layers.protocol_media.mediacipher import MediaCipher

ID = "C15"
LEVEL = "exploration"
RULE = ("round trip + two-way differential against the reference for every plaintext length 0..64 x 4 media kinds x 2 keys "
        "(enumerated) and generated lengths up to 64 KiB (1 MiB thorough) biased to multiples of 16 +-1 with generated keys; "
        "tampering: for lengths {0,1,15,16,17,31,32,33,48} every byte position of ciphertext||tag x masks {01,80,ff}, every "
        "truncation length, every key byte x masks {01,80}, each other media kind (enumerated), plus generated tamper cases. "
        "Shared object: 2-3 tasks of the deterministic scheduler (1-2 calls each: encrypt, decrypt, decrypt of a ciphertext made with another key and kind) use ONE MediaCipher, preempted at generated line/call yield points inside mediacipher.py (complete for one preemption and six pairs of calls); every result is compared with the reference. "
        "Non-trivial = plaintext length is a multiple of 16 (incl. 0) or the case is a tamper case, or a shared-object case with at least one preemption. Distinct = distinct "
        "canonical JSON; aggregate enumerations count their distinct inner executions.")
ASSUMPTIONS = [
    "the `cryptography` AES-CBC primitive and stdlib hmac/hashlib are trusted",
    "the WhatsApp layout is the one that reproduces the real sample stored in the repository's media test",
]

KINDS = ["image", "audio", "video", "document"]
INFO = {"image": b"WhatsApp Image Keys", "audio": b"WhatsApp Audio Keys", "video": b"WhatsApp Video Keys",
        "document": b"WhatsApp Document Keys"}
_mc = MediaCipher()


def ref_derive(key, info):
    prk = hmac.new(b"\x00" * 32, key, hashlib.sha256).digest()
    okm = b""
    t = b""
    i = 1
    while len(okm) < 112:
        t = hmac.new(prk, t + info + bytes([i]), hashlib.sha256).digest()
        okm += t
        i += 1
    okm = okm[:112]
    return okm[0:16], okm[16:48], okm[48:80]


def ref_encrypt(plaintext, key, kind):
    iv, k, mk = ref_derive(key, INFO[kind])
    pad = 16 - len(plaintext) % 16
    padded = plaintext + bytes([pad]) * pad
    enc = Cipher(algorithms.AES(k), modes.CBC(iv), backend=default_backend()).encryptor()
    ct = enc.update(padded) + enc.finalize()
    tag = hmac.new(mk, iv + ct, hashlib.sha256).digest()[:10]
    return ct + tag


def ref_decrypt(blob, key, kind):
    iv, k, mk = ref_derive(key, INFO[kind])
    ct, tag = blob[:-10], blob[-10:]
    if len(blob) < 26 or len(ct) % 16 or not hmac.compare_digest(tag, hmac.new(mk, iv + ct, hashlib.sha256).digest()[:10]):
        raise ValueError("reference: bad mac/length")
    dec = Cipher(algorithms.AES(k), modes.CBC(iv), backend=default_backend()).decryptor()
    p = dec.update(ct) + dec.finalize()
    n = p[-1]
    if not 1 <= n <= 16 or p[-n:] != bytes([n]) * n:
        raise ValueError("reference: bad padding")
    return p[:-n]


def selftest():
    with open(os.path.join(os.path.dirname(__file__), "..", "ref", "media_sample.json")) as f:
        s = json.load(f)
    key, pt, ct = (base64.b64decode(s[k]) for k in ("key", "plaintext", "ciphertext"))
    if ref_encrypt(pt, key, "image") != ct:
        raise HarnessError("reference media cipher does not reproduce the pinned WhatsApp sample (encrypt)")
    if ref_decrypt(ct, key, "image") != pt:
        raise HarnessError("reference media cipher does not reproduce the pinned WhatsApp sample (decrypt)")


def plaintext_of(n, seed):
    if seed == 0:
        return bytes(n)
    if seed == 1:
        return b"\x10" * n          # looks like PKCS7 padding
    if seed == 2:
        return (b"\x01" * 16 + b"\x0f" * 15 + b"\x02")[:n] if n <= 32 else (bytes(range(256)) * (n // 256 + 1))[:n]
    return hashlib.shake_256(b"c15-%d-%d" % (n, seed)).digest(n)


def key_of(case):
    return bytes.fromhex(case["key"]) if "key" in case else hashlib.sha256(b"key%d" % case.get("keyseed", 0)).digest()


def lib_encrypt(pt, key, kind, wrapper):
    if wrapper:
        return getattr(MediaCipher(), "encrypt_" + kind)(pt, key)
    return MediaCipher().encrypt(pt, key, getattr(MediaCipher, {"image": "INFO_IMAGE", "audio": "INFO_AUDIO", "video": "INFO_VIDEO",
                                                      "document": "INFO_DOCUM"}[kind]))


def lib_decrypt(blob, key, kind, wrapper=True):
    if wrapper:
        return getattr(MediaCipher(), "decrypt_" + kind)(blob, key)
    return MediaCipher().decrypt(blob, key, getattr(MediaCipher, {"image": "INFO_IMAGE", "audio": "INFO_AUDIO", "video": "INFO_VIDEO",
                                                        "document": "INFO_DOCUM"}[kind]))


def _roundtrip(out, n, seed, key, kind, wrapper, content=None, buffer=None, named_file=None):
    if named_file:
        # content is content, also when it reads like the name of a file that exists on this machine (a text file holding a path, a
        # one-line note "setup.py"): what is encrypted is these bytes, not whatever the file system holds under that name
        import tempfile
        d = tempfile.mkdtemp(prefix="verif_c15_")
        cwd = os.getcwd()
        try:
            with open(os.path.join(d, "media.bin"), "wb") as f:
                f.write(plaintext_of(max(n, 1), seed) + b"-the file's content, not the message's")
            if named_file == "relative":
                os.chdir(d)
            out.label("content_is_the_name_of_an_existing_file:" + named_file)
            return _roundtrip(out, n, seed, key, kind, wrapper, buffer=buffer,
                              content={"literal": (b"media.bin" if named_file == "relative" else os.fsencode(os.path.join(d, "media.bin"))).hex()})
        finally:
            os.chdir(cwd)
            import shutil
            shutil.rmtree(d, ignore_errors=True)
    pt = plaintext_of(n, seed)
    ctx = {"n": n, "kind": kind, "seed": seed}
    if content is not None and "literal" in content:
        pt = bytes.fromhex(content["literal"])
        ctx["content"] = "literal bytes " + repr(pt[-20:])
        content = None
    if buffer:
        ctx["buffer"] = buffer
        out.label("content_given_as=" + buffer)
    if content is not None:
        # the content is itself an encrypted file: of the same content under the same key and kind (a received file sent on as it
        # is), under another key, or of another kind - content is content, it is encrypted like any other bytes
        inner_key = key if content["key"] == "same" else bytes(reversed(key))
        inner_kind = kind if content["kind"] == "same" else KINDS[(KINDS.index(kind) + 1) % 4]
        pt = ref_encrypt(pt, inner_key, inner_kind)
        ctx["content"] = "an encrypted file (%s key, %s kind)" % (content["key"], content["kind"])
        out.label("content_is_an_encrypted_file", "content_is_an_encrypted_file:%s_key_%s_kind" % (content["key"], content["kind"]))
    # the file content may be handed over in a buffer the application keeps (a bytearray it read the file into, a view of it): the
    # same buffer encrypted a second time - another recipient, a retried upload - is the same content again
    given = pt if not buffer else bytearray(pt) if buffer == "bytearray" else memoryview(bytearray(pt))
    try:
        blob = lib_encrypt(given, key, kind, wrapper)
        if buffer:
            again = lib_encrypt(given, key, kind, wrapper)
            if bytes(again) != bytes(blob):
                out.fail("roundtrip", "roundtrip:same_buffer_encrypted_again_gives_other_ciphertext",
                         dict(ctx, first_len=len(blob), second_len=len(again)))
                return None
    except Exception as e:
        out.fail("roundtrip", "encrypt_raises:%s" % type(e).__name__, dict(ctx, error=repr(e)))
        return None
    expect = ref_encrypt(pt, key, kind)
    if bytes(blob) != expect:
        which = "length" if len(blob) != len(expect) else ("tag" if blob[:-10] == expect[:-10] else "ciphertext")
        out.fail("layout", "layout:library_ciphertext_differs_from_reference:%s" % which,
                 dict(ctx, lib_len=len(blob), ref_len=len(expect)))
    try:
        back = lib_decrypt(bytes(blob), key, kind, wrapper)
        if bytes(back) != pt:
            out.fail("roundtrip", "roundtrip:differs", dict(ctx, got_len=len(back)))
    except Exception as e:
        out.fail("roundtrip", "roundtrip:decrypt_of_own_ciphertext_raises:%s" % type(e).__name__, dict(ctx, error=repr(e)))
    # library decrypts reference ciphertext
    try:
        back = lib_decrypt(expect, key, kind, wrapper)
        if bytes(back) != pt:
            out.fail("layout", "layout:reference_ciphertext_decrypts_differently", dict(ctx, got_len=len(back)))
    except Exception as e:
        out.fail("layout", "layout:reference_ciphertext_rejected:%s" % type(e).__name__, dict(ctx, error=repr(e)))
    # reference decrypts library ciphertext
    try:
        if ref_decrypt(bytes(blob), key, kind) != pt:
            out.fail("layout", "layout:reference_reads_library_ciphertext_differently", ctx)
    except ValueError as e:
        out.fail("layout", "layout:reference_rejects_library_ciphertext", dict(ctx, error=str(e)))
    return expect


def _must_reject(out, blob, key, kind, what, ctx):
    try:
        r = lib_decrypt(blob, key, kind)
    except Exception:
        return True
    out.fail("tamper", "tamper:%s_accepted" % what, dict(ctx, returned_len=len(r)))
    return False


INFO_ATTR = {"image": "INFO_IMAGE", "audio": "INFO_AUDIO", "video": "INFO_VIDEO", "document": "INFO_DOCUM"}


def _shared(case, out):
    """one cipher object used by several threads at once (the library's callers create it once and call it from wherever media
    arrives): every call must behave as if it ran alone.  The deterministic scheduler runs the calls as tasks that can be
    preempted at every line and call inside mediacipher.py; each result is compared with the independent implementation."""
    from ..kit import sched as SK
    import yowsup.layers.protocol_media.mediacipher as MCM
    saved_threading = getattr(MCM, "threading", None)
    if saved_threading is not None:
        MCM.threading = SK.ThreadingShim()      # whatever locks the cipher uses become scheduler-aware (a real lock would stall the scheduler)
    s = SK.Scheduler(case.get("choices", []), ("protocol_media/mediacipher.py",), trace_lines=True, preempt=case.get("preempt"),
                     max_steps=20000)
    SK.SCHED = s
    mc = MediaCipher()
    tasks = []
    try:
        def mk(ops):
            def run():
                res = []
                for op in ops:
                    kind = KINDS[op["kind"] % 4]
                    key = hashlib.sha256(b"key%d" % op["keyseed"]).digest()
                    pt = plaintext_of(op["n"], op["seed"])
                    info = getattr(MediaCipher, INFO_ATTR[kind])
                    try:
                        if op["op"] == "enc":
                            res.append(("ok", bytes(mc.encrypt(pt, key, info))))
                        elif op["op"] == "dec":
                            res.append(("ok", bytes(mc.decrypt(ref_encrypt(pt, key, kind), key, info))))
                        elif op["op"] == "dec_wrong":
                            # ciphertext of another key and another kind
                            other = ref_encrypt(pt, hashlib.sha256(b"key%d" % (op["keyseed"] + 1)).digest(), KINDS[(op["kind"] + 1) % 4])
                            res.append(("ok", bytes(mc.decrypt(other, key, info))))
                    except Exception as e:
                        res.append(("raised", type(e).__name__))
                return res
            return run
        for i, ops in enumerate(case["tasks"]):
            tasks.append(s.spawn("t%d" % i, mk(ops)))
        state = s.run()
        if state != "done" or s.overrun:
            out.fail("shared", "shared:calls_do_not_finish", {"state": state, "blocked": [str(b) for b in s.blocked()]})
            return out
        for i, (t, ops) in enumerate(zip(tasks, case["tasks"])):
            if t.exc is not None:
                raise t.exc
            for op, (st_, val) in zip(ops, t.result):
                kind = KINDS[op["kind"] % 4]
                key = hashlib.sha256(b"key%d" % op["keyseed"]).digest()
                pt = plaintext_of(op["n"], op["seed"])
                if op["op"] == "enc":
                    if st_ != "ok":
                        out.fail("shared", "shared:encrypt_raises_beside_another_call:%s" % val, {"task": i})
                    elif val != ref_encrypt(pt, key, kind):
                        out.fail("shared", "shared:ciphertext_differs_from_reference_beside_another_call", {"task": i, "n": op["n"]})
                elif op["op"] == "dec":
                    if st_ != "ok":
                        out.fail("shared", "shared:untouched_ciphertext_rejected_beside_another_call:%s" % val, {"task": i})
                    elif val != pt:
                        out.fail("shared", "shared:different_plaintext_beside_another_call", {"task": i})
                elif op["op"] == "dec_wrong" and st_ == "ok":
                    out.fail("shared", "shared:wrong_key_and_kind_accepted_beside_another_call", {"task": i})
        out.label("shared", "switches>0" if s.switches > 1 else "switches=0")
        out.info = {"nt": s.switches > 1}
        return out
    finally:
        s.kill()
        SK.SCHED = None
        SK.ALL_LOCKS[:] = []
        if saved_threading is not None:
            MCM.threading = saved_threading


def _optimised(case, out):
    """the same checks in an interpreter started with -O (assert statements are compiled away there): applications are run
    that way too, and whether a tampered file is rejected must not depend on it"""
    import subprocess
    import sys
    from ..kit import env as envkit
    r = subprocess.run([sys.executable, "-O", "-m", "vlib.props.c15", json.dumps(case["cases"])],
                       cwd=os.path.dirname(os.path.dirname(os.path.dirname(os.path.abspath(__file__)))),
                       stdout=subprocess.PIPE, stderr=subprocess.PIPE, timeout=600,
                       env=dict(os.environ, PYTHONDONTWRITEBYTECODE="1", TMPDIR=envkit.scratch_root()))
    line = [l for l in r.stdout.decode("utf-8", "replace").splitlines() if l.startswith("OUTCOMES ")]
    if r.returncode != 0 or not line:
        raise HarnessError("optimised-interpreter child failed rc=%s: %s" % (r.returncode, r.stderr.decode("utf-8", "replace")[-600:]))
    d = json.loads(line[-1][len("OUTCOMES "):])
    if d["optimize"] < 1:
        raise HarnessError("child interpreter did not run with -O")
    out.label("interpreter_with_-O")
    for inner, o in zip(case["cases"], d["outcomes"]):
        out.label(*["-O:" + l for l in o["labels"][:1]])
        for v in o["violations"]:
            out.fail(v["kind"], "optimised_interpreter:" + v["key"], dict(v["detail"], inner_case=inner))
    out.evals = len(case["cases"])
    return out


def _reuse(case, out):
    """one cipher object used for a whole session (the way the media layer's worker keeps one): calls that are rejected - tampered,
    truncated, wrong key, wrong kind - leave it usable; every later call returns, with the right answer.  A call that does not
    return is run on a helper thread and given ten seconds (a thousand times what it needs) before it counts as stuck."""
    import threading
    mc = MediaCipher()
    out.label("one_cipher_object_reused")
    n_rejected = 0
    for k, step in enumerate(case["steps"]):
        key = hashlib.sha256(b"reuse-%d" % step.get("keyseed", 0)).digest()
        kind = KINDS[step.get("kind", 0) % 4]
        pt = plaintext_of(step.get("n", 20), step.get("seed", 3))
        blob = ref_encrypt(pt, key, kind)
        what = step["what"]
        if what == "tampered":
            t = bytearray(blob)
            t[step.get("pos", 0) % len(t)] ^= 1 + step.get("mask", 0) % 255
            arg, dkey, dkind = bytes(t), key, kind
        elif what == "truncated":
            arg, dkey, dkind = blob[:max(0, len(blob) - 1 - step.get("pos", 0) % len(blob))], key, kind
        elif what == "wrong_key":
            arg, dkey, dkind = blob, hashlib.sha256(key).digest(), kind
        elif what == "wrong_kind":
            arg, dkey, dkind = blob, key, KINDS[(KINDS.index(kind) + 1) % 4]
        else:
            arg, dkey, dkind = blob, key, kind
        box = {}

        def call(_arg=arg, _k=dkey, _kind=dkind, _what=what, _pt=pt):
            try:
                if _what == "encrypt":
                    box["r"] = ("ok", bytes(mc.encrypt(_pt, _k, getattr(MediaCipher, INFO_ATTR[_kind]))))
                else:
                    box["r"] = ("ok", bytes(mc.decrypt(_arg, _k, getattr(MediaCipher, INFO_ATTR[_kind]))))
            except Exception as e:
                box["r"] = ("raised", type(e).__name__)
        th = threading.Thread(target=call, daemon=True)
        th.start()
        th.join(10)
        if "r" not in box:
            out.fail("roundtrip", "reuse:call_does_not_return_after_%d_rejected_call%s" % (n_rejected, "" if n_rejected == 1 else "s"),
                     {"step": k, "what": what, "history": [s["what"] for s in case["steps"][:k + 1]]})
            return out
        status, val = box["r"]
        if what in ("tampered", "truncated", "wrong_key", "wrong_kind"):
            if status == "ok":
                if what == "wrong_key" or what == "wrong_kind":
                    # (1 in 2^80: not expected)
                    pass
                out.fail("integrity", "reuse:%s_blob_accepted" % what, {"step": k})
                return out
            n_rejected += 1
        elif what == "decrypt":
            if status != "ok" or val != pt:
                out.fail("roundtrip", "reuse:valid_blob_%s_after_%d_rejected_calls" % ("rejected" if status != "ok" else "decrypts_differently", n_rejected),
                         {"step": k, "error": val if status != "ok" else None})
                return out
        else:
            if status != "ok" or val != blob:
                out.fail("layout", "reuse:encrypt_%s_after_%d_rejected_calls" % ("raises" if status != "ok" else "differs_from_reference", n_rejected), {"step": k})
                return out
    out.info = {"nt": n_rejected >= 1}
    return out


def run_case(case):
    out = Outcome()
    sub = case["sub"]
    if sub == "shared":
        return _shared(case, out)
    if sub == "reuse":
        return _reuse(case, out)
    if sub == "optimised":
        return _optimised(case, out)
    key = key_of(case)
    kind = KINDS[case.get("kind", 0) % 4]
    n = case.get("n", 0)
    seed = case.get("seed", 3)
    if sub == "rt":
        out.label("rt", "kind=" + kind, "aligned" if n % 16 == 0 else "unaligned",
                  "n=0" if n == 0 else "n<=64" if n <= 64 else "n<=4096" if n <= 4096 else "n>4096")
        _roundtrip(out, n, seed, key, kind, bool(case.get("wrapper", 1)), case.get("content"), case.get("buffer"), case.get("named_file"))
        return out
    pt = plaintext_of(n, seed)
    blob = ref_encrypt(pt, key, kind)   # a ciphertext a real peer would send
    ctx = {"n": n, "kind": kind}
    if sub == "tamper_all":
        # every byte position x masks, every truncation, every key byte, every other kind
        out.label("tamper_all", "aligned" if n % 16 == 0 else "unaligned")
        cnt = 0
        # sanity: the untampered blob must decrypt (otherwise the tamper verdicts mean nothing)
        try:
            ok = bytes(lib_decrypt(blob, key, kind)) == pt
        except Exception:
            ok = False
        if not ok:
            out.fail("layout", "layout:reference_ciphertext_rejected_or_differs", ctx)
            return out
        for pos in range(len(blob)):
            for mask in (0x01, 0x80, 0xFF):
                t = bytearray(blob)
                t[pos] ^= mask
                cnt += 1
                if not _must_reject(out, bytes(t), key, kind, "modified_byte", dict(ctx, pos=pos, mask=mask, blob_len=len(blob))):
                    out.violations[-1].case = {"sub": "tamper", "n": n, "seed": seed, "kind": case.get("kind", 0),
                                               "keyseed": case.get("keyseed", 0), "pos": pos, "mask": mask}
                    out.evals = cnt
                    out.nontrivial_n = cnt
                    return out
        for cut in range(1, len(blob) + 1):
            cnt += 1
            if not _must_reject(out, blob[:-cut], key, kind, "truncated", dict(ctx, cut=cut)):
                out.violations[-1].case = {"sub": "trunc", "n": n, "seed": seed, "kind": case.get("kind", 0),
                                           "keyseed": case.get("keyseed", 0), "cut": cut}
                break
        for cut in range(1, min(len(blob), 40)):
            cnt += 1
            _must_reject(out, blob[cut:], key, kind, "head_truncated", dict(ctx, cut=cut))
        for extra in (b"\x00", b"\x10" * 16, blob[-16:]):
            cnt += 1
            _must_reject(out, blob + extra, key, kind, "extended", dict(ctx, extra=len(extra)))
        for pos in range(32):
            for mask in (0x01, 0x80):
                k2 = bytearray(key)
                k2[pos] ^= mask
                cnt += 1
                _must_reject(out, blob, bytes(k2), kind, "wrong_key", dict(ctx, pos=pos, mask=mask))
        for other in KINDS:
            if other != kind:
                cnt += 1
                _must_reject(out, blob, key, other, "wrong_kind", dict(ctx, other=other))
        out.evals = cnt
        out.nontrivial_n = cnt
        return out
    if sub == "tamper":
        pos = case["pos"] % len(blob)
        mask = (case["mask"] % 255) + 1 if case["mask"] % 256 == 0 else case["mask"] % 256
        t = bytearray(blob)
        t[pos] ^= mask
        out.label("tamper", "in_tag" if pos >= len(blob) - 10 else "in_ciphertext")
        _must_reject(out, bytes(t), key, kind, "modified_byte", dict(ctx, pos=pos, mask=mask))
        return out
    if sub == "trunc":
        cut = 1 + (case["cut"] - 1) % len(blob)
        out.label("trunc")
        _must_reject(out, blob[:-cut], key, kind, "truncated", dict(ctx, cut=cut))
        return out
    if sub == "wrongkey":
        k2 = bytearray(key)
        k2[case["pos"] % 32] ^= (case["mask"] % 255) + 1
        out.label("wrongkey")
        _must_reject(out, blob, bytes(k2), kind, "wrong_key", ctx)
        return out
    if sub == "wrongkind":
        other = KINDS[(case.get("kind", 0) + 1 + case["other"] % 3) % 4]
        out.label("wrongkind")
        _must_reject(out, blob, key, other, "wrong_kind", dict(ctx, other=other))
        return out
    raise ValueError(sub)


def nontrivial(case, out):
    if case["sub"] == "shared":
        return bool(out.info and out.info.get("nt"))
    if case["sub"] == "rt":
        return case.get("n", 0) % 16 == 0
    return True


def _enum_rt():
    for n in range(0, 65):
        for kind in range(4):
            for keyseed in (0, 1):
                for wrapper in (0, 1):
                    yield {"sub": "rt", "n": n, "kind": kind, "keyseed": keyseed, "seed": 3 if n % 3 else 1, "wrapper": wrapper}
    for k, named in enumerate(("absolute", "relative", "absolute", "relative")):
        yield {"sub": "rt", "n": 5, "kind": k, "keyseed": 1, "seed": 3, "wrapper": k % 2, "named_file": named}
    for n in (0, 1, 15, 16, 17, 32, 4096):
        for buffer in ("bytearray", "memoryview"):
            yield {"sub": "rt", "n": n, "kind": n % 4, "keyseed": 1, "seed": 3, "wrapper": n % 2, "buffer": buffer}


def _enum_reuse():
    for bad in ("tampered", "truncated", "wrong_key", "wrong_kind"):
        for kind in range(4):
            yield {"sub": "reuse", "steps": [{"what": "decrypt", "kind": kind, "n": 20}, {"what": bad, "kind": kind, "n": 33, "pos": 5},
                                             {"what": "decrypt", "kind": kind, "n": 16}, {"what": bad, "kind": (kind + 1) % 4, "n": 1, "pos": 0},
                                             {"what": "encrypt", "kind": kind, "n": 40}, {"what": "decrypt", "kind": kind, "n": 0}]}


def _enum_nested():
    for n in (0, 1, 16, 33):
        for kind in range(4):
            for ck in ("same", "other"):
                for cd in ("same", "other"):
                    yield {"sub": "rt", "n": n, "kind": kind, "keyseed": 1, "seed": 3, "wrapper": n % 2, "content": {"key": ck, "kind": cd}}


def _enum_tamper():
    for n in (0, 1, 15, 16, 17, 31, 32, 33, 48):
        for kind in range(4):
            yield {"sub": "tamper_all", "n": n, "kind": kind, "keyseed": n % 3, "seed": 1 if n % 2 else 3}


def _enum_shared():
    """context bound 1, complete for two calls: one preemption at every yield point"""
    pairs = [("enc", "enc"), ("enc", "dec"), ("dec", "dec"), ("dec", "dec_wrong"), ("enc", "dec_wrong"), ("dec_wrong", "dec")]
    for a, b in pairs:
        for k in range(0, 46):
            yield {"sub": "shared", "preempt": [[k, 0]],
                   "tasks": [[{"op": a, "n": 20, "seed": 3, "kind": 0, "keyseed": 1}], [{"op": b, "n": 33, "seed": 4, "kind": 1, "keyseed": 2}]]}


def _enum_optimised():
    for kind in range(4):
        yield {"sub": "optimised", "cases": [{"sub": "tamper_all", "n": n, "kind": kind, "keyseed": n % 3, "seed": 3} for n in (0, 16, 33)]
               + [{"sub": "rt", "n": n, "kind": kind, "keyseed": 1, "seed": 1, "wrapper": 1} for n in (0, 15, 16, 4096)]}


def plan(tier):
    quick = tier == "quick"
    maxn = 65536 if quick else (1 << 20)
    n_st = st.one_of(
        st.integers(0, 300),
        st.builds(lambda b, d: max(0, 16 * b + d), st.integers(0, maxn // 16), st.sampled_from([-1, 0, 0, 1])),
    )
    keys = st.binary(min_size=32, max_size=32).map(lambda b: b.hex())
    content = st.one_of(st.none(), st.none(), st.none(), st.fixed_dictionaries({"key": st.sampled_from(["same", "same", "other"]),
                                                                                "kind": st.sampled_from(["same", "same", "other"])}))
    rt = st.builds(lambda n, k, key, s, w, c, b: dict({"sub": "rt", "n": n, "kind": k, "key": key, "seed": s, "wrapper": w},
                                                      **dict({"content": c} if c else {}, **({"buffer": b} if b else {}))),
                   n_st, st.integers(0, 3), keys, st.integers(0, 50), st.integers(0, 1), content,
                   st.sampled_from([None, None, None, "bytearray", "memoryview"])).flatmap(
        lambda c: st.sampled_from([c, c, c, c, c, c, dict(c, named_file="absolute"), dict(c, named_file="relative")]) if "content" not in c else st.just(c))
    small = st.integers(0, 200)
    tam = st.one_of(
        st.builds(lambda n, k, key, p, m: {"sub": "tamper", "n": n, "kind": k, "key": key, "pos": p, "mask": m},
                  small, st.integers(0, 3), keys, st.integers(0, 1000), st.integers(1, 255)),
        st.builds(lambda n, k, key, c: {"sub": "trunc", "n": n, "kind": k, "key": key, "cut": c},
                  small, st.integers(0, 3), keys, st.integers(1, 300)),
        st.builds(lambda n, k, key, p, m: {"sub": "wrongkey", "n": n, "kind": k, "key": key, "pos": p, "mask": m},
                  small, st.integers(0, 3), keys, st.integers(0, 31), st.integers(0, 254)),
        st.builds(lambda n, k, key, o: {"sub": "wrongkind", "n": n, "kind": k, "key": key, "other": o},
                  small, st.integers(0, 3), keys, st.integers(0, 2)),
    )
    op = st.builds(lambda o, n, sd, k, ks: {"op": o, "n": n, "seed": sd, "kind": k, "keyseed": ks},
                   st.sampled_from(["enc", "dec", "dec_wrong"]), st.sampled_from([0, 1, 16, 20, 33, 4096]), st.integers(0, 9),
                   st.integers(0, 3), st.integers(0, 5))
    shared = st.builds(lambda tasks, pre: {"sub": "shared", "tasks": tasks, "preempt": pre},
                       st.lists(st.lists(op, min_size=1, max_size=2), min_size=2, max_size=3),
                       st.lists(st.tuples(st.integers(0, 75), st.integers(0, 2)).map(list), min_size=1, max_size=3))
    return {
        "shards": 16,
        "enumerations": [("lengths_0_64", _enum_rt), ("tamper_positions", _enum_tamper), ("shared_one_preemption", _enum_shared),
                         ("optimised_interpreter", _enum_optimised), ("content_is_an_encrypted_file", _enum_nested),
                         ("one_cipher_object_reused", _enum_reuse)],
        "exhaustive": ["lengths_0_64", "tamper_positions", "shared_one_preemption"],
        "strategies": [("roundtrip", rt, 400 if quick else 6000), ("tamper", tam, 600 if quick else 10000),
                       ("shared_object", shared, 300 if quick else 4000),
                       ("one_cipher_object_reused", st.lists(st.fixed_dictionaries({
                           "what": st.sampled_from(["decrypt", "encrypt", "tampered", "truncated", "wrong_key", "wrong_kind"]), "kind": st.integers(0, 3),
                           "n": st.sampled_from([0, 1, 16, 20, 33, 300]), "seed": st.integers(0, 9), "keyseed": st.integers(0, 3), "pos": st.integers(0, 400),
                           "mask": st.integers(0, 254)}), min_size=2, max_size=8).map(lambda steps: {"sub": "reuse", "steps": steps}), 60 if quick else 1500),
                       ("optimised_interpreter", st.lists(st.one_of(tam, tam, rt), min_size=4, max_size=16).map(lambda cs: {"sub": "optimised", "cases": cs}),
                        2 if quick else 40)],
        "shrink": "hypothesis",
        "budget_s": 120 if quick else 1200,
    }


if __name__ == "__main__":
    import sys
    outs = []
    for c in json.loads(sys.argv[1]):
        o = run_case(c)
        outs.append({"labels": o.labels, "violations": [v.to_json() for v in o.violations]})
    sys.stdout.write("\nOUTCOMES " + json.dumps({"optimize": sys.flags.optimize, "outcomes": outs}) + "\n")
    sys.stdout.flush()
    from ..kit import env as envkit
    envkit.cleanup()
    os._exit(0)

RULE += (' Also: the same tamper / round-trip cases in a child interpreter started with -O; content that is itself an encrypted file (same / other key and kind); one cipher object reused after rejected calls (a call that does not return within 10 s counts as stuck).')
RULE += (" The content is handed over as bytes, as a bytearray or as a memoryview; a buffer is encrypted twice and must give the same ciphertext.")
RULE += (" Content may be the name (absolute, or relative to the working directory) of a file that exists on this machine.")
