"""C14 - one-time prekeys: none lost or re-offered between generation, upload and use.

One account (started from nothing, small key batches) plus two registered peers run as real client stacks against the
server double.  Histories of connect / disconnect / server answers to uploads (result, error, lost) / key-count
notifications / restarts / peers consuming bundles are settled step by step; a model of generated / offered / confirmed /
consumed keys is compared with the upload stanzas on the wire and with the account's prekey table (read through a separate
SQLite connection).
"""
import os
import sqlite3

from .. import compat  # noqa: F401
from ..core import Outcome
from ..kit import accounts as A
from . import c03
from hypothesis import strategies as st

from yowsup.structs import ProtocolTreeNode as N
from yowsup.axolotl.manager import AxolotlManager
from yowsup.layers.protocol_messages.protocolentities import TextMessageProtocolEntity
from axolotl.state.prekeyrecord import PreKeyRecord
from axolotl.ecc.curve import Curve
from axolotl.ecc.djbec import DjbECPublicKey
from axolotl.util.keyhelper import KeyHelper
from yowsup.profile.profile import YowProfile

ID = "C14"
LEVEL = "exploration"
RULE = ("generated histories of 2-14 operations over {connect, connect that drops before the login completes, connection loss, answer policy for the next upload (result / error / "
        "lost), server key-count notification, restart, consume (a peer fetches a bundle and sends a first message), re-offer (the "
        "server hands an already consumed key to a second peer)} for one account started from nothing with batches of 6 keys and a "
        "refill threshold of 4, plus three registered peers; which of the keys on offer the server hands out is generated (first, any, the "
        "highest id); optionally the account starts with a key numbering near the end of the 24-bit id space (latest signed prekey id 7 / MAX-1 / MAX, a confirmed one-time prekey with id MAX-9 / MAX-4 / MAX-1 written through the store API before the first login); every operation is settled before the next. Non-trivial = a lost or "
        "refused confirmation, or a restart between an offer and its confirmation, or a consumed key. Upload answer policy `held` + operation `release`: the server stores the keys and its confirmation arrives later (after further operations, on the same connection), one confirmation at a time. Distinct = canonical JSON.")
ASSUMPTIONS = [
    "server double: key directory handing out each one-time prekey once (re-offering is an explicit operation)",
    "the upload error reply makes the control layer raise by design ('Sent keys were not accepted'); that exception is not a finding",
    "re-use of an id for a new key after the old key was consumed is not flagged (the statement speaks of keys that are on offer): "
    "the new key under that id is then tracked like any other key on offer",
]

X = "4915100000031@s.whatsapp.net"
PEERS = ["4915100000032@s.whatsapp.net", "4915100000033@s.whatsapp.net", "4915100000034@s.whatsapp.net"]


def db_rows(home, phone):
    p = os.path.join(home, "yowsup", phone, "axolotl.db")
    if not os.path.exists(p):
        return None
    con = sqlite3.connect(p)
    try:
        rows = con.execute("SELECT prekey_id, sent_to_server, record FROM prekeys").fetchall()
        ident = con.execute("SELECT registration_id, public_key FROM identities WHERE recipient_id = -1").fetchone()
        return {"keys": {int(r[0]): (bool(r[1]), bytes(PreKeyRecord(serialized=bytes(r[2])).getKeyPair().getPublicKey().serialize()[1:]))
                         for r in rows},
                "registration": int(ident[0]) if ident else None, "identity": bytes(ident[1]) if ident else None}
    finally:
        con.close()


def parse_upload(node):
    keys = {}
    raw_ids = []
    for k in node.getChild("list").getAllChildren():
        kid = k.getChild("id").data
        raw_ids.append(bytes(kid))
        keys[int.from_bytes(kid, "big")] = bytes(k.getChild("value").data)
    sk = node.getChild("skey")
    return {"keys": keys, "raw_ids": raw_ids, "identity": bytes(node.getChild("identity").data),
            "registration": bytes(node.getChild("registration").data), "type": bytes(node.getChild("type").data),
            "skey_id": bytes(sk.getChild("id").data), "skey_value": bytes(sk.getChild("value").data),
            "skey_signature": bytes(sk.getChild("signature").data), "iq_id": node["id"]}


def run_case(case):
    out = Outcome()
    A.install()
    AxolotlManager.COUNT_GEN_PREKEYS = 6
    AxolotlManager.THRESHOLD_REGEN = 4
    server = A.Server()
    clients = {}
    homes = []
    try:
        home, _ = A.template(X, registered=False)
        hx = A.clone(home)
        homes.append(hx)
        if case.get("signed_prekey_start") is not None or case.get("prekey_start") is not None:
            # the account has been in use for a long time: its key numbering is near (or at) the end of the 24-bit id space,
            # a state the manager has an explicit branch for
            A.envkit_home(hx)
            m = YowProfile(X.split("@")[0]).axolotl_manager
            if case.get("signed_prekey_start") is not None:
                spk = KeyHelper.generateSignedPreKey(m.identity, case["signed_prekey_start"])
                m._store.storeSignedPreKey(spk.getId(), spk)
                out.label("signed_prekey_numbering_starts_at_" + ("max" if case["signed_prekey_start"] == AxolotlManager.MAX_SIGNED_PREKEY_ID
                                                                 else "max-1" if case["signed_prekey_start"] == AxolotlManager.MAX_SIGNED_PREKEY_ID - 1
                                                                 else "low"))
            if case.get("prekey_start") is not None:
                # a key generated long ago that the server confirmed and nobody has used yet
                old = KeyHelper.generatePreKeys(case["prekey_start"], 1)
                m._store.storePreKey(old[0].getId(), old[0])
                m.set_prekeys_as_sent(old)
                out.label("prekey_numbering_near_the_end")
            m._store.identityKeyStore.dbConn.close()
        clients[X] = A.Client(server, X, hx)
        for p in PEERS:
            # peers are registered with the default batch size of the templates
            AxolotlManager.COUNT_GEN_PREKEYS = 12
            AxolotlManager.THRESHOLD_REGEN = 10
            h, bundle = A.template(p, registered=True)
            hp = A.clone(h)
            homes.append(hp)
            server.keys[p] = A.copy_bundle(bundle)
            clients[p] = A.Client(server, p, hp)
            clients[p].connect()
            A.settle(server, clients)
        AxolotlManager.COUNT_GEN_PREKEYS = 6
        AxolotlManager.THRESHOLD_REGEN = 4
        return _run(case, out, server, clients, hx)
    finally:
        import shutil
        for c in clients.values():
            try:
                c.stop()
            except Exception:
                pass
        for h in homes:
            shutil.rmtree(h, ignore_errors=True)
        AxolotlManager.COUNT_GEN_PREKEYS = 12
        AxolotlManager.THRESHOLD_REGEN = 10


def _run(case, out, server, clients, hx):
    import random
    random.seed(case.get("seed", 0))
    phone = X.split("@")[0]
    cx = clients[X]
    offered = {}        # id -> public key bytes as offered to the server (any upload)
    confirmed = set()   # ids contained in an upload the server answered with result
    consumed = set()
    seen_uploads = 0
    policy_log = []
    nt = False
    peer_msgs = 0
    pending_policy = case.get("initial_policy", "result")
    _db_start = db_rows(hx, phone)
    for kid, (sent, pub) in (_db_start["keys"].items() if _db_start else ()):
        if sent:
            # a key from the account's earlier life, confirmed by the server then
            confirmed.add(kid)
            offered[kid] = pub

    def fail(key, detail):
        out.fail("prekeys", key, detail)
        return False

    def process_uploads(step, op):
        nonlocal seen_uploads, nt
        db = db_rows(hx, phone)
        while seen_uploads < len(server.uploads):
            jid, node, policy = server.uploads[seen_uploads]
            seen_uploads += 1
            if jid != X:
                continue
            u = parse_upload(node)
            out.label("upload:" + policy)
            if db is None:
                return fail("upload_without_store", {"step": step})
            if u["identity"] != db["identity"][1:]:
                return fail("upload:identity_key_differs_from_store", {"step": step})
            if int.from_bytes(u["registration"], "big") != db["registration"]:
                return fail("upload:registration_id_differs_from_store", {"step": step, "got": u["registration"].hex()})
            if any(len(r) != 3 for r in u["raw_ids"]) or len(u["skey_id"]) != 3:
                return fail("upload:key_id_not_3_bytes", {"step": step, "lengths": sorted(set(len(r) for r in u["raw_ids"]))})
            if any(len(v) != 32 for v in u["keys"].values()) or len(u["skey_value"]) != 32:
                return fail("upload:key_not_32_bytes", {"step": step})
            try:
                ok = Curve.verifySignature(DjbECPublicKey(u["identity"]), b"\x05" + u["skey_value"], u["skey_signature"])
            except Exception as e:
                ok = False
            if not ok:
                return fail("upload:signed_prekey_signature_does_not_verify", {"step": step})
            for kid, val in u["keys"].items():
                if kid in consumed and offered.get(kid) != val:
                    # the id of a consumed key is used again for a new key (the library numbers on from the highest id left)
                    consumed.discard(kid)
                    confirmed.discard(kid)
                    out.label("id_of_consumed_key_reused")
                elif kid in offered and offered[kid] != val and kid not in consumed:
                    return fail("upload:id_offered_again_with_different_key", {"step": step, "id": kid})
                if kid in confirmed and kid not in consumed:
                    return fail("upload:confirmed_key_offered_again", {"step": step, "id": kid, "op": op[:2]})
                offered[kid] = val
            u["policy"] = policy
            u["iq_id"] = node["id"]
            uploads.append(u)
            if policy == "result":
                confirmed.update(u["keys"].keys())
            else:
                nt = True
        return True

    uploads = []

    def check_store(step, op):
        db = db_rows(hx, phone)
        if db is None:
            return True
        for kid in list(consumed):
            if kid in db["keys"] and db["keys"][kid][1] != offered.get(kid):
                # the id of a consumed key has been given to a newly generated key (not uploaded yet): from here on it is that key
                consumed.discard(kid)
                confirmed.discard(kid)
                offered.pop(kid, None)
                out.label("id_of_consumed_key_reused")
        for kid, (sent, pub) in db["keys"].items():
            if sent != (kid in confirmed):
                what = "marked_as_sent_without_confirmation" if sent else "confirmed_key_still_pending"
                return fail("store:%s" % what, {"step": step, "op": op[:2], "id": kid})
        for kid, val in offered.items():
            if kid in consumed:
                if kid in db["keys"] and db["keys"][kid][1] == val:
                    return fail("store:consumed_key_still_available", {"step": step, "id": kid})
            else:
                if kid not in db["keys"]:
                    return fail("store:offered_key_lost", {"step": step, "op": op[:2], "id": kid})
                if db["keys"][kid][1] != val:
                    return fail("store:offered_id_maps_to_another_key", {"step": step, "id": kid})
        return True

    def settle_all():
        n0 = len(server.uploads)
        for _ in range(40):
            if len(server.uploads) - n0 > 4:
                return False       # the same keys are uploaded again and again
            server.run(clients, limit=60)
            # a passive login re-connects by itself after the confirmed upload: let the deferred callbacks run
            for c in clients.values():
                if not c.connected():
                    c.pump()
            if not server.outq:
                return True
        return False

    for step, op in enumerate(case["ops"]):
        kind = op[0]
        server.upload_policy = pending_policy
        if not cx.connected() or kind in ("disconnect", "restart", "connect_nosuccess"):
            # a confirmation still on its way dies with its connection
            server.held_results = []
        n_up = len(server.uploads)
        n_x_before = len(uploads)
        _db0 = db_rows(hx, phone)
        pending_before = set(k for k, (sent, pub) in _db0["keys"].items() if not sent) if _db0 else set()
        if kind == "connect":
            if not cx.connected():
                unsent_before = None
                db = db_rows(hx, phone)
                cx.connect()
                out.label("connect")
        elif kind == "connect_nosuccess":
            # the connection comes up but drops before the server's <success> arrives (whatever the server sends meanwhile is
            # handled by a client that has not logged in)
            if not cx.connected():
                server.withhold_success.add(X)
                cx.connect()
                out.label("connect_without_success")
        elif kind == "disconnect":
            if cx.connected():
                cx.post("peerclose")
                cx.pump()
                out.label("connection_loss")
        elif kind == "policy":
            pending_policy = op[1]
            server.upload_policy = pending_policy
            continue
        elif kind == "count":
            if cx.connected():
                server.q(X, N("notification", {"from": "s.whatsapp.net", "id": "cnt-%d" % step, "type": "encrypt", "t": "1500000000"},
                              [N("count", {"value": "3"})]))
                out.label("key_count_notification")
        elif kind == "release":
            # confirmations the server had sent but that were still on their way arrive now, on the connection they belong to; what
            # they confirm are the keys of *that* upload (an id that has meanwhile been given to a new key does not confirm the new key)
            if not cx.connected() or not server.held_results:
                continue
            d0 = server.byjid.get(X)
            while server.held_results and cx.connected() and server.byjid.get(X) is d0:
                # one at a time: a confirmation may make the client drop the connection (the re-login after a passive one), and
                # whatever was still on its way then never arrives
                jid, iq_id = server.held_results.pop(0)
                server.q(jid, N("iq", {"type": "result", "from": "s.whatsapp.net", "id": iq_id}))
                for u in uploads:
                    if u.get("iq_id") == iq_id:
                        confirmed.update(kid for kid, val in u["keys"].items() if offered.get(kid) == val and kid not in consumed)
                        out.label("held_confirmation_released")
                if not settle_all():
                    fail("queues_do_not_drain", {"step": step})
                    return out
            server.held_results = []
        elif kind == "restart":
            before_unconfirmed = set(offered) - confirmed - consumed
            cx.stop()
            cx.start()
            cx.connect()
            if before_unconfirmed:
                nt = True
            out.label("restart")
        elif kind in ("consume", "reoffer"):
            peer = PEERS[op[1] % len(PEERS)]
            k = server.keys.get(X)
            if not k or not cx.connected():
                continue
            if kind == "reoffer":
                if not k["handed_out"]:
                    continue
                k["prekeys"].insert(0, k["handed_out"][-1])
                out.label("reoffer_consumed_key")
            elif not k["prekeys"]:
                continue
            elif len(op) > 2 and op[2]:
                # which of the keys on offer the server hands out is the server's choice
                k["prekeys"].insert(0, k["prekeys"].pop(op[2] % len(k["prekeys"])))
                out.label("server_hands_out_" + ("highest_key" if k["prekeys"][0] is max(k["prekeys"], key=lambda n: int.from_bytes(n.getChild("id").data, "big")) else "other_key"))
            next_key = k["prekeys"][0]
            kid = int.from_bytes(next_key.getChild("id").data, "big")
            # a peer that already has a session with the account would not fetch a bundle: use a peer without one
            pc = clients[peer]
            if peer_has_session(pc, phone):
                other = [p for p in PEERS if p != peer and not peer_has_session(clients[p], phone)]
                if not other:
                    if kind == "reoffer":
                        k["prekeys"].pop(0)
                    continue
                peer = other[0]
                pc = clients[peer]
            peer_msgs += 1
            body = "first-%d" % peer_msgs
            ent = TextMessageProtocolEntity(body, to=X)
            err = pc.send(ent)
            if err is not None:
                return_fail = fail("peer_send_raises", {"error": repr(err)[:200]})
                return out
            if not settle_all():
                fail("queues_do_not_drain", {"step": step})
                return out
            got = [e for e in cx.app_got if e.getTag() == "message" and e.getId() == ent.getId()]
            retries = [n for j, n in server.log if j == X and n.tag == "receipt" and n["type"] == "retry" and n["id"] == ent.getId()]
            if kind == "consume":
                nt = True
                out.label("consume")
                if len(got) != 1:
                    fail("consume:first_message_delivered_%d_times" % len(got), {"step": step, "key": kid, "retries": len(retries)})
                    return out
                consumed.add(kid)
            else:
                # the message built on the consumed key must be answered with a retry request (after which the peer fetches
                # a fresh bundle and the message may arrive, once); accepting it directly would mean the key was used twice
                if kid in consumed and not retries:
                    fail("reoffer:consumed_key_accepted_again", {"step": step, "key": kid, "delivered": len(got)})
                    return out
                if len(got) > 1:
                    fail("reoffer:message_delivered_%d_times" % len(got), {"step": step})
                    return out
                # the retry consumed the next key on offer
                if got:
                    k2 = server.keys[X]["handed_out"][-1] if server.keys[X]["handed_out"] else None
                    if k2 is not None:
                        consumed.add(int.from_bytes(k2.getChild("id").data, "big"))
        else:
            raise ValueError(kind)
        if not settle_all():
            fail("queues_do_not_drain", {"step": step})
            return out
        # by-design exception of the control layer for refused uploads
        cx.errors[:] = [e for e in cx.errors if "Sent keys were not accepted" not in str(e)]
        for jid, c in clients.items():
            if c.errors:
                fail("client_error:%s" % c.errors[0][0], {"step": step, "op": op[:2], "jid": jid, "error": list(c.errors[0])[:3]})
                return out
        if not process_uploads(step, op):
            return out
        if not check_store(step, op):
            return out
        # first upload after an authenticated passive login carries every unconfirmed key and no confirmed one
        if kind in ("connect", "restart") and len(uploads) > n_x_before:
            u = uploads[n_x_before]
            db = db_rows(hx, phone)
            if db is not None:
                pending = set(k for k in db["keys"] if k not in confirmed or (u["policy"] == "result" and k in u["keys"]))
                if set(u["keys"]) != pending:
                    fail("upload:passive_login_upload_differs_from_pending_keys",
                         {"step": step, "uploaded": sorted(u["keys"]), "pending": sorted(pending)})
                    return out
            # ... and in particular every key that was pending before this login (a later login of the same operation may have
            # confirmed it by now, which the comparison above cannot see)
            missing = pending_before - set(u["keys"])
            if missing:
                fail("upload:key_pending_before_login_not_offered_at_that_login", {"step": step, "missing": sorted(missing),
                                                                                   "uploaded": sorted(u["keys"])})
                return out
    out.info = {"nt": nt}
    return out


def peer_has_session(pc, phone):
    p = os.path.join(pc.home, "yowsup", pc.phone, "axolotl.db")
    con = sqlite3.connect(p)
    try:
        return con.execute("SELECT 1 FROM sessions WHERE recipient_id = ?", (int(phone),)).fetchone() is not None
    finally:
        con.close()


def nontrivial(case, out):
    return bool(out.info and out.info.get("nt"))


def shrink_candidates(case):
    ops = case["ops"]
    for i in range(len(ops) - 1, -1, -1):
        yield dict(case, ops=ops[:i] + ops[i + 1:])


def script_strategy():
    sel = st.integers(0, 3)
    op = st.one_of(st.just(["connect"]), st.just(["connect"]), st.just(["disconnect"]), st.just(["disconnect"]), st.just(["connect_nosuccess"]),
                   st.tuples(st.just("policy"), st.sampled_from(["result", "result", "error", "drop", "stored_unanswered", "held", "held"])).map(list),
                   st.just(["release"]),
                   st.just(["count"]), st.just(["restart"]), st.just(["restart"]),
                   st.tuples(st.just("consume"), sel, st.sampled_from([0, 0, 1, 3, -1, -1])).map(list),
                   st.tuples(st.just("consume"), sel, st.sampled_from([0, 0, 1, 3, -1, -1])).map(list),
                   st.tuples(st.just("reoffer"), sel).map(list))
    top = AxolotlManager.MAX_SIGNED_PREKEY_ID
    return st.builds(lambda ops, seed, pol, spk, pk: dict({"sub": "history", "seed": seed, "initial_policy": pol, "ops": [["connect"]] + ops},
                                                          **dict(([("signed_prekey_start", spk)] if spk is not None else []) +
                                                                 ([("prekey_start", pk)] if pk is not None else []))),
                     st.lists(op, min_size=1, max_size=13), st.integers(0, 2 ** 31 - 1),
                     st.sampled_from(["result", "result", "error", "drop", "drop", "stored_unanswered", "held"]),
                     st.sampled_from([None, None, None, None, None, 7, top - 1, top]),
                     st.sampled_from([None, None, None, None, None, None, top - 9, top - 4, top - 1]))


def _enum_basic():
    yield {"sub": "history", "seed": 1, "ops": [["connect"], ["consume", 0], ["reoffer", 1], ["restart"], ["consume", 1], ["count"], ["restart"]]}
    yield {"sub": "history", "seed": 2, "ops": [["policy", "drop"], ["connect"], ["disconnect"], ["policy", "result"], ["connect"], ["consume", 0]]}
    yield {"sub": "history", "seed": 3, "ops": [["policy", "error"], ["connect"], ["restart"], ["policy", "result"], ["restart"], ["count"], ["consume", 0]]}
    yield {"sub": "history", "seed": 5, "ops": [["connect"], ["consume", 0, -1], ["count"], ["consume", 1, 1], ["consume", 2, -1], ["restart"], ["count"]]}
    yield {"sub": "history", "seed": 6, "ops": [["connect"], ["consume", 0, -1], ["consume", 1, -1], ["consume", 2, -1], ["restart"], ["count"], ["restart"]]}
    yield {"sub": "history", "seed": 7, "initial_policy": "drop",
           "ops": [["connect_nosuccess"], ["count"], ["disconnect"], ["policy", "result"], ["connect"], ["restart"]]}
    yield {"sub": "history", "seed": 8, "ops": [["connect"], ["disconnect"], ["connect_nosuccess"], ["policy", "drop"], ["count"], ["disconnect"],
                                                ["policy", "result"], ["connect"], ["consume", 0, 0]]}
    top = AxolotlManager.MAX_SIGNED_PREKEY_ID
    for spk in (top - 1, top):
        yield {"sub": "history", "seed": 9, "signed_prekey_start": spk, "ops": [["connect"], ["count"], ["restart"], ["count"], ["consume", 0]]}
    yield {"sub": "history", "seed": 10, "prekey_start": top - 3, "ops": [["connect"], ["consume", 0], ["count"], ["restart"], ["consume", 1, -1]]}
    yield {"sub": "history", "seed": 11, "initial_policy": "stored_unanswered",
           "ops": [["connect"], ["consume", 0], ["consume", 1, -1], ["policy", "result"], ["restart"], ["consume", 2]]}
    yield {"sub": "history", "seed": 12, "ops": [["connect"], ["policy", "stored_unanswered"], ["count"], ["consume", 0, -1], ["consume", 1, 3],
                                                 ["policy", "result"], ["disconnect"], ["connect"], ["consume", 2]]}
    yield {"sub": "history", "seed": 4, "ops": [["connect"], ["policy", "drop"], ["count"], ["restart"], ["policy", "result"], ["restart"]]}
    # confirmations that arrive late: after a key of the upload was consumed and its id re-used, after a further upload, after both
    yield {"sub": "history", "seed": 5, "initial_policy": "held", "ops": [["connect"], ["consume", 0, -1], ["policy", "drop"], ["count"], ["release"], ["restart"]]}
    yield {"sub": "history", "seed": 6, "initial_policy": "held", "ops": [["connect"], ["count"], ["release"], ["consume", 0], ["restart"]]}
    yield {"sub": "history", "seed": 7, "ops": [["connect"], ["policy", "held"], ["count"], ["consume", 1, -1], ["count"], ["release"], ["policy", "result"],
                                                ["restart"], ["consume", 2]]}


def plan(tier):
    quick = tier == "quick"
    return {
        "shards": 16,
        "enumerations": [("basic_histories", _enum_basic)],
        "strategies": [("histories", script_strategy(), 25 if quick else 800)],
        "shrink": "ddmin",
        "budget_s": 200 if quick else 2400,
    }

RULE += (" Also: the client's in-memory list of unsent keys across connections that never logged in (found by the thorough tier).")
