"""C09 - protocol entities and stanzas convert into each other without loss.

Receive path: Class.fromProtocolTreeNode(stanza).toProtocolTreeNode() reproduces the stanza (attribute values compared as
strings unless both sides are decimal numbers, then by value; content bytes equal; children as multisets, recursively).
Send path: the tree produced by a constructed entity is accepted by the real encoder and survives encode->decode unchanged
under C01's strict comparator.
"""
import inspect
import importlib
import pkgutil

from .. import compat  # noqa: F401
from ..core import Outcome, HarnessError
from ..gen import entities as E
from ..gen import shapes as S
from ..gen import stanzas as G
from ..kit import trees as T
from hypothesis import strategies as st

from yowsup.structs import ProtocolEntity
from yowsup.structs import ProtocolTreeNode
from yowsup.layers.coder.encoder import WriteEncoder
from yowsup.layers.coder.decoder import ReadDecoder
from yowsup.layers.coder.tokendictionary import TokenDictionary

ID = "C09"
LEVEL = "exploration"
RULE = ("for every catalogue record (vlib/gen/entities_catalog.py; one per entity class reachable from a layer's receive or send "
        "handlers): receive path - generated stanzas of the documented shape (optional attributes present/absent, 0..n list "
        "children, values in kind) converted to the entity and back; send path - generated constructor arguments, the produced "
        "tree pushed through the real encoder and decoder; binary fields are mostly short and, in dedicated draws per class that has one, of "
        "a size at a length-class boundary of the wire format (255 B .. 200 kB). Non-trivial = (receive) the shape has an optional attribute present and "
        "one absent, or >= 2 list children, or (send) at least one optional argument given. Distinct = distinct canonical JSON.")
ASSUMPTIONS = [
    "stanza shapes come from the class docstrings, the fixtures and the fields each parser reads; value kinds are realistic "
    "(timestamps >= 1, counters >= 1, non-empty strings)",
    "child order carries no meaning in these stanzas (children compared as multisets), as the library's own equality assumes",
]

_td = TokenDictionary()
_enc = WriteEncoder(_td)
_dec = ReadDecoder(_td)


def selftest():
    import os
    missing = uncatalogued()
    if missing and not os.environ.get("VERIF_C09_PARTIAL"):
        raise HarnessError("entity classes without catalogue record or exclusion: %s" % ", ".join(sorted(missing)))


def uncatalogued():
    import yowsup.layers as L
    known = set(r.cls_path.split(":")[1] for r in E.RECV + E.SEND) | set(k.split(":")[1] for k in E.EXCLUDED)
    missing = set()
    for m in pkgutil.iter_modules(L.__path__):
        try:
            pkg = importlib.import_module("yowsup.layers.%s.protocolentities" % m.name)
        except ImportError:
            continue
        for name, obj in vars(pkg).items():
            if inspect.isclass(obj) and issubclass(obj, ProtocolEntity) and obj.__module__.startswith(pkg.__name__):
                if name not in known:
                    missing.add("%s:%s" % (pkg.__name__, name))
    return missing


def is_dec(s):
    return isinstance(s, str) and s.isdigit()


def val_eq(a, b):
    sa, sb = _as_str(a), _as_str(b)
    if sa == sb:
        return True
    if is_dec(sa) and is_dec(sb):
        return int(sa) == int(sb)
    return False


def _as_str(v):
    if isinstance(v, (bytes, bytearray)):
        return bytes(v).decode("latin-1")
    return str(v)


def loose_diff(exp, got, path="", numeric_tags=()):
    """exp/got: ProtocolTreeNode.  None when equal under the C09 comparator, else (signature, detail)."""
    here = path + "/" + str(exp.tag)
    if got is None:
        return ("node_lost", here)
    if exp.tag != got.tag:
        return ("tag_changed", "%s -> %r" % (here, got.tag))
    ek, gk = set(exp.attributes), set(got.attributes)
    for k in sorted(ek - gk):
        return ("attr_lost:%s" % k, "%s lost %s=%r" % (here, k, exp.attributes[k]))
    for k in sorted(gk - ek):
        return ("attr_added:%s" % k, "%s gained %s=%r" % (here, k, got.attributes[k]))
    for k in sorted(ek):
        if not val_eq(exp.attributes[k], got.attributes[k]):
            return ("attr_changed:%s" % k, "%s %s: %r -> %r" % (here, k, exp.attributes[k], got.attributes[k]))
    ed = exp.data if exp.data else None
    gd = got.data if got.data else None
    if ed is not None or gd is not None:
        if ed is not None and gd is not None and exp.tag in numeric_tags and isinstance(ed, (bytes, bytearray)) \
                and isinstance(gd, (bytes, bytearray)) and int.from_bytes(ed, "big") == int.from_bytes(gd, "big"):
            pass
        elif ed is None or gd is None or _as_str(ed) != _as_str(gd):
            return ("content_changed", "%s data %r -> %r" % (here, _short(ed), _short(gd)))
    ec, gc = list(exp.children), list(got.children)
    unmatched = list(gc)
    first_problem = None
    for c in ec:
        hit = None
        for g in unmatched:
            if loose_diff(c, g, here, numeric_tags) is None:
                hit = g
                break
        if hit is not None:
            unmatched.remove(hit)
        elif first_problem is None:
            same_tag = [g for g in unmatched if g.tag == c.tag]
            if same_tag:
                first_problem = loose_diff(c, same_tag[0], here, numeric_tags)
            else:
                first_problem = ("child_lost:%s" % c.tag, "%s lost child <%s>" % (here, c.tag))
    if first_problem:
        return first_problem
    if unmatched:
        return ("child_added:%s" % unmatched[0].tag, "%s gained child <%s>" % (here, unmatched[0].tag))
    return None


def _short(v):
    r = repr(v)
    return r if len(r) < 60 else r[:60] + "..."


def shape_optional_stats(tree_json, rec):
    """non-trivial rule for receive cases"""
    present = absent = 0
    max_children = 0

    def walk(shape, t):
        nonlocal present, absent, max_children
        names = dict((k, v) for k, v in t["a"])
        for name, k in shape.attrs.items():
            if isinstance(k, S.OPT):
                if name in names:
                    present += 1
                else:
                    absent += 1
        kids = t["c"] if isinstance(t["c"], list) else []
        for slot in shape.children:
            if isinstance(slot, S.ALT):
                continue
            sh = slot.shape if isinstance(slot, S.CH) else slot
            if not isinstance(sh.tag, str):
                continue
            same = [k for k in kids if k["t"] == sh.tag]
            if isinstance(slot, S.CH) and slot.hi > 1:
                max_children = max(max_children, len(same))
            for k in same:
                walk(sh, k)
    walk(rec.shape, tree_json)
    return present, absent, max_children


def run_case(case):
    out = Outcome()
    rec = E.by_name(case["name"])
    cls = rec.load()
    if case["sub"] == "recv":
        tree = G.materialize(case["tree"])
        node = T.to_node(tree)
        present, absent, maxkids = shape_optional_stats(case["tree"], rec)
        out.label("recv", "owner=" + str(rec.owner))
        out.info = {"nt": (present >= 1 and absent >= 1) or maxkids >= 2}
        try:
            ent = cls.fromProtocolTreeNode(T.to_node(tree))
        except Exception as e:
            out.fail("recv", "recv:%s:parse_raises:%s" % (rec.name, type(e).__name__), {"error": repr(e)[:300]})
            return out
        if ent is None:
            out.fail("recv", "recv:%s:parse_returns_none" % rec.name, {})
            return out
        try:
            back = ent.toProtocolTreeNode()
        except Exception as e:
            out.fail("recv", "recv:%s:serialise_raises:%s" % (rec.name, type(e).__name__), {"error": repr(e)[:300]})
            return out
        if back is None:
            out.fail("recv", "recv:%s:serialise_returns_none" % rec.name, {})
            return out
        d = loose_diff(node, back, "", getattr(rec, "numeric_tags", ()))
        if d:
            out.fail("recv", "recv:%s:%s" % (rec.name, d[0]), {"diff": d[1], "entity_class": type(ent).__name__})
            return out
        # an entity is not used up by serialising it: a second serialisation (a layer forwards it, the application sends it on)
        # gives the same stanza
        try:
            again = ent.toProtocolTreeNode()
        except Exception as e:
            out.fail("recv", "recv:%s:second_serialisation_raises:%s" % (rec.name, type(e).__name__), {"error": repr(e)[:300]})
            return out
        d = loose_diff(node, again, "", getattr(rec, "numeric_tags", ()))
        if d:
            out.fail("recv", "recv:%s:second_serialisation:%s" % (rec.name, d[0]), {"diff": d[1], "entity_class": type(ent).__name__})
        return out
    if case["sub"] == "recv_edit":
        # serialising an entity is an observation, not an operation on it: an entity that has been serialised (sent, logged) and
        # is then edited through its own setters serialises to the same stanza as an unserialised twin given the same edits
        import inspect
        out.label("recv_edit", "owner=" + str(rec.owner))
        ta, tb = G.materialize(case["tree"]), G.materialize(case["tree2"])
        try:
            a1, a2 = cls.fromProtocolTreeNode(T.to_node(ta)), cls.fromProtocolTreeNode(T.to_node(ta))
            b1, b2 = cls.fromProtocolTreeNode(T.to_node(tb)), cls.fromProtocolTreeNode(T.to_node(tb))
            a1.toProtocolTreeNode()
        except Exception:
            # (the plain round trip is the recv sub-check's business)
            out.label("recv_edit:not_built")
            return out
        if type(a1) is not type(b1):
            out.label("recv_edit:different_classes")
            return out
        names = [k for k, v in inspect.getmembers(type(a1)) if isinstance(v, property) and v.fset is not None]
        order = case.get("order") or list(range(len(names)))
        edits = 0
        for i in order:
            name = names[i % len(names)]
            try:
                v1, v2 = getattr(b1, name), getattr(b2, name)
                setattr(a2, name, v2)
            except Exception:
                continue
            try:
                setattr(a1, name, v1)
            except Exception as e:
                out.fail("recv", "recv_edit:%s:setter_raises_only_after_serialisation:%s" % (rec.name, name), {"error": repr(e)[:200]})
                return out
            edits += 1
            try:
                n2 = a2.toProtocolTreeNode()
            except Exception:
                out.label("recv_edit:edited_entity_not_serialisable")
                return out
            try:
                n1 = a1.toProtocolTreeNode()
            except Exception as e:
                out.fail("recv", "recv_edit:%s:serialise_raises_only_after_earlier_serialisation" % rec.name, {"error": repr(e)[:200], "edited": name})
                return out
            d = loose_diff(n2, n1, "", getattr(rec, "numeric_tags", ()))
            if d:
                out.fail("recv", "recv_edit:%s:edit_after_serialisation_not_in_the_stanza:%s" % (rec.name, name),
                         {"diff": d[1], "entity_class": type(a1).__name__, "edited": name})
                return out
        out.info = {"nt": edits >= 2}
        return out
    if case["sub"] == "send":
        args = [S.unjson_val(a) for a in case["args"]]
        kwargs = {k: S.unjson_val(v) for k, v in case["kwargs"].items()}
        n_opt = len(kwargs) + len([1 for k, a in zip(rec.args, args) if isinstance(k, S.OPT) and a is not None])
        out.label("send", "owner=" + str(rec.owner))
        out.info = {"nt": n_opt >= 1}
        try:
            ent = cls(*args, **kwargs)
        except Exception as e:
            out.fail("send", "send:%s:constructor_raises:%s" % (rec.name, type(e).__name__), {"error": repr(e)[:300]})
            return out
        try:
            node = ent.toProtocolTreeNode()
        except Exception as e:
            out.fail("send", "send:%s:serialise_raises:%s" % (rec.name, type(e).__name__), {"error": repr(e)[:300]})
            return out
        if node is None:
            out.fail("send", "send:%s:serialise_returns_none" % rec.name, {})
            return out
        bad = codec_problem(node)
        if bad:
            out.fail("send", "send:%s:%s" % (rec.name, bad[0]), {"detail": bad[1]})
        return out
    raise ValueError(case["sub"])


def codec_problem(node):
    """None when the tree is accepted by the real encoder and survives encode->decode under the strict comparator"""
    try:
        frame = bytes(bytearray(WriteEncoder(_td).protocolTreeNodeToBytes(node)))
    except Exception as e:
        return ("not_encodable:%s" % type(e).__name__, "%r; offending: %s" % (e, find_bad_value(node)))
    # a connection has one encoder for everything it sends: a stanza the codec refused earlier (the sender caught the error and went
    # on) must not leave anything behind in it
    used = WriteEncoder(_td)
    try:
        used.protocolTreeNodeToBytes(ProtocolTreeNode("receipt", {"id": "1415389947-15", "to": None}))
    except Exception:
        pass
    try:
        if bytes(bytearray(used.protocolTreeNodeToBytes(node))) != frame:
            return ("frame_differs_after_the_encoder_refused_another_stanza", "fresh encoder: %d bytes" % len(frame))
    except Exception as e:
        return ("not_encodable_after_the_encoder_refused_another_stanza:%s" % type(e).__name__, repr(e)[:200])
    try:
        back = ReadDecoder(_td).getProtocolTreeNode(bytearray(frame))
    except Exception as e:
        return ("not_decodable:%s" % type(e).__name__, repr(e)[:200])
    exp = T.from_node(node)
    bad = find_bad_value(node)
    if bad:
        return ("bad_value_type", bad)
    d = T.diff(exp, T.from_node(back))
    if d:
        return ("changed_by_codec", d)
    return None


def find_bad_value(node, path=""):
    here = path + "/" + str(node.tag)
    if not isinstance(node.tag, str):
        return "%s tag is %s" % (here, type(node.tag).__name__)
    for k, v in node.attributes.items():
        if not isinstance(k, str) or not isinstance(v, str):
            return "%s attribute %r has %s value %r" % (here, k, type(v).__name__, _short(v))
        if v == "":
            return "%s attribute %r is the empty string" % (here, k)
    if node.data is not None and not isinstance(node.data, (bytes, bytearray)):
        return "%s data is %s" % (here, type(node.data).__name__)
    for c in node.children:
        b = find_bad_value(c, here)
        if b:
            return b
    return None


def nontrivial(case, out):
    return bool(out.info and out.info.get("nt"))


def plan(tier):
    quick = tier == "quick"
    strategies = []
    n_recv = 12 if quick else 250
    n_send = 8 if quick else 150
    import os
    import re
    flt = os.environ.get("VERIF_C09_NAMES")
    keep = (lambda r: re.search(flt, r.name + " " + r.cls_path) is not None) if flt else (lambda r: True)
    for r in [r for r in E.RECV if keep(r)]:
        strategies.append(("recv:" + r.name,
                           S.shape_strategy(r.shape).map(lambda t, _n=r.name: {"sub": "recv", "name": _n, "tree": S.tree_to_json(t)}),
                           n_recv))
        if S.shape_has_blob(r.shape):
            strategies.append(("recv_large:" + r.name,
                               S.shape_strategy(r.shape, large=True).map(lambda t, _n=r.name: {"sub": "recv", "name": _n, "tree": S.tree_to_json(t)}),
                               1 if quick else 10))
    import inspect
    for r in [r for r in E.RECV if keep(r)]:
        try:
            n_props = len([1 for k, v in inspect.getmembers(r.load()) if isinstance(v, property) and v.fset is not None])
        except Exception:
            n_props = 0
        if n_props:
            strategies.append(("recv_edit:" + r.name,
                               st.tuples(S.shape_strategy(r.shape), S.shape_strategy(r.shape), st.lists(st.integers(0, 15), min_size=1, max_size=6)).map(
                                   lambda t, _n=r.name: {"sub": "recv_edit", "name": _n, "tree": S.tree_to_json(t[0]), "tree2": S.tree_to_json(t[1]), "order": t[2]}),
                               n_recv))
    for r in [r for r in E.SEND if keep(r)]:
        strategies.append(("send:" + r.name,
                           S.args_strategy(r.args, r.kwargs).map(lambda ak, _n=r.name: {"sub": "send", "name": _n, "args": ak[0], "kwargs": ak[1]}),
                           n_send))
        if S.args_have_blob(r.args, r.kwargs):
            strategies.append(("send_large:" + r.name,
                               S.args_strategy(r.args, r.kwargs, large=True).map(lambda ak, _n=r.name: {"sub": "send", "name": _n, "args": ak[0],
                                                                                                        "kwargs": ak[1]}),
                               1 if quick else 10))
    return {
        "shards": 16,
        "enumerations": [],
        "strategies": strategies,
        "shrink": "hypothesis",
        "budget_s": 200 if quick else 1800,
        "collect_all": True,
    }

RULE += (' Also recv_edit: an entity serialised once and then edited through its own property setters serialises like an unserialised twin given the same edits; an empty status text.')
RULE += (" Every sent stanza is also encoded by an encoder that refused another stanza before (as the connection's one encoder may have); the frame must be the same.")
