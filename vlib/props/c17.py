"""C17 - contact identity keys are pinned: a changed key is never accepted silently.

C03's harness (real client stacks against the server double) plus reinstall(account): a fresh profile directory, hence a
new identity that uploads new keys.  A model keeps, per owner and contact, the identity version the owner has pinned; the
owner's key store is read back through a separate SQLite connection.
"""
import os
import sqlite3

from .. import compat  # noqa: F401
from ..core import Outcome
from ..kit import accounts as A
from . import c03
from hypothesis import strategies as st

from yowsup.layers.axolotl.props import PROP_IDENTITY_AUTOTRUST
from yowsup.layers.protocol_messages.protocolentities import TextMessageProtocolEntity

ID = "C17"
LEVEL = "exploration"
RULE = ("generated histories of 2-12 operations over 2-3 accounts with automatic trust on/off per account: message(from, to), "
        "group message(from) to the group of all accounts (decided per member), one-to-one message delivered under the broadcast "
        "address with the sender as participant (only the refusal is asserted), "
        "reinstall(account) (fresh profile directory: new identity, first login uploads new keys), restart(account), switching automatic trust on or off while running, notify(owner, contact) "
        "(the server's identity-change notification, answered by the library with a key-bundle fetch); every operation "
        "is settled before the next. After each message the model decides whether it must be delivered (the sender accepts the "
        "recipient's current identity and the recipient accepts the sender's: unknown, equal to the pin, or auto-trust) and the pins "
        "are read from each owner's SQLite store through a separate connection. Store faults (manager level, own store per case): the owner has contact B pinned and a session with it; B's second installation presents a key bundle or a first message while the n-th statement on the owner's key store (n = 1..8; reads only, or any statement) fails like a locked database; automatic trust on/off. The call may fail in any way; with automatic trust off (and for a first message always) the new identity must not be accepted, pinned or given a session, and must be refused afterwards. Non-trivial = a reinstall followed by traffic in both "
        "directions between the reinstalled account and another one, or a store-fault case whose fault fired. Distinct = distinct canonical JSON.")
ASSUMPTIONS = [
    "delivery order is FIFO here, reordering and duplication are C03's domain; one group containing all accounts",
    "external defect E3 corrected in the harness as in C03",
]

JIDS = c03.JIDS[:3]
GROUP = c03.GROUPS[0]


def db_path(home, phone):
    return os.path.join(home, "yowsup", phone, "axolotl.db")


def own_identity(home, phone):
    con = sqlite3.connect(db_path(home, phone))
    try:
        row = con.execute("SELECT public_key FROM identities WHERE recipient_id = -1").fetchone()
        return bytes(row[0]) if row else None
    finally:
        con.close()


def stored_pin(home, phone, contact_phone):
    p = db_path(home, phone)
    if not os.path.exists(p):
        return None
    con = sqlite3.connect(p)
    try:
        row = con.execute("SELECT public_key FROM identities WHERE recipient_id = ?", (int(contact_phone),)).fetchone()
        return bytes(row[0]) if row else None
    finally:
        con.close()


class World17(object):
    def __init__(self, case):
        A.install()
        self.server = A.Server()
        self.clients = {}
        self.homes = {}
        self.all_homes = []
        n = case["accounts"]
        self.jids = JIDS[:n]
        # None = the application never set the option: the default must be "off"
        self.option = {jid: case["autotrust"][i % len(case["autotrust"])] for i, jid in enumerate(self.jids)}
        self.autotrust = {jid: bool(v) for jid, v in self.option.items()}
        self.version = {jid: 0 for jid in self.jids}
        self.identity = {}      # (jid, version) -> identity public key bytes
        for jid in self.jids:
            home, bundle = A.template(jid, registered=True)
            h = A.clone(home)
            self.homes[jid] = h
            self.all_homes.append(h)
            self.server.keys[jid] = A.copy_bundle(bundle)
            self.clients[jid] = A.Client(self.server, jid, h, props=self.props_of(jid))
            self.identity[(jid, 0)] = own_identity(h, jid.split("@")[0])
        self.server.groups[GROUP] = list(self.jids)
        for c in self.clients.values():
            c.connect()
            A.settle(self.server, self.clients)

    def props_of(self, jid):
        return {} if self.option[jid] is None else {PROP_IDENTITY_AUTOTRUST: self.option[jid]}

    def reinstall(self, jid):
        self.clients[jid].stop()
        self.version[jid] += 1
        home, _ = A.template(jid, registered=False, tag="reinstall%d" % self.version[jid])
        h = A.clone(home)
        self.homes[jid] = h
        self.all_homes.append(h)
        c = A.Client(self.server, jid, h, props=self.props_of(jid))
        self.clients[jid] = c
        c.connect()
        A.settle(self.server, self.clients)
        if not c.connected():
            c.connect()
            A.settle(self.server, self.clients)
        self.identity[(jid, self.version[jid])] = own_identity(h, jid.split("@")[0])

    def close(self):
        import shutil
        for c in self.clients.values():
            try:
                c.stop()
            except Exception:
                pass
        for h in self.all_homes:
            shutil.rmtree(h, ignore_errors=True)


class _FaultyCursor(object):
    def __init__(self, real, conn):
        self._real = real
        self._conn = conn

    def execute(self, q, *a):
        self._conn.before(q)
        self._real.execute(q, *a)
        return self

    def __getattr__(self, k):
        return getattr(self._real, k)

    def __iter__(self):
        return iter(self._real)


class _FaultyConn(object):
    """the store's connection with one injected fault: the n-th statement of the chosen class (read / any) fails the way a
    database locked by another process using the same profile fails"""
    def __init__(self, real, fail_at, reads_only):
        self._real = real
        self.fail_at = fail_at
        self.reads_only = reads_only
        self.n = 0
        self.fired = None
        self.armed = True

    def before(self, q):
        if not self.armed:
            return
        if self.reads_only and not q.lstrip().upper().startswith("SELECT"):
            return
        self.n += 1
        if self.n == self.fail_at:
            self.fired = q.strip()[:60]
            raise sqlite3.OperationalError("database is locked")

    def cursor(self):
        return _FaultyCursor(self._real.cursor(), self)

    def execute(self, q, *a):
        self.before(q)
        return self._real.execute(q, *a)

    def __getattr__(self, k):
        return getattr(self._real, k)


_fault_pool = {}


def _fault_material():
    """contact B in two installations, each with a key bundle; built once per process"""
    if _fault_pool:
        return _fault_pool
    from axolotl.util.keyhelper import KeyHelper
    from axolotl.state.prekeybundle import PreKeyBundle
    from yowsup.axolotl.store.sqlite.liteaxolotlstore import LiteAxolotlStore
    inst = []
    for v in range(2):
        b = LiteAxolotlStore(":memory:")
        pks = KeyHelper.generatePreKeys(1 + 10 * v, 4)
        for pk in pks:
            b.storePreKey(pk.getId(), pk)
        spk = KeyHelper.generateSignedPreKey(b.getIdentityKeyPair(), 3 + v)
        b.storeSignedPreKey(spk.getId(), spk)
        inst.append((b, pks, spk))
    _fault_pool.update(inst=inst, PreKeyBundle=PreKeyBundle, Store=LiteAxolotlStore, KeyHelper=KeyHelper)
    return _fault_pool


def _store_fault(case, out):
    """manager level: the owner has contact B pinned (first installation); B's second installation presents itself through a key
    bundle or a first message while ONE statement on the owner's key store fails (database locked).  A failed read of the pin is
    not "no pin": with automatic trust off the new identity must not get accepted, whatever else happens to the call."""
    from yowsup.axolotl.manager import AxolotlManager
    from yowsup.axolotl import exceptions as yex
    from axolotl.sessionbuilder import SessionBuilder
    from axolotl.sessioncipher import SessionCipher
    from axolotl.untrustedidentityexception import UntrustedIdentityException as AxUntrusted
    M = _fault_material()
    B = "4922222222"
    OWNER = "4911111111"
    autotrust = bool(case.get("autotrust"))
    action = case["action"]
    out.label("store_fault", "action=" + action, "autotrust=%d" % autotrust, "reads_only" if case.get("reads_only", True) else "any_statement")
    store = M["Store"](":memory:")
    mgr = AxolotlManager(store, OWNER)
    own_prekeys = mgr.level_prekeys(force=True)
    own_signed = mgr.load_latest_signed_prekey(generate=True)

    def bundle_of(v, k):
        b, pks, spk = M["inst"][v]
        pk = pks[k % len(pks)]
        return M["PreKeyBundle"](b.getLocalRegistrationId(), 1, pk.getId(), pk.getKeyPair().getPublicKey(), spk.getId(),
                                 spk.getKeyPair().getPublicKey(), spk.getSignature(), b.getIdentityKeyPair().getPublicKey())

    ident = [M["inst"][v][0].getIdentityKeyPair().getPublicKey() for v in range(2)]
    mgr.create_session(B, bundle_of(0, 0))
    mgr.encrypt(B, b"first")
    if not store.isTrustedIdentity(B, ident[0]) or store.isTrustedIdentity(B, ident[1]):
        raise RuntimeError("setup: first identity not pinned")
    pkmsg = None
    if action == "pkmsg":
        # the second installation writes first: it fetched the owner's keys
        b2 = M["inst"][1][0]
        # the pooled installation may remember an owner of an earlier case
        b2.identityKeyStore.dbConn.execute("DELETE FROM identities WHERE recipient_id = ?", (OWNER,))
        b2.identityKeyStore.dbConn.commit()
        pk = own_prekeys[case.get("k", 0) % len(own_prekeys)]
        ob = M["PreKeyBundle"](mgr.registration_id, 1, pk.getId(), pk.getKeyPair().getPublicKey(), own_signed.getId(),
                               own_signed.getKeyPair().getPublicKey(), own_signed.getSignature(), mgr.identity.getPublicKey())
        try:
            b2.deleteAllSessions(OWNER)
        except Exception:
            pass
        SessionBuilder(b2, b2, b2, b2, OWNER, 1).processPreKeyBundle(ob)
        pkmsg = SessionCipher(b2, b2, b2, b2, OWNER, 1).encrypt(b"from the new installation\x01").serialize()

    def act():
        if action == "bundle":
            return mgr.create_session(B, bundle_of(1, case.get("k", 0)), autotrust=autotrust)
        return mgr.decrypt_pkmsg(B, pkmsg, False)

    # ---- the call with one failing statement
    subs = [store.identityKeyStore, store.preKeyStore, store.signedPreKeyStore, store.sessionStore, store.senderKeyStore]
    real = store.identityKeyStore.dbConn
    faulty = _FaultyConn(real, 1 + case.get("fail_at", 0), case.get("reads_only", True))
    for sub in subs:
        sub.dbConn = faulty
    raised = None
    result = None
    try:
        result = act()
    except Exception as e:  # noqa
        raised = e
    finally:
        faulty.armed = False
        for sub in subs:
            sub.dbConn = real
        try:
            real.rollback()      # the failed call's process gives up its transaction
        except Exception:
            pass
    out.label("fault_fired" if faulty.fired else "fault_not_reached")
    if faulty.fired:
        out.label("failed_statement=" + faulty.fired.split(" WHERE")[0][:40])
    accepted_now = raised is None
    pinned_old = store.isTrustedIdentity(B, ident[0])
    pinned_new = store.isTrustedIdentity(B, ident[1])
    sess_new = False
    if store.containsSession(B, 1):
        rk = store.loadSession(B, 1).getSessionState().getRemoteIdentityKey()
        sess_new = rk is not None and rk == ident[1]
    strict = (not autotrust) or action == "pkmsg"     # the manager's decrypt has no automatic trust of its own
    detail = {"fired": faulty.fired, "raised": repr(raised)[:160], "autotrust": autotrust, "action": action}
    if strict:
        if accepted_now:
            out.fail("pin", "store_fault:%s:new_identity_accepted_while_a_store_statement_failed" % action, detail)
        elif pinned_new and not pinned_old:
            out.fail("pin", "store_fault:%s:remembered_identity_replaced" % action, detail)
        elif not pinned_old:
            out.fail("pin", "store_fault:%s:remembered_identity_lost" % action, detail)
        elif sess_new:
            out.fail("pin", "store_fault:%s:session_with_the_new_identity" % action, detail)
        if out.violations:
            return out
        # and without the fault the same presentation is refused as ever
        try:
            act()
            out.fail("pin", "store_fault:%s:new_identity_accepted_afterwards" % action, detail)
        except (yex.UntrustedIdentityException, AxUntrusted):
            out.label("refused_afterwards")
        except Exception as e:
            out.fail("pin", "store_fault:%s:afterwards_raises:%s" % (action, type(e).__name__), dict(detail, error=repr(e)[:200]))
    else:
        if accepted_now and not (pinned_new and sess_new):
            out.fail("pin", "store_fault:bundle:autotrust_call_returned_without_trusting_or_without_session", detail)
        if not pinned_old and not pinned_new:
            out.fail("pin", "store_fault:bundle:remembered_identity_lost", detail)
    out.info = {"nt": bool(faulty.fired)}
    try:
        real.close()
    except Exception:
        pass
    return out


def run_case(case):
    out = Outcome()
    if case["sub"] == "store_fault":
        return _store_fault(case, out)
    w = World17(case)
    try:
        return _run(case, out, w)
    finally:
        w.close()


def _run(case, out, w):
    import random
    random.seed(case.get("seed", 0))
    server, clients = w.server, w.clients
    pin = {o: {} for o in w.jids}        # owner -> contact -> version
    traffic_after_reinstall = set()
    reinstalled = set()
    out.label("accounts=%d" % len(w.jids), "autotrust=" + "".join("d" if w.option[j] is None else "1" if w.autotrust[j] else "0" for j in w.jids))

    def accepts(owner, contact):
        p = pin[owner].get(contact)
        return p is None or p == w.version[contact] or w.autotrust[owner]

    def check_stores(step, op):
        for o in w.jids:
            for c, v in pin[o].items():
                got = stored_pin(w.homes[o], o.split("@")[0], c.split("@")[0])
                exp = w.identity[(c, v)]
                if got is None:
                    out.fail("pin", "pin:remembered_identity_missing", {"step": step, "owner": o, "contact": c, "op": op[:3]})
                    return False
                if got != exp:
                    cur = w.identity.get((c, w.version[c]))
                    what = "replaced_by_new_identity_without_autotrust" if (got == cur and not w.autotrust[o]) else "differs"
                    out.fail("pin", "pin:stored_identity_%s" % what, {"step": step, "owner": o, "contact": c, "op": op[:3],
                                                                     "autotrust": w.autotrust[o]})
                    return False
        return True

    n_msgs = 0
    for step, op in enumerate(case["ops"]):
        kind = op[0]
        refusing_sender = None
        if kind in ("send", "gsend"):
            s = w.jids[op[1] % len(w.jids)]
            others = [j for j in w.jids if j != s]
            if kind == "gsend":
                to = GROUP
                recipients = others
                out.label("group_message")
            else:
                to = others[op[2] % len(others)]
                recipients = [to]
            n_msgs += 1
            body = "pinned-%d-%s" % (n_msgs, c03.marker(n_msgs, "b"))
            ent = TextMessageProtocolEntity(body, to=to)
            toggle = op[3] if kind == "send" and len(op) > 3 and isinstance(op[3], dict) else None
            if toggle is not None:
                # the sender's application switches the option while the answers to the sender's key requests of this exchange are
                # still on their way: what counts is what the option says when a presented identity is judged
                w.option[s] = w.autotrust[s] = bool(toggle["value"])
            verdicts = {r: (accepts(s, r), accepts(r, s)) for r in recipients}
            refusing_sender = s if any(not v[0] for v in verdicts.values()) else None
            if not clients[s].connected():
                clients[s].connect()
                A.settle(server, clients)
            if toggle is not None:
                server.key_fetch_policy = ["held"] * 8
            err = clients[s].send(ent)
            if err is not None:
                out.fail("send", "send:raises:%s" % type(err).__name__, {"step": step, "error": repr(err)[:300]})
                return out
            if not A.settle(server, clients):
                out.fail("drain", "queues_do_not_drain", {"step": step, "left": len(server.outq)})
                return out
            if toggle is not None:
                clients[s].props = w.props_of(s)
                clients[s].set_prop(PROP_IDENTITY_AUTOTRUST, bool(toggle["value"]))
                server.key_fetch_policy = []
                held = server.release_key_results()
                out.label("autotrust_switched_%s_with_%s" % ("on" if toggle["value"] else "off",
                                                           "key_answers_on_their_way" if any(j == s for j, a in held) else "nothing_on_its_way"))
                if not A.settle(server, clients):
                    out.fail("drain", "queues_do_not_drain", {"step": step, "left": len(server.outq)})
                    return out
            scope = "group:" if kind == "gsend" else ""
            for r in recipients:
                s_accepts, r_accepts = verdicts[r]
                expected = s_accepts and r_accepts
                got = [e for e in clients[r].app_got if e.getTag() == "message" and e.getId() == ent.getId()]
                label = "expected_delivery" if expected else ("sender_refuses" if not s_accepts else "recipient_refuses")
                out.label(scope + label)
                if s in reinstalled or r in reinstalled:
                    traffic_after_reinstall.add((s, r))
                if expected and len(got) != 1:
                    out.fail("delivery", "delivery:%smessage_delivered_%d_times_expected_1" % (scope, len(got)),
                             {"step": step, "from": s, "to": r, "autotrust_sender": w.autotrust[s], "autotrust_recipient": w.autotrust[r],
                              "pin_sender": pin[s].get(r), "pin_recipient": pin[r].get(s), "versions": dict(w.version)})
                    return out
                if not expected and got:
                    which = "message_encrypted_for_unaccepted_new_identity" if not s_accepts else "message_from_unaccepted_new_identity_delivered"
                    out.fail("pin", "pin:%s%s" % (scope, which), {"step": step, "from": s, "to": r, "pin_sender": pin[s].get(r),
                                                                 "pin_recipient": pin[r].get(s), "versions": dict(w.version)})
                    return out
                if got and (got[0].getBody() != body or (got[0].getParticipant() if kind == "gsend" else got[0].getFrom()) != s):
                    out.fail("delivery", "delivery:content_or_sender_differs", {"step": step})
                    return out
                # model update.  The sender always transmits something (with its existing session, or with a fresh one if it
                # accepts the recipient's identity); a recipient that cannot decrypt for lack of a session fetches the sender's
                # keys, so it learns - and, if it accepts it, pins - the sender's identity whether or not the message gets through
                if s_accepts:
                    if kind == "send" or expected or pin[s].get(r) is not None:
                        pin[s][r] = w.version[r]
                    else:
                        # group message to a member the sender had no pin for, not delivered: whether the sender opened a session
                        # depends on what it still had; absent or the member's current identity are both legitimate
                        got_pin = stored_pin(w.homes[s], s.split("@")[0], r.split("@")[0])
                        if got_pin is not None:
                            if got_pin != w.identity[(r, w.version[r])]:
                                out.fail("pin", "pin:stored_identity_differs", {"step": step, "owner": s, "contact": r})
                                return out
                            pin[s][r] = w.version[r]
                if r_accepts:
                    if expected or pin[r].get(s) is not None:
                        pin[r][s] = w.version[s]
                    else:
                        # not delivered and nothing pinned yet: whether the recipient fetched the sender's keys depends on the
                        # ratchet state of the sender's stale session (an unacknowledged one sends prekey messages, which are
                        # answered with a retry only).  Both outcomes are legitimate: absent, or the sender's current identity.
                        got_pin = stored_pin(w.homes[r], r.split("@")[0], s.split("@")[0])
                        if got_pin is not None:
                            if got_pin != w.identity[(s, w.version[s])]:
                                out.fail("pin", "pin:stored_identity_differs", {"step": step, "owner": r, "contact": s})
                                return out
                            pin[r][s] = w.version[s]
            for other in w.jids:
                if other not in recipients and any(e.getTag() == "message" and e.getId() == ent.getId() for e in clients[other].app_got):
                    out.fail("delivery", "delivery:message_reached_someone_else", {"step": step})
                    return out
        elif kind == "bsend":
            # a one-to-one encrypted message that reaches the recipient labelled as a broadcast (from="status@broadcast",
            # participant=sender), as status updates and broadcast lists arrive.  Receipts for it cannot be routed back by the
            # server double, so only the refusal is asserted: nothing from an unaccepted identity is shown or pinned
            s = w.jids[op[1] % len(w.jids)]
            others = [j for j in w.jids if j != s]
            r = others[op[2] % len(others)]
            n_msgs += 1
            body = "pinned-%d-%s" % (n_msgs, c03.marker(n_msgs, "b"))
            ent = TextMessageProtocolEntity(body, to=r)
            s_accepts, r_accepts = accepts(s, r), accepts(r, s)
            if not clients[s].connected():
                clients[s].connect()
                A.settle(server, clients)
            server.label_next_as_broadcast = True
            err = clients[s].send(ent)
            if err is not None:
                out.fail("send", "send:raises:%s" % type(err).__name__, {"step": step, "error": repr(err)[:300]})
                return out
            if not A.settle(server, clients):
                out.fail("drain", "queues_do_not_drain", {"step": step, "left": len(server.outq)})
                return out
            server.label_next_as_broadcast = False
            got = [e for e in clients[r].app_got if e.getTag() == "message" and e.getId() == ent.getId()]
            out.label("broadcast_labelled:" + ("accepted" if (s_accepts and r_accepts) else "sender_refuses" if not s_accepts else "recipient_refuses"))
            if s in reinstalled or r in reinstalled:
                traffic_after_reinstall.add((s, r))
            if len(got) > 1 or (got and not (s_accepts and r_accepts)):
                which = "message_encrypted_for_unaccepted_new_identity" if not s_accepts else "message_from_unaccepted_new_identity_delivered"
                out.fail("pin", "pin:broadcast:%s" % (which if len(got) == 1 else "delivered_%d_times" % len(got)),
                         {"step": step, "from": s, "to": r, "pin_sender": pin[s].get(r), "pin_recipient": pin[r].get(s), "versions": dict(w.version)})
                return out
            for owner, contact, ok in ((s, r, s_accepts), (r, s, r_accepts)):
                got_pin = stored_pin(w.homes[owner], owner.split("@")[0], contact.split("@")[0])
                prev = pin[owner].get(contact)
                if got_pin is None:
                    if prev is not None:
                        out.fail("pin", "pin:remembered_identity_missing", {"step": step, "owner": owner, "contact": contact, "op": op[:3]})
                        return out
                elif prev is not None and got_pin == w.identity[(contact, prev)]:
                    pass
                elif ok and got_pin == w.identity[(contact, w.version[contact])]:
                    pin[owner][contact] = w.version[contact]
                else:
                    out.fail("pin", "pin:stored_identity_%s" % ("replaced_by_new_identity_without_autotrust" if not ok else "differs"),
                             {"step": step, "owner": owner, "contact": contact, "op": op[:3]})
                    return out
            # whatever was pinned under the broadcast address itself must not exist: identities belong to contacts
            for owner in (s, r):
                con = sqlite3.connect(db_path(w.homes[owner], owner.split("@")[0]))
                try:
                    ids = [row[0] for row in con.execute("SELECT recipient_id FROM identities WHERE recipient_id != -1")]
                finally:
                    con.close()
                known = set(int(j.split("@")[0]) for j in w.jids)
                extra = [i for i in ids if i not in known]
                if extra:
                    out.fail("pin", "pin:identity_recorded_under_a_name_that_is_no_contact", {"step": step, "owner": owner, "ids": [str(i) for i in extra]})
                    return out
        elif kind == "reinstall":
            jid = w.jids[op[1] % len(w.jids)]
            w.reinstall(jid)
            clients = w.clients
            pin[jid] = {}
            reinstalled.add(jid)
            out.label("reinstall")
            if not clients[jid].connected():
                out.fail("setup", "reinstalled_account_not_connected", {"jid": jid, "errors": [e[:2] for e in clients[jid].errors]})
                return out
        elif kind == "notify":
            # the server announces "contact c changed its identity" to o; the library reacts by fetching c's key bundle
            o = w.jids[op[1] % len(w.jids)]
            others = [j for j in w.jids if j != o]
            c = others[op[2] % len(others)]
            if not clients[o].connected():
                clients[o].connect()
                A.settle(server, clients)
            o_accepts = accepts(o, c)
            before = len([1 for j, n in server.log if j == o and n.tag == "iq" and n["xmlns"] == "encrypt" and n["type"] == "get"])
            server.q(o, A.N("notification", {"from": c, "id": "idchange-%d" % step, "type": "encrypt", "t": "1500000200"}, [A.N("identity")]))
            if not A.settle(server, clients):
                out.fail("drain", "queues_do_not_drain", {"step": step, "left": len(server.outq)})
                return out
            fetched = len([1 for j, n in server.log if j == o and n.tag == "iq" and n["xmlns"] == "encrypt" and n["type"] == "get"]) - before
            out.label("identity_change_notification:" + ("changed" if pin[o].get(c) not in (None, w.version[c]) else "same_or_unknown"))
            if fetched and o_accepts:
                pin[o][c] = w.version[c]
            if c in reinstalled:
                traffic_after_reinstall.add((c, o))
        elif kind == "set_autotrust":
            # the application changes the option while it is running (and keeps it for later restarts)
            jid = w.jids[op[1] % len(w.jids)]
            value = bool(op[2])
            w.option[jid] = value
            w.autotrust[jid] = value
            clients[jid].props = w.props_of(jid)
            clients[jid].set_prop(PROP_IDENTITY_AUTOTRUST, value)
            out.label("autotrust_switched_" + ("on" if value else "off"))
        elif kind == "restart":
            jid = w.jids[op[1] % len(w.jids)]
            clients[jid].stop()
            clients[jid].start()
            clients[jid].connect()
            A.settle(server, clients)
            out.label("restart")
        else:
            raise ValueError(kind)
        if refusing_sender is not None and clients[refusing_sender].errors:
            # a send the sender had to refuse (changed identity, no automatic trust) may end in an error inside the sender instead
            # of a quiet skip: the statement only says that nothing is encrypted for the new identity
            out.label("refused_send_ended_in_exception:" + str(clients[refusing_sender].errors[0][1])[:40])
            del clients[refusing_sender].errors[:]
        for jid, c in clients.items():
            if c.errors:
                out.fail("error", "client_error:%s" % c.errors[0][0], {"step": step, "op": op[:3], "jid": jid, "error": list(c.errors[0])[:3]})
                return out
        if not check_stores(step, op):
            return out
    both = any((a, b) in traffic_after_reinstall and (b, a) in traffic_after_reinstall for a in w.jids for b in w.jids)
    out.info = {"nt": both}
    return out


def nontrivial(case, out):
    return bool(out.info and out.info.get("nt"))


def shrink_candidates(case):
    if case["sub"] != "history":
        return
    ops = case["ops"]
    for i in range(len(ops) - 1, -1, -1):
        yield dict(case, ops=ops[:i] + ops[i + 1:])


def script_strategy():
    sel = st.integers(0, 5)
    send = st.one_of(st.tuples(st.just("send"), sel, sel).map(list), st.tuples(st.just("send"), sel, sel).map(list),
                     st.tuples(st.just("send"), sel, sel, st.booleans().map(lambda v: {"value": v})).map(list))
    gsend = st.tuples(st.just("gsend"), sel).map(list)
    bsend = st.tuples(st.just("bsend"), sel, sel).map(list)
    op = st.one_of(send, send, send, gsend, gsend, bsend, st.tuples(st.just("set_autotrust"), sel, st.booleans()).map(list), st.tuples(st.just("reinstall"), sel).map(list), st.tuples(st.just("restart"), sel).map(list),
                   st.tuples(st.just("notify"), sel, sel).map(list))

    @st.composite
    def build(draw):
        n = draw(st.integers(2, 3))
        return {"sub": "history", "accounts": n, "seed": draw(st.integers(0, 2 ** 31 - 1)),
                "autotrust": draw(st.lists(st.sampled_from([False, True, None]), min_size=n, max_size=n)),
                "ops": draw(st.lists(op, min_size=2, max_size=12))}
    return build()


def _enum_basic():
    for at in ([False, False], [True, True], [False, True], [True, False], [None, None]):
        yield {"sub": "history", "accounts": 2, "autotrust": at, "seed": 1,
               "ops": [["send", 0, 0], ["send", 1, 0], ["reinstall", 1], ["send", 0, 0], ["send", 1, 0], ["restart", 0], ["send", 1, 0],
                       ["send", 0, 0], ["send", 0, 0]]}
    for at in ([False, False], [True, False], [None, None]):
        yield {"sub": "history", "accounts": 2, "autotrust": at, "seed": 3,
               "ops": [["send", 0, 0], ["send", 1, 0], ["notify", 0, 0], ["send", 0, 0], ["reinstall", 1], ["notify", 0, 0], ["send", 0, 0],
                       ["restart", 0], ["send", 0, 0], ["send", 1, 0]]}
    for at in ([False, False], [None, True]):
        yield {"sub": "history", "accounts": 2, "autotrust": at, "seed": 4,
               "ops": [["send", 0, 0], ["send", 1, 0], ["bsend", 1, 0], ["reinstall", 1], ["bsend", 1, 0], ["send", 0, 0], ["restart", 0], ["bsend", 1, 0]]}
    yield {"sub": "history", "accounts": 2, "autotrust": [False, None], "seed": 5,
           "ops": [["send", 0, 0], ["send", 1, 0], ["reinstall", 1], ["send", 0, 0], ["set_autotrust", 0, True], ["send", 0, 0], ["send", 1, 0],
                   ["set_autotrust", 0, False], ["reinstall", 1], ["send", 0, 0], ["restart", 0], ["send", 1, 0]]}
    # the same contact reinstalls twice; each time its first message is how the owner learns of the new identity
    for at in ([True, True], [True, False], [False, False]):
        yield {"sub": "history", "accounts": 2, "autotrust": at, "seed": 6,
               "ops": [["send", 0, 0], ["send", 1, 0], ["reinstall", 1], ["send", 1, 0], ["send", 0, 0], ["reinstall", 1], ["send", 1, 0], ["send", 0, 0],
                       ["reinstall", 1], ["send", 1, 0], ["restart", 0], ["send", 1, 0]]}
    yield {"sub": "history", "accounts": 3, "autotrust": [False, False, True], "seed": 2,
           "ops": [["send", 0, 0], ["send", 0, 1], ["send", 2, 0], ["reinstall", 0], ["send", 0, 0], ["send", 0, 1], ["send", 1, 0], ["send", 2, 0],
                   ["restart", 1], ["send", 0, 0]]}


def _enum_toggle_in_flight():
    """the sender switches automatic trust while the bundle that presents the contact's new identity is on its way"""
    for start, value in ((True, False), (False, True), (None, True), (True, True), (False, False)):
        yield {"sub": "history", "accounts": 2, "autotrust": [start, False], "seed": 7,
               "ops": [["send", 0, 0], ["send", 1, 0], ["reinstall", 1], ["send", 0, 0, {"value": value}], ["send", 0, 0], ["restart", 0],
                       ["send", 0, 0], ["send", 1, 0]]}
        yield {"sub": "history", "accounts": 2, "autotrust": [start, False], "seed": 8,
               "ops": [["send", 0, 0, {"value": value}], ["send", 1, 0], ["reinstall", 1], ["send", 0, 0, {"value": not value}], ["send", 0, 0]]}


def _enum_store_fault():
    for action in ("bundle", "pkmsg"):
        for autotrust in (False, True):
            for reads_only in (True, False):
                for j in range(8):
                    yield {"sub": "store_fault", "action": action, "autotrust": autotrust, "reads_only": reads_only, "fail_at": j, "k": j % 3}


def plan(tier):
    quick = tier == "quick"
    fault = st.builds(lambda a, t, r, j, k: {"sub": "store_fault", "action": a, "autotrust": t, "reads_only": r, "fail_at": j, "k": k},
                      st.sampled_from(["bundle", "pkmsg"]), st.booleans(), st.booleans(), st.integers(0, 8), st.integers(0, 3))
    return {
        "shards": 16,
        "enumerations": [("basic_histories", _enum_basic), ("store_fault_sweep", _enum_store_fault),
                         ("autotrust_switched_with_key_answers_on_their_way", _enum_toggle_in_flight)],
        "strategies": [("histories", script_strategy(), 25 if quick else 700), ("store_fault", fault, 40 if quick else 600)],
        "shrink": "ddmin",
        "budget_s": 200 if quick else 2400,
    }
RULE = RULE + (" A send may carry a switch of the sender's automatic-trust option that takes effect while the answers to the sender's key requests are still on their way (held by the server double); the option as it stands when the identity is judged decides.")
