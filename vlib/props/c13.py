"""C13 - encryption key store: durable across reopen, updates all-or-nothing across crashes.

Scripts over the store API with real records; a dict model is kept in lock-step.  Every mutating operation
runs under the crash-point recorder (kit/crash.py); every distinct on-disk state is reopened with the real
store class (SQLite performs its own hot-journal recovery) and compared with the model: the record being
updated holds its previous or its new value (never missing when it existed before and after), every other
record is untouched.
"""
import os
import hashlib
import sys
import json
import shutil
import subprocess

from .. import compat  # noqa: F401
from ..core import Outcome
from ..kit import env as envkit
from ..kit.crash import CrashRecorder
from hypothesis import strategies as st

from yowsup.axolotl.store.sqlite.liteaxolotlstore import LiteAxolotlStore
from axolotl.util.keyhelper import KeyHelper
from axolotl.sessionbuilder import SessionBuilder
from axolotl.sessioncipher import SessionCipher
from axolotl.state.prekeybundle import PreKeyBundle
from axolotl.groups.senderkeyname import SenderKeyName
from axolotl.groups.state.senderkeyrecord import SenderKeyRecord
from axolotl.axolotladdress import AxolotlAddress
from axolotl.groups.groupsessionbuilder import GroupSessionBuilder

ID = "C13"
LEVEL = "fault_enumeration"
RULE = ("generated scripts of 1-14 operations over the store API (save/replace identity, store/replace/delete session, "
        "delete-all sessions, store/remove one-time prekey, mark prekeys as sent (a list in generated order that may also name keys "
        "removed earlier), store/remove signed prekey, store/replace "
        "sender key, close+reopen) over 3 contacts / 2 groups with real records (identity keys, X3DH session records of two "
        "in-memory parties, KeyHelper prekeys, group sender keys); after every op the touched record is read back, after every "
        "reopen and at the end the whole store is compared with the dict model; every mutating op runs under the crash-point "
        "recorder and every distinct on-disk state is reopened and compared (previous or new value), and so is the on-disk state right "
        "after the call returned (new value). Syscall-level crash points: one update of the script (generated position; a sweep over "
        "every position for seven fixed scripts) is also run in a process of its own under strace and killed (SIGKILL) at one of its "
        "write-type system calls (pwrite/fdatasync/unlink..., also inside SQLite's COMMIT); the directory it leaves is reopened with "
        "the store class, compared the same way and checked with PRAGMA integrity_check. Other-process scripts: every update is made by a child process started with its own hash seed and read back in this one. Non-trivial = a replace of an existing identity, "
        "session or sender key with >= 2 crash states, or a reopen after a delete. evaluations counts scripts plus crash states; "
        "distinct = distinct canonical JSON of the script.")
ASSUMPTIONS = [
    "crash model: process death at C-level call boundaries (in-process recorder) and at write-type system calls (strace "
    "injection of SIGKILL, when ptrace is permitted; otherwise labelled syscall_crash_unavailable); no power loss, no torn write",
    "device id 1 and numeric recipient ids, as every caller in the library uses; a session under device id 2 is only tried to see that "
    "the session of device 1 survives it (read_store reads device 1)",
    "the manager never stores a one-time or signed prekey under an id that is taken (it continues after the highest id); the scripts "
    "do try it: the store may refuse or replace, the record must never be lost",
]

CONTACTS = ["4911111111", "4922222222", "15550001234"]
GROUPS = ["4911111111-1500000000@g.us", "123456-789@g.us"]
SENDERS = ["4911111111", "4922222222"]

_pool = {}


def pool():
    """records generated once per process (content is irrelevant to the property, identity of bytes is what counts)"""
    if _pool:
        return _pool
    id_pairs = [KeyHelper.generateIdentityKeyPair() for _ in range(3)]
    ids = [p.getPublicKey() for p in id_pairs]
    # key bundles a contact publishes under each of those identities (two per identity: it publishes fresh keys now and then)
    bundles = []
    for k, pair in enumerate(id_pairs):
        row = []
        for j in range(2):
            pk = KeyHelper.generatePreKeys(100 + 10 * k + j, 1)[0]
            spk = KeyHelper.generateSignedPreKey(pair, 20 + j)
            row.append(PreKeyBundle(1000 + k, 1, pk.getId(), pk.getKeyPair().getPublicKey(), spk.getId(), spk.getKeyPair().getPublicKey(),
                                    spk.getSignature(), pair.getPublicKey()))
        bundles.append(row)
    sessions = []
    for i in range(3):
        a = LiteAxolotlStore(":memory:")
        b = LiteAxolotlStore(":memory:")
        pk = KeyHelper.generatePreKeys(1, 1)[0]
        spk = KeyHelper.generateSignedPreKey(b.getIdentityKeyPair(), 5)
        b.storePreKey(pk.getId(), pk)
        b.storeSignedPreKey(5, spk)
        bundle = PreKeyBundle(b.getLocalRegistrationId(), 1, pk.getId(), pk.getKeyPair().getPublicKey(), 5,
                              spk.getKeyPair().getPublicKey(), spk.getSignature(), b.getIdentityKeyPair().getPublicKey())
        SessionBuilder(a, a, a, a, "4922222222", 1).processPreKeyBundle(bundle)
        sessions.append(a.loadSession("4922222222", 1))
        SessionCipher(a, a, a, a, "4922222222", 1).encrypt(b"x" * (i + 1) + b"\x01")
        sessions.append(a.loadSession("4922222222", 1))
    sender = []
    for i in range(3):
        a = LiteAxolotlStore(":memory:")
        n = SenderKeyName(GROUPS[0], AxolotlAddress(SENDERS[0], 0))
        GroupSessionBuilder(a).create(n)
        sender.append(a.loadSenderKey(n))
    # records of a member who has distributed a new sender key several times (one state per distribution, the newest last)
    from axolotl.ecc.curve import Curve as _Curve
    for n_states in (3, 6, 8):
        rec = SenderKeyRecord()
        for j in range(n_states):
            rec.addSenderKeyState(1000 * n_states + j, j, hashlib.sha256(b"chain-%d-%d" % (n_states, j)).digest(), _Curve.generateKeyPair().getPublicKey())
        sender.append(rec)
    prekeys = KeyHelper.generatePreKeys(1, 40)
    own = KeyHelper.generateIdentityKeyPair()
    signed = [KeyHelper.generateSignedPreKey(own, i) for i in range(6)]
    _pool.update(sender_bytes=[bytes(r.serialize()) for r in sender])
    _pool.update(ids=ids, sessions=sessions, sender=sender, prekeys=prekeys, signed=signed, bundles=bundles)
    return _pool


class Model(object):
    def __init__(self):
        self.identities = {}    # contact -> key index
        self.sessions = {}      # contact -> serialized
        self.prekeys = {}       # id -> (serialized, sent)
        self.signed = {}        # id -> serialized
        self.sender = {}        # (group, sender) -> serialized
        self.max_prekey_id = 0

    def copy(self):
        m = Model()
        m.identities = dict(self.identities)
        m.sessions = dict(self.sessions)
        m.prekeys = dict(self.prekeys)
        m.signed = dict(self.signed)
        m.sender = dict(self.sender)
        return m


def read_store(store, P):
    """observable content through the store API"""
    r = {"identities": {}, "sessions": {}, "prekeys": {}, "signed": {}, "sender": {}}
    for c in CONTACTS:
        trusted = [store.isTrustedIdentity(c, k) for k in P["ids"]]
        if all(trusted):
            r["identities"][c] = None
        elif sum(trusted) == 1:
            r["identities"][c] = trusted.index(True)
        else:
            r["identities"][c] = "unknown-key"
        if store.containsSession(c, 1):
            r["sessions"][c] = bytes(store.loadSession(c, 1).serialize())
            if 1 not in store.getSubDeviceSessions(c):
                r["sessions"][c] = b"inconsistent-subdevice"
    unsent = set(k.getId() for k in store.preKeyStore.loadUnsentPendingPreKeys())
    for pk in P["prekeys"]:
        i = pk.getId()
        if store.containsPreKey(i):
            r["prekeys"][i] = (bytes(store.loadPreKey(i).serialize()), i not in unsent)
    r["all_prekey_ids"] = sorted(k.getId() for k in store.loadPreKeys())
    for spk in P["signed"]:
        i = spk.getId()
        if store.containsSignedPreKey(i):
            r["signed"][i] = bytes(store.loadSignedPreKey(i).serialize())
    r["signed_ids"] = sorted(k.getId() for k in store.loadSignedPreKeys())
    for g in GROUPS:
        for s in SENDERS:
            rec = store.loadSenderKey(SenderKeyName(g, AxolotlAddress(s, 0)))
            if not rec.isEmpty():
                r["sender"][(g, s)] = bytes(rec.serialize())
    ikp = store.getIdentityKeyPair()
    r["own"] = (bytes(ikp.getPublicKey().serialize()), bytes(ikp.getPrivateKey().serialize()), store.getLocalRegistrationId())
    return r


def expect_of(model):
    return {
        "identities": {c: model.identities.get(c) for c in CONTACTS},
        "sessions": dict(model.sessions),
        "prekeys": dict(model.prekeys),
        "signed": dict(model.signed),
        "sender": dict(model.sender),
    }


def compare(got, exp, own, allow=None):
    """allow: (table, key, set of acceptable values incl. the marker ABSENT) for the record being updated"""
    for table in ("identities", "sessions", "prekeys", "signed", "sender"):
        keys = set(got[table]) | set(exp[table])
        for k in keys:
            g = got[table].get(k, ABSENT)
            if table == "identities" and g is None:
                g = ABSENT
            e = exp[table].get(k, ABSENT)
            if table == "identities" and e is None:
                e = ABSENT
            hit = [a for a in (allow if isinstance(allow, list) else [allow] if allow else []) if a[0] == table and k in a[1]]
            if hit:
                if g not in hit[0][1][k]:
                    return "%s[%s]: %s is neither the previous nor the new value" % (table, k, _d(g))
                continue
            if g != e:
                return "%s[%s]: got %s expected %s" % (table, k, _d(g), _d(e))
    if got["own"] != own:
        return "own identity / registration id changed"
    if got["all_prekey_ids"] != sorted(got["prekeys"]):
        return "prekey listing %r disagrees with per-id lookups %r" % (got["all_prekey_ids"], sorted(got["prekeys"]))
    if got["signed_ids"] != sorted(got["signed"]):
        return "signed prekey listing disagrees with per-id lookups"
    return None


ABSENT = "<absent>"


def _d(v):
    if v == ABSENT:
        return "MISSING"
    if isinstance(v, bytes):
        return "record(%d bytes, %s..)" % (len(v), v[:6].hex())
    if isinstance(v, tuple):
        return "(%s, sent=%s)" % (_d(v[0]), v[1])
    return repr(v)


def _close(store):
    """the process that owned the store ends: its connection goes away (an open transaction is rolled back)"""
    try:
        store.identityKeyStore.dbConn.close()
    except Exception:
        pass


_strace_ok = []
WRITE_CALLS = "pwrite64,pwritev,write,fdatasync,fsync,ftruncate,unlink,unlinkat,rename,renameat"


def strace_available():
    if not _strace_ok:
        try:
            r = subprocess.run(["strace", "-o", "/dev/null", "-e", "trace=" + WRITE_CALLS, "-e", "inject=unlink:signal=SIGKILL:when=99",
                                "/bin/true"], stdout=subprocess.PIPE, stderr=subprocess.PIPE, timeout=20)
            _strace_ok.append(r.returncode == 0)
        except Exception:
            _strace_ok.append(False)
    return _strace_ok[0]


def _run_in_other_process(dbpath, home, spec):
    child = os.path.join(os.path.dirname(os.path.dirname(os.path.abspath(__file__))), "kit", "store_child.py")
    with open(os.path.join(home, "other_process.json"), "w") as f:
        json.dump(dict(spec, db=dbpath), f)
    env = dict(os.environ, PYTHONDONTWRITEBYTECODE="1", PYTHONHASHSEED="random")
    r = subprocess.run([sys.executable, child, os.path.join(home, "other_process.json")], env=env, stdout=subprocess.PIPE,
                       stderr=subprocess.PIPE, timeout=120)
    return r.returncode, (r.stdout + r.stderr).decode("utf-8", "replace")


def _syscall_crash(out, dbdir, home, spec, selector, kind, P, exp_before, own, allow):
    """returns True when a violation was recorded"""
    if not strace_available():
        out.label("syscall_crash_unavailable")
        return False
    child = os.path.join(os.path.dirname(os.path.dirname(os.path.abspath(__file__))), "kit", "store_child.py")
    env = dict(os.environ, PYTHONDONTWRITEBYTECODE="1")

    def attempt(n, name):
        work = os.path.join(home, name)
        shutil.copytree(dbdir, work)
        sp = dict(spec, db=os.path.join(work, "axolotl.db"))
        with open(os.path.join(home, name + ".json"), "w") as f:
            json.dump(sp, f)
        log = os.path.join(home, name + ".trace")
        cmd = ["strace", "-f", "-o", log, "-e", "trace=" + WRITE_CALLS]
        if n:
            # strace counts per system call: the n-th write-type call of the run is the k-th call of its own kind
            cmd += ["-e", "inject=%s:signal=SIGKILL:when=%d" % n]
        r = subprocess.run(cmd + [sys.executable, child, os.path.join(home, name + ".json")], env=env, stdout=subprocess.PIPE,
                           stderr=subprocess.PIPE, timeout=120)
        calls = []
        try:
            with open(log) as f:
                for line in f:
                    parts = line.split(None, 1)
                    if len(parts) == 2 and "(" in parts[1] and not parts[1].startswith(("+++", "---")):
                        calls.append(parts[1].split("(", 1)[0].strip())
        except OSError:
            pass
        return work, r, calls

    work0, r0, calls = attempt(0, "sc_count")
    # the child's own report on stdout is not part of the update
    calls = [c for c in calls if c != "write"]
    total = len(calls)
    shutil.rmtree(work0, ignore_errors=True)
    if r0.returncode not in (0, 3) or b"returned" not in r0.stdout and b"raised" not in r0.stdout:
        raise RuntimeError("store child failed: rc=%s %s" % (r0.returncode, r0.stderr[-400:]))
    if total == 0:
        out.label("syscall_crash_no_writes")
        return False
    n = 1 + selector % total
    work, r, _ = attempt((calls[n - 1], calls[:n].count(calls[n - 1])), "sc_kill")
    try:
        killed = r.returncode in (-9, 137)
        out.label("syscall_crash:" + ("killed" if killed else "completed"), "syscall_crash_kind=" + kind)
        journal = os.path.exists(os.path.join(work, "axolotl.db-journal"))
        if journal:
            out.label("syscall_crash_left_a_journal")
        try:
            s2 = LiteAxolotlStore(os.path.join(work, "axolotl.db"))
            got = read_store(s2, P)
            _close(s2)
        except Exception as e:
            out.fail("crash", "syscall_crash:%s:store_does_not_open" % kind, {"at": n, "of": total, "error": repr(e)[:300], "journal_left": journal})
            return True
        d = compare(got, exp_before, own, allow)
        if d:
            out.fail("crash", "syscall_crash:%s:%s" % (kind, "record_missing" if "MISSING" in d else "record_differs"),
                     {"at": n, "of": total, "diff": d[:300], "journal_left": journal})
            return True
        import sqlite3
        con = sqlite3.connect(os.path.join(work, "axolotl.db"))
        try:
            res = con.execute("PRAGMA integrity_check").fetchall()
        except Exception as e:
            res = [(repr(e),)]
        finally:
            con.close()
        if res != [("ok",)]:
            out.fail("crash", "syscall_crash:%s:database_damaged" % kind, {"at": n, "of": total, "integrity_check": str(res)[:300],
                                                                         "journal_left": journal})
            return True
        return False
    finally:
        shutil.rmtree(work, ignore_errors=True)


_own_pool = {}


def _own_identity(case, out):
    """the account's own identity: whatever key pair the store generates for a new account - also one whose public key begins with
    the key-type byte, with zero or with 0xff - is read back byte for byte, at once and after reopening"""
    import yowsup.axolotl.store.sqlite.liteidentitykeystore as LIK
    first = case["first_byte"]
    if first not in _own_pool:
        for _ in range(200000):
            pair = KeyHelper.generateIdentityKeyPair()
            pub = bytes(pair.getPublicKey().getPublicKey().getPublicKey())
            if first is None or pub[0] == first:
                _own_pool[first] = pair
                break
        else:
            raise RuntimeError("no identity key with first byte %r found" % (first,))
    pair = _own_pool[first]
    pub = bytes(pair.getPublicKey().serialize())
    priv = bytes(pair.getPrivateKey().serialize())
    out.label("own_identity", "own_identity:first_key_byte=%s" % ("any" if first is None else "0x%02x" % first))
    home = envkit.fresh_home("c13own")
    real = LIK.KeyHelper.generateIdentityKeyPair
    LIK.KeyHelper.generateIdentityKeyPair = staticmethod(lambda: pair)
    try:
        path = os.path.join(home, "axolotl.db")
        store = LiteAxolotlStore(path)
        for phase in ("new", "reopened"):
            try:
                got = store.getIdentityKeyPair()
                gpub, gpriv = bytes(got.getPublicKey().serialize()), bytes(got.getPrivateKey().serialize())
            except Exception as e:
                out.fail("durability", "own_identity:unreadable:%s" % phase, {"error": repr(e)[:200]})
                return out
            if gpub != pub or gpriv != priv:
                out.fail("durability", "own_identity:%s_key_differs:%s" % ("public" if gpub != pub else "private", phase),
                         {"stored": pub[:6].hex(), "read": gpub[:6].hex(), "stored_len": len(pub), "read_len": len(gpub)})
                return out
            _close(store)
            store = LiteAxolotlStore(path)
        _close(store)
        out.info = {"nt": first is not None}
        return out
    finally:
        LIK.KeyHelper.generateIdentityKeyPair = real
        envkit.drop_home(home)


def run_case(case):
    if case.get("sub") == "own_identity":
        return _own_identity(case, Outcome())
    out = Outcome()
    P = pool()
    home = envkit.fresh_home("c13")
    dbdir = os.path.join(home, "db")
    os.makedirs(dbdir)
    dbpath = os.path.join(dbdir, "axolotl.db")
    snaproot = os.path.join(home, "snaps")
    os.makedirs(snaproot)
    crash = bool(case.get("crash", True))
    states_total = 0
    nt = False
    deleted_before_reopen = False
    removed_prekeys = []
    try:
        if case.get("first_open_killed_after") is not None:
            # the account's very first start was cut short: the process that created the key store died after the k-th statement
            # of creating it.  The next start opens what is there and completes it; everything after that is an ordinary history
            rc, report = _run_in_other_process(dbpath, home, {"first_open_killed_after": int(case["first_open_killed_after"])})
            if rc not in (0, 9):
                raise RuntimeError("store child failed: rc=%s %s" % (rc, report[-400:]))
            out.label("first_open:" + ("killed" if rc == 9 else "completed"))
            nt = True
            try:
                store = LiteAxolotlStore(dbpath)
            except Exception as e:
                out.fail("crash", "first_open_killed:store_does_not_open", {"after": case["first_open_killed_after"], "error": repr(e)[:300]})
                return out
        else:
            store = LiteAxolotlStore(dbpath)
        own = read_store(store, P)["own"]
        model = Model()
        for step, op in enumerate(case["ops"]):
            kind = op[0]
            may_refuse = None
            post = None
            before = model.copy()
            allow = None
            fn = None
            spec = None
            if kind == "save_identity":
                c = CONTACTS[op[1] % len(CONTACTS)]
                k = op[2] % len(P["ids"])
                old = before.identities.get(c)
                model.identities[c] = k
                allow = ("identities", {c: {k} | ({old} if old is not None else {ABSENT})})
                fn = lambda: store.saveIdentity(c, P["ids"][k])  # noqa
                spec = {"call": "saveIdentity", "c": c, "record": bytes(P["ids"][k].serialize()).hex()}
                out.label("replace_identity" if old is not None else "new_identity")
                repl = old is not None
            elif kind == "store_session":
                c = CONTACTS[op[1] % len(CONTACTS)]
                rec = P["sessions"][op[2] % len(P["sessions"])]
                new = bytes(rec.serialize())
                old = before.sessions.get(c)
                model.sessions[c] = new
                allow = ("sessions", {c: {new} | ({old} if old is not None else {ABSENT})})
                fn = lambda: store.storeSession(c, 1, rec)  # noqa
                spec = {"call": "storeSession", "c": c, "device": 1, "record": new.hex()}
                out.label("replace_session" if old is not None else "new_session")
                repl = old is not None
            elif kind == "store_session_other_device":
                # a session for a second device of a contact that already has one (device id 2): the store may refuse it (its table
                # allows one row per contact) or keep both - the session of device 1 must stay what it was either way
                c = CONTACTS[op[1] % len(CONTACTS)]
                if c not in before.sessions:
                    continue
                rec = P["sessions"][op[2] % len(P["sessions"])]
                old = before.sessions[c]
                allow = ("sessions", {c: {old}})
                fn = lambda: store.storeSession(c, 2, rec)  # noqa
                spec = {"call": "storeSession", "c": c, "device": 2, "record": bytes(rec.serialize()).hex()}
                may_refuse = ("sessions", c, old)
                out.label("store_session_other_device")
                repl = False
            elif kind == "manager_create_session":
                # one level above the store, the way the layers do it (a key bundle fetched for a contact: on first contact, after an
                # identity-change notice, for a retry): AxolotlManager.create_session with auto-trust off.  A bundle under the pinned
                # identity (or the first one seen) replaces the session; one under another identity is refused and changes nothing.
                # In every crash state the contact's session is the previous or the new one - never missing when there was one.
                from yowsup.axolotl.manager import AxolotlManager
                c = CONTACTS[op[1] % len(CONTACTS)]
                k = op[2] % len(P["ids"])
                bundle = P["bundles"][k][op[3] % 2]
                pinned = before.identities.get(c)
                old = before.sessions.get(c)
                accepted = pinned is None or pinned == k
                sess_ok = ({old} if old is not None else {ABSENT})
                allow = [("sessions", {c: sess_ok}), ("identities", {c: {pinned if pinned is not None else ABSENT} | ({k} if accepted else set())})]
                manager = AxolotlManager(store, "4915100000001")
                fn = lambda: manager.create_session(c, bundle, autotrust=False)  # noqa
                out.label("manager_create_session:" + ("refused_identity" if not accepted else "replaces_session" if old is not None else "first_session"))
                repl = old is not None
                if not accepted:
                    may_refuse = ("sessions", c, old) if old is not None else ("identities", c, pinned)

                def post(exc, _c=c, _k=k, _ok=sess_ok, _accepted=accepted):
                    if exc is None:
                        now = read_store(store, P)["sessions"].get(_c)
                        if now is not None:
                            model.sessions[_c] = now
                            _ok.add(now)
                        else:
                            model.sessions.pop(_c, None)
                        model.identities[_c] = _k
            elif kind in ("delete_session", "delete_all"):
                c = CONTACTS[op[1] % len(CONTACTS)]
                old = before.sessions.get(c)
                model.sessions.pop(c, None)
                allow = ("sessions", {c: {ABSENT} | ({old} if old is not None else set())})
                fn = (lambda: store.deleteSession(c, 1)) if kind == "delete_session" else (lambda: store.deleteAllSessions(c))  # noqa
                spec = {"call": "deleteSession" if kind == "delete_session" else "deleteAllSessions", "c": c}
                out.label("delete_session")
                repl = False
                deleted_before_reopen = deleted_before_reopen or old is not None
            elif kind == "store_prekey":
                free = [pk for pk in P["prekeys"] if pk.getId() not in before.prekeys and pk.getId() > max([0] + list(before.prekeys))]
                if not free:
                    continue
                pk = free[0]
                new = (bytes(pk.serialize()), False)
                model.prekeys[pk.getId()] = new
                allow = ("prekeys", {pk.getId(): {ABSENT, new}})
                fn = lambda: store.storePreKey(pk.getId(), pk)  # noqa
                spec = {"call": "storePreKey", "id": pk.getId(), "record": new[0].hex()}
                out.label("store_prekey")
                repl = False
            elif kind == "remove_prekey":
                if not before.prekeys:
                    continue
                i = sorted(before.prekeys)[op[1] % len(before.prekeys)]
                old = before.prekeys[i]
                del model.prekeys[i]
                removed_prekeys.append(i)
                allow = ("prekeys", {i: {ABSENT, old}})
                fn = lambda: store.removePreKey(i)  # noqa
                spec = {"call": "removePreKey", "id": i}
                out.label("remove_prekey")
                repl = False
                deleted_before_reopen = True
            elif kind == "set_sent":
                if not before.prekeys:
                    continue
                # ids in generated order; the list may name keys that are gone by now (consumed while the upload was in flight)
                ids = sorted(before.prekeys) + sorted(set(removed_prekeys) - set(before.prekeys))
                chosen = []
                for j in op[1]:
                    if ids[j % len(ids)] not in chosen:
                        chosen.append(ids[j % len(ids)])
                amap = {}
                for i in chosen:
                    if i not in before.prekeys:
                        out.label("set_sent_names_missing_key")
                        continue
                    old = before.prekeys[i]
                    model.prekeys[i] = (old[0], True)
                    amap[i] = {old, (old[0], True)}
                allow = ("prekeys", amap)
                fn = lambda: store.preKeyStore.setAsSent(chosen)  # noqa
                spec = {"call": "setAsSent", "ids": chosen}
                out.label("set_sent")
                repl = False
            elif kind == "store_signed":
                free = [s for s in P["signed"] if s.getId() not in before.signed and s.getId() > max([-1] + list(before.signed))]
                if not free:
                    continue
                spk = free[0]
                new = bytes(spk.serialize())
                model.signed[spk.getId()] = new
                allow = ("signed", {spk.getId(): {ABSENT, new}})
                fn = lambda: store.storeSignedPreKey(spk.getId(), spk)  # noqa
                spec = {"call": "storeSignedPreKey", "id": spk.getId(), "record": new.hex()}
                out.label("store_signed")
                repl = False
            elif kind in ("restore_signed", "restore_prekey"):
                # storing under an id that is already taken: the store may refuse (the record stays) or replace it - in either
                # case a crash must leave the previous or the new record, never none
                table = "signed" if kind == "restore_signed" else "prekeys"
                have = before.signed if table == "signed" else before.prekeys
                if not have:
                    continue
                i = sorted(have)[op[1] % len(have)]
                old = have[i]
                if table == "signed":
                    other = P["signed"][(op[2] if len(op) > 2 else 0) % len(P["signed"])]
                    new = bytes(other.serialize())
                    model.signed[i] = new
                    fn = lambda: store.storeSignedPreKey(i, other)  # noqa
                    spec = {"call": "storeSignedPreKey", "id": i, "record": new.hex()}
                else:
                    other = P["prekeys"][(op[2] if len(op) > 2 else 0) % len(P["prekeys"])]
                    new = (bytes(other.serialize()), False)
                    model.prekeys[i] = new
                    fn = lambda: store.storePreKey(i, other)  # noqa
                    spec = {"call": "storePreKey", "id": i, "record": new[0].hex()}
                allow = (table, {i: {old, new}})
                may_refuse = (table, i, old)
                out.label(kind)
                repl = True
            elif kind == "remove_signed":
                if not before.signed:
                    continue
                i = sorted(before.signed)[op[1] % len(before.signed)]
                old = before.signed[i]
                del model.signed[i]
                allow = ("signed", {i: {ABSENT, old}})
                fn = lambda: store.removeSignedPreKey(i)  # noqa
                spec = {"call": "removeSignedPreKey", "id": i}
                out.label("remove_signed")
                repl = False
                deleted_before_reopen = True
            elif kind == "store_sender_key":
                g = GROUPS[op[1] % len(GROUPS)]
                s = SENDERS[op[2] % len(SENDERS)]
                # (a record object of its own for every call: what the store does to the object it is given stays with that call)
                new = P["sender_bytes"][op[3] % len(P["sender_bytes"])]
                rec = SenderKeyRecord(serialized=new)
                if len(rec.senderKeyStates) > 1:
                    out.label("sender_key_record_with_%d_states" % len(rec.senderKeyStates))
                old = before.sender.get((g, s))
                model.sender[(g, s)] = new
                allow = ("sender", {(g, s): {new} | ({old} if old is not None else {ABSENT})})
                name = SenderKeyName(g, AxolotlAddress(s, 0))
                fn = lambda: store.storeSenderKey(name, rec)  # noqa
                spec = {"call": "storeSenderKey", "g": g, "s": s, "record": new.hex()}
                out.label("replace_sender_key" if old is not None else "new_sender_key")
                repl = old is not None
            elif kind == "reopen":
                _close(store)
                store = LiteAxolotlStore(dbpath)
                d = compare(read_store(store, P), expect_of(model), own)
                out.label("reopen")
                if deleted_before_reopen:
                    nt = True
                if d:
                    out.fail("durability", "durability:after_reopen:" + d.split("[")[0], {"step": step, "diff": d, "ops": case["ops"][:step + 1]})
                    return out
                continue
            else:
                raise ValueError(kind)
            # the same update in a process of its own that is killed at a write-type system call (also inside COMMIT)
            if case.get("syscall_crash") and spec is not None and step == case["syscall_crash"][0] % len(case["ops"]):
                _close(store)
                problem = _syscall_crash(out, dbdir, home, spec, case["syscall_crash"][1], kind, P, expect_of(before), own, allow)
                store = LiteAxolotlStore(dbpath)
                if problem:
                    return out
                if "syscall_crash:killed" in out.labels:
                    nt = True
            if case.get("orderly_abort") and spec is not None and step == case["orderly_abort"][0] % len(case["ops"]):
                # the update runs in a process of its own that is told to terminate after its k-th statement and shuts down in an
                # orderly way (signal handler -> sys.exit -> interpreter teardown): the record is the previous or the new one
                _close(store)
                n_stmt = 1 + case["orderly_abort"][1] % 3
                work = os.path.join(home, "orderly")
                shutil.rmtree(work, ignore_errors=True)
                shutil.copytree(dbdir, work)
                rc, report = _run_in_other_process(os.path.join(work, "axolotl.db"), home, dict(spec, orderly_abort_after=n_stmt))
                out.label("orderly_abort:" + ("terminated" if rc == 7 else "completed_first"))
                problem = None
                try:
                    s2 = LiteAxolotlStore(os.path.join(work, "axolotl.db"))
                    got = read_store(s2, P)
                    _close(s2)
                    d = compare(got, expect_of(before), own, allow)
                    if d:
                        problem = ("orderly_abort:%s:%s" % (kind, "record_missing" if "MISSING" in d else "record_differs"), {"after_statement": n_stmt, "diff": d[:300], "rc": rc})
                except Exception as e:
                    problem = ("orderly_abort:%s:store_does_not_open" % kind, {"error": repr(e)[:300]})
                shutil.rmtree(work, ignore_errors=True)
                store = LiteAxolotlStore(dbpath)
                if problem:
                    out.fail("crash", problem[0], dict(problem[1], step=step))
                    return out
                if rc == 7:
                    nt = True
            if case.get("other_process") and spec is not None:
                # the update is made by another process (the party restarted: a new interpreter, with its own hash seed) and read
                # back here; no crash involved
                _close(store)
                rc, report = _run_in_other_process(dbpath, home, spec)
                store = LiteAxolotlStore(dbpath)
                out.label("update_made_by_another_process")
                nt = True
                if rc == 3 and may_refuse is not None:
                    getattr(model, may_refuse[0])[may_refuse[1]] = may_refuse[2]
                    out.label("replace_refused")
                elif rc != 0:
                    out.fail("api", "api:%s_fails_in_another_process" % kind, {"step": step, "rc": rc, "report": report[-300:]})
                    return out
                d = compare(read_store(store, P), expect_of(model), own)
                if d:
                    out.fail("durability", "durability:written_by_another_process:%s" % d.split("[")[0], {"step": step, "diff": d[:400], "kind": kind})
                    return out
                continue
            # execute (under the recorder)
            if crash:
                rec_ = CrashRecorder(dbdir, snaproot)
                res, exc = rec_.run(fn)
            else:
                rec_ = None
                try:
                    fn()
                    exc = None
                except Exception as e:  # noqa
                    exc = e
            if post is not None:
                post(exc)
            if exc is not None and may_refuse is not None:
                # refused: the previous record must still be there
                getattr(model, may_refuse[0])[may_refuse[1]] = may_refuse[2]
                out.label("replace_refused")
            elif exc is not None:
                out.fail("api", "api:%s_raises:%s" % (kind, type(exc).__name__), {"step": step, "error": repr(exc)[:300]})
                return out
            d = compare(read_store(store, P), expect_of(model), own)
            if d:
                out.fail("model", "model:after_%s:%s" % (kind, d.split("[")[0]), {"step": step, "diff": d})
                return out
            if rec_ is not None:
                n_states = 0
                for tag, path, fp in rec_.snaps:
                    n_states += 1
                    try:
                        s2 = LiteAxolotlStore(os.path.join(path, "axolotl.db"))
                        got = read_store(s2, P)
                    except Exception as e:
                        out.fail("crash", "crash:%s:store_does_not_open" % kind, {"step": step, "at": tag, "error": repr(e)[:300]})
                        break
                    d = compare(got, expect_of(before), own, allow)
                    if d:
                        out.fail("crash", "crash:%s:%s" % (kind, "record_missing" if "MISSING" in d else "record_differs"),
                                 {"step": step, "at": tag, "state": n_states, "of": len(rec_.snaps), "diff": d,
                                  "files": [f for f, h in fp]})
                        break
                if not out.violations and rec_.final:
                    # the call has returned: a process killed now must find the new value after reopening
                    try:
                        s3 = LiteAxolotlStore(os.path.join(rec_.final, "axolotl.db"))
                        d = compare(read_store(s3, P), expect_of(model), own)
                    except Exception as e:
                        d = "store does not open: %r" % (e,)
                    if d:
                        out.fail("durability", "durability:lost_when_killed_after_%s_returned:%s" % (kind, d.split("[")[0]),
                                 {"step": step, "diff": d[:400]})
                states_total += n_states
                if repl and n_states >= 2:
                    nt = True
                rec_.cleanup()
                if out.violations:
                    return out
        # final: reopen and compare everything
        _close(store)
        store = LiteAxolotlStore(dbpath)
        d = compare(read_store(store, P), expect_of(model), own)
        if d:
            out.fail("durability", "durability:final_reopen:" + d.split("[")[0], {"diff": d})
        out.evals = 1 + states_total
        out.info = {"nt": nt, "states": states_total}
        out.label("crash_states=%s" % ("0" if not states_total else "1-9" if states_total < 10 else "10+"))
    finally:
        envkit.drop_home(home)
    return out


def nontrivial(case, out):
    return bool(out.info and out.info.get("nt"))


def shrink_candidates(case):
    ops = case["ops"]
    for i in range(len(ops)):
        yield dict(case, ops=ops[:i] + ops[i + 1:])


def _enum_orderly():
    """a replacement of each replaceable record, the process told to terminate after the first / second statement of the update"""
    for ops in ([["save_identity", 0, 0], ["save_identity", 0, 1]], [["store_session", 0, 0], ["store_session", 0, 1]],
                [["store_sender_key", 0, 0, 0], ["store_sender_key", 0, 0, 1]], [["store_prekey"], ["store_prekey"], ["set_sent", [0, 1]]],
                [["store_signed"], ["store_signed"], ["remove_signed", 0]]):
        for k in (0, 1):
            yield {"sub": "script", "crash": False, "orderly_abort": [len(ops) - 1, k], "ops": ops}


def op_strategy():
    sel = st.integers(0, 5)
    return st.one_of(
        st.tuples(st.just("save_identity"), sel, sel).map(list),
        st.tuples(st.just("save_identity"), sel, sel).map(list),
        st.tuples(st.just("store_session"), sel, sel).map(list),
        st.tuples(st.just("store_session"), sel, sel).map(list),
        st.tuples(st.just("store_session_other_device"), sel, sel).map(list),
        st.tuples(st.just("delete_session"), sel).map(list),
        st.tuples(st.just("manager_create_session"), sel, sel, sel).map(list),
        st.tuples(st.just("manager_create_session"), st.sampled_from([0, 0, 1]), st.sampled_from([0, 0, 1]), sel).map(list),
        st.tuples(st.just("delete_all"), sel).map(list),
        st.tuples(st.just("delete_all"), st.sampled_from([0, 0, 1])).map(list),
        st.tuples(st.just("store_session"), st.sampled_from([0, 0, 1]), st.sampled_from([0, 0, 1])).map(list),
        st.just(["store_prekey"]),
        st.just(["store_prekey"]),
        st.tuples(st.just("remove_prekey"), sel).map(list),
        st.tuples(st.just("set_sent"), st.lists(st.integers(0, 9), min_size=1, max_size=6)).map(list),
        st.tuples(st.just("set_sent"), st.lists(st.integers(0, 9), min_size=1, max_size=6)).map(list),
        st.tuples(st.just("remove_prekey"), sel).map(list),
        st.just(["store_signed"]),
        st.tuples(st.just("restore_signed"), sel, sel).map(list),
        st.tuples(st.just("restore_prekey"), sel, sel).map(list),
        st.tuples(st.just("remove_signed"), sel).map(list),
        st.tuples(st.just("store_sender_key"), sel, sel, sel).map(list),
        st.tuples(st.just("store_sender_key"), sel, sel, sel).map(list),
        st.just(["reopen"]),
    )


def _enum_basic():
    # key bundles through the manager: first session, replacement under the same identity, a refused one under another identity, restart
    yield {"sub": "script", "ops": [["manager_create_session", 0, 0, 0], ["manager_create_session", 0, 0, 1], ["reopen"],
                                    ["manager_create_session", 0, 1, 0], ["reopen"], ["manager_create_session", 0, 0, 0], ["reopen"]]}
    yield {"sub": "script", "ops": [["save_identity", 1, 2], ["store_session", 1, 0], ["manager_create_session", 1, 0, 0], ["reopen"],
                                    ["manager_create_session", 1, 2, 1], ["reopen"]]}
    yield {"sub": "script", "ops": [["save_identity", 0, 0], ["save_identity", 0, 1], ["reopen"]]}
    yield {"sub": "script", "ops": [["store_session", 0, 0], ["store_session", 0, 1], ["reopen"]]}
    yield {"sub": "script", "ops": [["store_sender_key", 0, 0, 0], ["store_sender_key", 0, 0, 1], ["reopen"]]}
    yield {"sub": "script", "ops": [["store_sender_key", 0, 0, 4], ["reopen"], ["store_sender_key", 0, 0, 5], ["store_sender_key", 1, 0, 3], ["reopen"],
                                    ["store_sender_key", 0, 0, 4], ["reopen"]]}
    yield {"sub": "script", "ops": [["store_session", 0, 0], ["store_session_other_device", 0, 1], ["reopen"], ["store_session", 1, 2],
                                    ["store_session_other_device", 1, 0]]}
    yield {"sub": "script", "ops": [["store_prekey"], ["store_prekey"], ["set_sent", [0]], ["reopen"], ["remove_prekey", 0], ["reopen"]]}
    yield {"sub": "script", "ops": [["store_signed"], ["store_signed"], ["remove_signed", 0], ["reopen"]]}
    yield {"sub": "script", "ops": [["store_signed"], ["store_signed"], ["restore_signed", 0, 2], ["reopen"], ["store_prekey"], ["restore_prekey", 0, 3], ["reopen"]]}
    # the upload that is being confirmed named keys that were consumed in the meantime, in any position of the list
    for order in ([0, 1, 2], [2, 0, 1], [0, 2, 1], [2]):
        yield {"sub": "script", "ops": [["store_prekey"], ["store_prekey"], ["store_prekey"], ["remove_prekey", 2], ["set_sent", order], ["reopen"]]}
    # the very record that was there before a wipe is stored again (restored from what was loaded before)
    for wipe in ("delete_all", "delete_session"):
        yield {"sub": "script", "ops": [["store_session", 0, 0], [wipe, 0], ["store_session", 0, 0], ["reopen"]]}
        yield {"sub": "script", "ops": [["store_session", 2, 3], ["reopen"], ["store_session", 2, 3], [wipe, 2], ["store_session", 2, 3], ["store_session", 2, 3], ["reopen"]]}
    yield {"sub": "script", "ops": [["save_identity", 0, 1], ["save_identity", 0, 1], ["store_sender_key", 0, 0, 1], ["store_sender_key", 0, 0, 1], ["store_prekey"],
                                    ["remove_prekey", 0], ["store_prekey"], ["reopen"]]}
    yield {"sub": "script", "ops": [["store_session", 1, 0], ["save_identity", 1, 2], ["delete_session", 1], ["reopen"],
                                    ["store_session", 1, 3], ["delete_all", 1], ["reopen"]]}


def _enum_first_open_killed():
    """the process creating the store dies after its k-th statement; then every replaceable record is stored and replaced"""
    for k in range(1, 13):
        yield {"sub": "script", "crash": False, "first_open_killed_after": k,
               "ops": [["save_identity", 0, 0], ["store_session", 0, 0], ["store_sender_key", 0, 0, 0], ["store_prekey"], ["store_signed"],
                       ["save_identity", 0, 1], ["store_session", 0, 1], ["store_sender_key", 0, 0, 1], ["store_sender_key", 0, 0, 2], ["reopen"],
                       ["store_sender_key", 0, 0, 0], ["store_session", 0, 2], ["set_sent", [0]], ["reopen"]]}


def _enum_other_process():
    yield {"sub": "script", "crash": False, "other_process": True,
           "ops": [["save_identity", 0, 0], ["store_session", 0, 0], ["store_prekey"], ["store_prekey"], ["store_signed"], ["store_sender_key", 0, 0, 0],
                   ["store_sender_key", 1, 1, 1], ["reopen"], ["save_identity", 0, 1], ["store_session", 0, 1], ["set_sent", [0]], ["remove_prekey", 1],
                   ["store_sender_key", 0, 0, 2], ["delete_session", 0], ["reopen"]]}
    yield {"sub": "script", "crash": False, "other_process": True,
           "ops": [["store_sender_key", 0, 1, 0], ["store_sender_key", 1, 0, 1], ["store_sender_key", 0, 1, 2], ["store_session", 1, 2],
                   ["store_session_other_device", 1, 0], ["store_signed"], ["restore_signed", 0, 2], ["remove_signed", 0], ["reopen"]]}


def _enum_syscall_crash():
    """the update of the last step in a process of its own, killed at each of its write-type system calls in turn"""
    scripts = [
        [["store_session", 0, 0], ["store_session", 0, 1]],
        [["store_session", 0, 5], ["store_session", 1, 2], ["store_session", 0, 3]],
        [["save_identity", 0, 0], ["save_identity", 0, 1]],
        [["store_sender_key", 0, 0, 0], ["store_sender_key", 0, 0, 1]],
        [["store_prekey"], ["store_prekey"], ["store_prekey"], ["set_sent", [0, 1, 2]]],
        [["store_session", 0, 0], ["store_session", 1, 2], ["delete_all", 0]],
        [["store_signed"], ["store_prekey"], ["store_prekey"], ["remove_prekey", 0]],
    ]
    for ops in scripts:
        for n in range(27):
            yield {"sub": "script", "crash": False, "syscall_crash": [len(ops) - 1, n], "ops": ops}


def plan(tier):
    quick = tier == "quick"
    script = st.builds(lambda ops, sc: dict({"sub": "script", "ops": ops}, **({"syscall_crash": sc} if sc else {})),
                       st.lists(op_strategy(), min_size=1, max_size=14),
                       st.one_of(st.none(), st.none(), st.tuples(st.integers(0, 13), st.integers(0, 40)).map(list)))
    other = st.lists(op_strategy(), min_size=2, max_size=8).map(lambda ops: {"sub": "script", "crash": False, "other_process": True, "ops": ops})
    orderly = st.tuples(st.lists(op_strategy(), min_size=2, max_size=8), st.integers(0, 7), st.integers(0, 2)).map(
        lambda t: {"sub": "script", "crash": False, "orderly_abort": [t[1], t[2]], "ops": t[0]})
    first_open = st.tuples(st.lists(op_strategy(), min_size=2, max_size=10), st.integers(1, 10)).map(
        lambda t: {"sub": "script", "crash": False, "first_open_killed_after": t[1], "ops": t[0]})
    return {
        "shards": 16,
        "enumerations": [("basic_scripts", _enum_basic), ("syscall_crash_sweep", _enum_syscall_crash), ("other_process_basic", _enum_other_process),
                         ("orderly_termination_basic", _enum_orderly), ("first_open_killed_sweep", _enum_first_open_killed),
                         ("own_identity_key_patterns", lambda: iter([{"sub": "own_identity", "first_byte": b, "ops": []} for b in (0x05, 0x00, 0xff, None)]))],
        "strategies": [("scripts", script, 60 if quick else 1500), ("updates_by_another_process", other, 4 if quick else 60),
                       ("orderly_termination_in_mid_update", orderly, 6 if quick else 100),
                       ("history_after_a_first_open_that_was_killed", first_open, 3 if quick else 60)],
        "shrink": "ddmin",
        "budget_s": 150 if quick else 1500,
    }

RULE += (' Also: session replacement through AxolotlManager.create_session (accepted and refused key bundles); orderly termination (SIGTERM handled with sys.exit) after the k-th statement of an update run in a child process; own identity key pairs whose public key begins with 0x05 / 0x00 / 0xff.')
RULE += (" Also: histories on a store whose very first open (creation) was cut short by process death after its k-th statement (k = 1..12 enumerated, generated histories).")
RULE += (" Sender key records include ones with 3, 6 and 8 key states (a member who re-keyed that often).")
