"""C05 - frame segmentation: any chunking of the byte stream yields the original frames.

Oracle: concatenation model (DESIGN.md C05).  Incoming: after the last chunk the frames handed upward
are exactly the frames sent (bytes-like, in order, nothing extra); at every chunk end that coincides with a
frame end the delivered list equals the frames so far; at any time it is a prefix of the sent list.
Outgoing: bytes passed down == 3-byte big-endian length || payload; payloads >= 2**24 are refused and
nothing is passed down.
"""
import struct
import itertools

from .. import compat  # noqa: F401
from ..core import Outcome
from ..kit.stackkit import sandwich
from hypothesis import strategies as st

from yowsup.layers.noise.layer_noise_segments import YowNoiseSegmentsLayer

ID = "C05"
LEVEL = "exploration"
RULE = ("incoming: every sequence of 1-3 frames of length 1-3 (quick; 1-4 thorough) with every partition of its "
        "stream bytes is enumerated, plus generated streams of 1-8 frames (lengths 1-40 and the boundaries "
        "255/256/65535/65536/70000, contents biased to 0x00/0xff/header-like bytes) with generated cut sets; "
        "outgoing: boundary and generated payload lengths. Non-trivial = at least 2 frames and at least one "
        "cut strictly inside a 3-byte header or a payload; outgoing cases are non-trivial when the length "
        "needs more than one header byte or is refused. Enumerated partitions are distinct by construction, "
        "generated cases are de-duplicated by hash.")
ASSUMPTIONS = [
    "frames are non-empty (quantifier); a zero-length frame is not generated",
    "the layer instance is reused across partitions of the enumeration after a stream of whole frames was "
    "consumed and verified (any failing partition is re-run on a fresh stack before it is reported)",
]

PROPS = {YowNoiseSegmentsLayer.PROP_ENABLED: True}
MASK_CHUNK = 4096


def frame_bytes(j, n, fill):
    """deterministic content of frame j with length n"""
    if fill == 0:
        return bytes(((j * 37 + k * 11 + 1) & 0xFF) for k in range(n))
    if fill == 1:
        return b"\x00" * n
    if fill == 2:
        return b"\xff" * n
    if fill in (4, 5):
        # content that begins like the connection prologue the layers below write once per connection (the routing header, the
        # protocol header): a frame is a frame whatever it holds - ciphertext begins with any two bytes sooner or later
        head = b"WA\x04\x00" if fill == 4 else b"ED\x00\x01"
        return (head + bytes(((j * 37 + k * 11 + 1) & 0xFF) for k in range(max(0, n - 4))))[:n]
    # header-like content: looks like length prefixes of small frames
    pat = b"\x00\x00\x01\x00\x00\x02\x00\x00\x03"
    return (pat * (n // len(pat) + 1))[:n]


def stream_of(frames):
    return b"".join(struct.pack(">I", len(f))[1:] + f for f in frames)


class _UpperFailed(Exception):
    pass


class Rig(object):
    def __init__(self):
        self.stack, self.bottom, self.top = sandwich((YowNoiseSegmentsLayer,), PROPS)

    def feed(self, chunk):
        self.bottom.inject(chunk)

    def take(self):
        got = list(self.top.got)
        return got


def check_stream(rig, frames, cuts, base=0):
    """Feed stream(frames) cut at the given sorted positions.  Returns None or (kind, detail).
    ``base`` = number of items already in rig.top.got (reused rig)."""
    stream = stream_of(frames)
    bounds = []
    p = 0
    for f in frames:
        p += 3 + len(f)
        bounds.append(p)
    boundset = {b: i + 1 for i, b in enumerate(bounds)}
    prev = 0
    pts = list(cuts) + [len(stream)]
    for c in pts:
        if c <= prev:
            continue
        try:
            rig.feed(stream[prev:c])
        except Exception as e:
            return ("exception", {"at": c, "error": repr(e)})
        prev = c
        got = rig.top.got[base:]
        if c in boundset:
            k = boundset[c]
            if len(got) != k:
                return ("count_at_boundary", {"at": c, "delivered": len(got), "expected": k})
        if len(got) > len(frames):
            return ("extra_frames", {"at": c, "delivered": len(got)})
        for i in range(len(got)):
            g = got[i]
            if not isinstance(g, (bytes, bytearray)):
                return ("type", {"frame": i, "type": type(g).__name__})
            g = bytes(g)
            if g != frames[i]:
                return ("content", {"frame": i, "got": g[:64].hex(), "expected": frames[i][:64].hex(),
                                    "got_len": len(g), "expected_len": len(frames[i])})
    got = rig.top.got[base:]
    if len(got) != len(frames):
        return ("count_at_end", {"delivered": len(got), "expected": len(frames)})
    return None


def cuts_from_mask(mask, L):
    return [i + 1 for i in range(L - 1) if (mask >> i) & 1]


def run_case(case):
    from ..kit.stackkit import loop_budget, LoopBudgetExceeded
    from yowsup.layers.noise.layer_noise_segments import YowNoiseSegmentsLayer
    # a framing loop that stops making progress must end the case instead of the run (no wall clock: a count of loop iterations)
    try:
        with loop_budget([YowNoiseSegmentsLayer.receive, YowNoiseSegmentsLayer.send], 20000000):
            return _run_case(case)
    except LoopBudgetExceeded as e:
        out = Outcome()
        out.fail("incoming", "incoming:framing_loop_makes_no_progress", {"error": str(e)})
        return out


def _run_case(case):
    out = Outcome()
    sub = case["sub"]
    if sub == "partitions":
        lens = case["lens"]
        fill = case.get("fill", 0)
        frames = [frame_bytes(j, n, fill) for j, n in enumerate(lens)]
        L = sum(3 + n for n in lens)
        bounds = set(itertools.accumulate(3 + n for n in lens))
        lo, hi = case["mask_lo"], case["mask_hi"]
        boundary_mask = 0
        for b in bounds:
            if b < L:
                boundary_mask |= 1 << (b - 1)
        rig = Rig()
        nt = 0
        out.label("enum_frames=%d" % len(lens))
        for mask in range(lo, hi):
            if len(lens) >= 2 and (mask & ~boundary_mask):
                nt += 1
            base = len(rig.top.got)
            res = check_stream(rig, frames, cuts_from_mask(mask, L), base)
            if res is not None:
                # confirm on a fresh stack so that the replay stands alone
                single = {"sub": "stream", "lens": lens, "fills": [fill] * len(lens),
                          "cuts": cuts_from_mask(mask, L)}
                fresh = check_stream(Rig(), frames, single["cuts"], 0)
                if fresh is not None:
                    out.fail("incoming", "incoming:" + fresh[0], fresh[1], case=single)
                else:
                    out.fail("incoming_state", "incoming:state_after_whole_frames:" + res[0],
                             {"note": "fails only after earlier whole-frame streams through the same layer",
                              "detail": res[1]})
                break
            if len(rig.top.got) > 4096:
                del rig.top.got[:]
        out.evals = hi - lo
        out.nontrivial_n = nt
        return out
    if sub == "stream":
        lens = case["lens"]
        fills = case["fills"]
        frames = [frame_bytes(j, n, fills[j % len(fills)]) for j, n in enumerate(lens)]
        L = sum(3 + n for n in lens)
        cuts = sorted(set(c % L for c in case["cuts"]) - {0}) if L > 1 else []
        bounds = set(itertools.accumulate(3 + n for n in lens))
        inside = [c for c in cuts if c not in bounds]
        out.label("frames=%s" % ("1" if len(lens) == 1 else "2-3" if len(lens) <= 3 else "4+"))
        if any(n >= 65536 for n in lens):
            out.label("len>=65536")
        elif any(n >= 256 for n in lens):
            out.label("len>=256")
        hdr = False
        start = 0
        for n in lens:
            if any(start < c < start + 3 for c in cuts):
                hdr = True
            start += 3 + n
        if hdr:
            out.label("cut_in_header")
        if inside:
            out.label("cut_inside")
        if not cuts:
            out.label("single_chunk")
        rig0 = Rig()
        if case.get("events_between_chunks"):
            # things that happen in the stack while the connection stays up must not touch the stream: a redundant connect
            # request (the network layer ignores it while connected), the login's events, an event nobody knows
            from yowsup.layers import YowLayerEvent
            from yowsup.layers.network import YowNetworkLayer
            names = [YowNetworkLayer.EVENT_STATE_CONNECT, "org.openwhatsapp.yowsup.event.auth.authed", "org.example.verif.unknown"]
            feed0 = rig0.feed
            counter = [0]

            def feed_with_events(chunk, _f=feed0):
                _f(chunk)
                counter[0] += 1
                for when, which in case["events_between_chunks"]:
                    if when == counter[0]:
                        rig0.top.broadcastEvent(YowLayerEvent(names[which % len(names)]))
            rig0.feed = feed_with_events
            out.label("events_between_chunks")
        if case.get("sends_between_chunks"):
            # the connection is used in both directions at once: frames are sent while an incoming frame is only partly there.  The
            # two directions have nothing to do with each other: the incoming frames are still what the peer sent, and what went
            # out is the sent frames, framed
            feed1 = rig0.feed
            counter1 = [0]
            sent_frames = []

            def feed_with_sends(chunk, _f=feed1):
                _f(chunk)
                counter1[0] += 1
                for when, size in case["sends_between_chunks"]:
                    if when == counter1[0]:
                        f = frame_bytes(90 + len(sent_frames), size, 1)
                        sent_frames.append(f)
                        rig0.top.toLower(f)
            rig0.feed = feed_with_sends
            out.label("sends_between_chunks")
        if case.get("upper_raises"):
            # the layer above fails while it is handling some of the frames (it has been handed them: they count as delivered);
            # the feeder sees the exception and the connection goes on.  Every frame is still handed upward exactly once, in
            # order and unmodified: what was delivered is at all times a prefix of what the peer sent, and once a chunk has been
            # taken without a failure everything complete so far has been delivered
            out.label("upper_layer_raises_on_a_frame")
            failing = set(i % len(frames) for i in case["upper_raises"])
            top = rig0.top
            plain = top.receive

            def receive(data, _plain=plain):
                _plain(data)
                if len(top.got) - 1 in failing:
                    raise _UpperFailed("frame %d" % (len(top.got) - 1))
            top.receive = receive
            stream = stream_of(frames)
            prev = 0
            raised_last = False
            n_raised = 0
            for c in list(cuts) + [len(stream)]:
                if c <= prev:
                    continue
                raised_last = False
                try:
                    rig0.feed(stream[prev:c])
                except _UpperFailed:
                    raised_last = True
                    n_raised += 1
                except Exception as e:
                    out.fail("incoming", "incoming:exception", {"at": c, "error": repr(e)[:200]})
                    return out
                prev = c
                got = [bytes(g) for g in top.got]
                if got != frames[:len(got)]:
                    out.fail("incoming", "incoming:after_upper_layer_failure:not_the_frames_sent_once_each_in_order",
                             {"at": c, "delivered_lengths": [len(g) for g in got], "sent_lengths": [len(f) for f in frames], "failing_frames": sorted(failing)})
                    return out
                if not raised_last:
                    whole = sum(1 for b in itertools.accumulate(3 + n for n in lens) if b <= c)
                    if len(got) != whole:
                        out.fail("incoming", "incoming:after_upper_layer_failure:count", {"at": c, "delivered": len(got), "complete_so_far": whole})
                        return out
            if n_raised:
                out.label("feeder_saw_upper_failure")
            out.info = {"inside": bool(inside)}
            return out
        res = check_stream(rig0, frames, cuts, 0)
        if res is None and case.get("sends_between_chunks"):
            wire = b"".join(bytes(x) for x in rig0.bottom.sent)
            if wire != stream_of(sent_frames):
                res = ("outgoing_between_chunks", {"sent_lengths": [len(f) for f in sent_frames], "on_the_wire": len(wire)})
        if res is not None:
            out.fail("incoming", "incoming:" + res[0], res[1])
        elif case.get("second_connection"):
            # a second stack (another account's connection) receives its own stream in between: each framing layer keeps its own
            # reassembly state
            a, b = Rig(), Rig()
            other = [bytes(reversed(f)) + b"\x5a" for f in frames]
            sa, sb = stream_of(frames), stream_of(other)
            pts = [c for c in cuts] + [len(sa)]
            prev = 0
            pb = 0
            try:
                for c in pts:
                    a.feed(sa[prev:c])
                    nb = min(len(sb), pb + max(1, (c - prev)))
                    b.feed(sb[pb:nb])
                    prev, pb = c, nb
                if pb < len(sb):
                    b.feed(sb[pb:])
            except Exception as e:
                out.fail("incoming", "incoming:two_connections:exception", {"error": repr(e)[:200]})
                return out
            out.label("second_connection_interleaved")
            if [bytes(x) for x in a.top.got] != frames or [bytes(x) for x in b.top.got] != other:
                out.fail("incoming", "incoming:two_connections:frames_differ",
                         {"first": [len(x) for x in a.top.got], "second": [len(x) for x in b.top.got], "expected": [len(f) for f in frames]})
        out.info = {"inside": bool(inside)}
        return out
    if sub == "dispatcher":
        # the stream as the default transport reads it: bursts of bytes become pending on the socket, the library's asynchronous
        # dispatcher reads them (its read size per event is its own business) and the network layer feeds the framing layer
        import yowsup.layers.network.layer as netmod
        from yowsup.layers import YowLayerEvent
        from yowsup.layers.network.layer import YowNetworkLayer
        from ..kit import netkit, stackkit
        lens = case["lens"]
        frames = [frame_bytes(j, n, 0) for j, n in enumerate(lens)]
        stream = stream_of(frames)
        Driven, DA = netkit.driven_asyncore_class()
        Driven.made = []
        Driven.caps = None
        saved = (netmod.AsyncoreConnectionDispatcher, netmod.SocketConnectionDispatcher)
        netmod.AsyncoreConnectionDispatcher = netmod.SocketConnectionDispatcher = Driven
        DA.asyncore = netkit.AsyncoreShim(DA.asyncore)
        try:
            stack = stackkit.new_stack_class()((YowNetworkLayer, YowNoiseSegmentsLayer, stackkit.Top), reversed=False,
                                               props=dict(PROPS, **{YowNetworkLayer.PROP_ENDPOINT: ("e1.whatsapp.net", 443)}))
            top = stack.getLayer(2)
            stack.broadcastEvent(YowLayerEvent(YowNetworkLayer.EVENT_STATE_CONNECT))
            d = Driven.made[-1]
            d.h_establish()
            out.label("through_the_asynchronous_dispatcher")
            prev = 0
            L = len(stream)
            for c in sorted(set(x % L for x in case["bursts"]) - {0}) + [L]:
                if c <= prev:
                    continue
                if (c - prev) % 1024 == 0:
                    out.label("burst_is_a_multiple_of_the_read_size")
                try:
                    d.h_data(stream[prev:c])
                except Exception as e:
                    out.fail("incoming", "incoming:dispatcher:exception", {"at": c, "error": repr(e)[:200]})
                    return out
                prev = c
                got = [bytes(g) for g in top.got]
                whole = sum(1 for b in itertools.accumulate(3 + n for n in lens) if b <= c)
                if got != frames[:whole]:
                    out.fail("incoming", "incoming:dispatcher:frames_differ",
                             {"at": c, "delivered_lengths": [len(g) for g in got][:12], "expected_lengths": [len(f) for f in frames[:whole]][:12],
                              "lens": lens, "bursts": case["bursts"]})
                    return out
            # outgoing: frames written through the same dispatcher while its socket takes only part of what it is offered (a peer
            # that is slow to read): what reaches the socket is each frame's 3-byte length and payload, whole and in order
            if case.get("out"):
                d._sock.caps = list(case.get("caps") or [1 << 30])
                expected = bytearray()
                for j, n in enumerate(case["out"]):
                    payload = frame_bytes(j, n, 0) if n < 4096 else (frame_bytes(j, 4096, 0) * (n // 4096 + 1))[:n]
                    try:
                        top.toLower(payload)
                    except Exception as e:
                        out.fail("outgoing", "outgoing:dispatcher:send_raises:%s" % type(e).__name__, {"error": repr(e)[:200]})
                        return out
                    expected += struct.pack(">I", n)[1:] + payload
                    if j % 2:
                        # (the event loop finds the socket writable now and then)
                        if d.writable() and d.out_buffer:
                            d.handle_write()
                d._sock.caps = None
                for _ in range(200):
                    if not d.out_buffer:
                        break
                    d.handle_write()
                out.label("outgoing_through_the_dispatcher", "short_writes" if any(c < (1 << 20) for c in (case.get("caps") or [])) else "whole_writes")
                if bytes(d._sock.wire) != bytes(expected):
                    n = 0
                    while n < min(len(d._sock.wire), len(expected)) and d._sock.wire[n] == expected[n]:
                        n += 1
                    out.fail("outgoing", "outgoing:dispatcher:bytes_on_the_socket_differ",
                             {"sent": len(expected), "on_the_socket": len(d._sock.wire), "first_difference_at": n, "caps": (case.get("caps") or [])[:6], "frames": case["out"]})
                    return out
            out.info = {"inside": len(case["bursts"]) > 0}
            return out
        finally:
            netmod.AsyncoreConnectionDispatcher, netmod.SocketConnectionDispatcher = saved
            DA.asyncore = DA.asyncore._real
    if sub == "outgoing":
        n = case["n"]
        fill = case.get("fill", 0)
        payload = frame_bytes(0, n, fill) if n < 4096 else (frame_bytes(0, 4096, fill) * (n // 4096 + 1))[:n]
        stack, bottom, top = sandwich((YowNoiseSegmentsLayer,), PROPS)
        out.label("out_refused" if n >= 2 ** 24 else "out_len_bytes=%d" % (1 if n < 256 else 2 if n < 65536 else 3))
        try:
            top.toLower(payload)
            raised = None
        except ValueError as e:
            raised = e
        except Exception as e:
            out.fail("outgoing", "outgoing:unexpected_exception", {"n": n, "error": repr(e)})
            return out
        finally:
            # the per-layer lock of the harness Top layer is irrelevant here
            pass
        down = b"".join(bytes(x) for x in bottom.sent)
        if n >= 2 ** 24:
            if raised is None:
                out.fail("outgoing", "outgoing:oversize_not_refused", {"n": n, "down_len": len(down)})
            elif down:
                out.fail("outgoing", "outgoing:oversize_partially_written", {"n": n, "down_len": len(down)})
        else:
            if raised is not None:
                out.fail("outgoing", "outgoing:refused_valid_size", {"n": n, "error": repr(raised)})
            else:
                exp = struct.pack(">I", n)[1:] + payload
                if down != exp:
                    out.fail("outgoing", "outgoing:bytes_differ",
                             {"n": n, "down_len": len(down), "head": down[:8].hex(), "expected_head": exp[:8].hex()})
        return out
    raise ValueError("unknown sub %r" % sub)


def nontrivial(case, out):
    if case["sub"] == "dispatcher":
        return len(case["lens"]) >= 2 and bool(out.info and out.info["inside"])
    if case["sub"] == "stream":
        return len(case["lens"]) >= 2 and bool(out.info and out.info["inside"])
    if case["sub"] == "outgoing":
        return case["n"] >= 256
    return False


def _enum_partitions(maxlen):
    def factory():
        for nframes in (1, 2, 3):
            for lens in itertools.product(range(1, maxlen + 1), repeat=nframes):
                L = sum(3 + n for n in lens)
                total = 1 << (L - 1)
                for lo in range(0, total, MASK_CHUNK):
                    yield {"sub": "partitions", "lens": list(lens), "fill": 0,
                           "mask_lo": lo, "mask_hi": min(total, lo + MASK_CHUNK)}
    return factory


def _enum_fills():
    # the same small streams with adversarial contents, partitions of 2-frame streams only
    for fill in (1, 2, 3):
        for lens in itertools.product(range(1, 4), repeat=2):
            L = sum(3 + n for n in lens)
            yield {"sub": "partitions", "lens": list(lens), "fill": fill, "mask_lo": 0, "mask_hi": 1 << (L - 1)}


OUT_BOUNDARY = [0, 1, 2, 255, 256, 257, 65535, 65536, 65537, 2 ** 24 - 1, 2 ** 24, 2 ** 24 + 1]


def _enum_many_frames():
    # a burst of very many small frames handed over in one read, in two halves, and in socket-sized reads
    for count in (300, 1100, 3000):
        for size in (1, 2):
            lens = [size] * count
            L = sum(3 + n for n in lens)
            for cuts in ([], [L // 2], list(range(1024, L, 1024))):
                yield {"sub": "stream", "lens": lens, "fills": [0], "cuts": cuts}


def _enum_upper_raises():
    # the layer above fails on one frame of a short stream: every position of the failing frame, whole-stream / per-frame / per-byte chunks
    for lens in ([2, 3, 1], [5, 1, 1, 4]):
        L = sum(3 + n for n in lens)
        for k in range(len(lens)):
            for cuts in ([], list(itertools.accumulate(3 + n for n in lens))[:-1], list(range(1, L))):
                yield {"sub": "stream", "lens": lens, "fills": [0], "cuts": cuts, "upper_raises": [k]}


def _enum_sends_between_chunks():
    # a frame goes out after every chunk of a short incoming stream, for every single cut position
    for lens in ([300, 5], [4, 70000, 2]):
        L = sum(3 + n for n in lens)
        for cut in ([c for c in range(1, L)] if L < 400 else [1, 2, 3, 4, 10, 11, 12, 13, 14, 40000, L - 6, L - 5, L - 1]):
            for size in (1, 7, 300):
                yield {"sub": "stream", "lens": lens, "fills": [0], "cuts": [cut], "sends_between_chunks": [[1, size]]}


def _enum_outgoing():
    for n in OUT_BOUNDARY:
        yield {"sub": "outgoing", "n": n, "fill": 0}
    for fill in (4, 5):
        for n in (1, 2, 3, 4, 5, 40, 300, 70000):
            yield {"sub": "outgoing", "n": n, "fill": fill}


def stream_strategy(tier):
    small = st.integers(1, 40)
    boundary = st.sampled_from([253, 254, 255, 256, 257, 65532, 65533, 65534, 65535, 65536, 65537, 70000])
    length = st.one_of(small, small, small, boundary) if tier == "quick" else st.one_of(small, small, boundary)
    lens = st.lists(length, min_size=1, max_size=8)

    @st.composite
    def build(draw):
        ls = draw(lens)
        if sum(ls) > 300000:
            ls = ls[:3]
        if draw(st.integers(0, 14)) == 0:
            # very many small frames (the number of frames per read is not bounded by anything)
            ls = [draw(st.integers(1, 3))] * draw(st.sampled_from([200, 999, 1000, 1500, 4000]))
        L = sum(3 + n for n in ls)
        bounds = list(itertools.accumulate(3 + n for n in ls))
        # cut positions biased towards header bytes and frame ends
        near = []
        start = 0
        for n in ls:
            near.extend([start + 1, start + 2, start + 3, start + 4, start + 3 + n - 1, start + 3 + n])
            start += 3 + n
        cut = st.one_of(st.sampled_from(near), st.integers(1, max(1, L - 1)))
        cuts = draw(st.lists(cut, min_size=0, max_size=12))
        if draw(st.integers(0, 9)) == 0 and L <= 400:
            cuts = list(range(1, L))  # byte by byte
        fills = draw(st.lists(st.integers(0, 5), min_size=1, max_size=3))
        return {"sub": "stream", "lens": ls, "fills": fills, "cuts": sorted(set(cuts)), "second_connection": draw(st.integers(0, 3)) == 0,
                "events_between_chunks": draw(st.one_of(st.just([]), st.lists(st.tuples(st.integers(1, 8), st.integers(0, 2)).map(list), min_size=1, max_size=3))),
                "upper_raises": draw(st.one_of(st.just([]), st.just([]), st.lists(st.integers(0, 7), min_size=1, max_size=3))),
                "sends_between_chunks": draw(st.one_of(st.just([]), st.lists(st.tuples(st.integers(1, 8), st.sampled_from([1, 5, 40, 300, 70000])).map(list),
                                                                             min_size=1, max_size=3)))}
    return build()


def dispatcher_strategy():
    # frame and burst sizes around the dispatcher's read size (1024) and its multiples, besides arbitrary ones
    near = st.sampled_from([1018, 1019, 1020, 1021, 1022, 1023, 1024, 1025, 2045, 2046, 2047, 2048, 3069, 4093, 70000])
    length = st.one_of(st.integers(1, 40), st.integers(1, 3000), near)
    lens = st.lists(length, min_size=1, max_size=6)

    @st.composite
    def build(draw):
        ls = draw(lens)
        L = sum(3 + n for n in ls)
        bounds = list(itertools.accumulate(3 + n for n in ls))
        cut = st.one_of(st.sampled_from(bounds), st.sampled_from([1024, 2048, 3072, 4096]), st.integers(1, max(1, L - 1)))
        case = {"sub": "dispatcher", "lens": ls, "bursts": sorted(set(draw(st.lists(cut, min_size=0, max_size=8))))}
        if draw(st.booleans()):
            case["out"] = draw(st.lists(st.sampled_from([1, 3, 20, 300, 5000, 70000, 140000]), min_size=1, max_size=6))
            case["caps"] = draw(st.lists(st.sampled_from([0, 1, 2, 3, 7, 100, 4096, 32768, 65536, 1 << 30]), min_size=1, max_size=6))
        return case
    return build()


def _enum_dispatcher():
    for lens in ([5, 2, 9], [1021], [1021, 1021], [2045, 7], [500, 518, 3], [70000, 3]):
        L = sum(3 + n for n in lens)
        for bursts in ([], list(itertools.accumulate(3 + n for n in lens))[:-1], list(range(1024, L, 1024)), list(range(700, L, 700))):
            yield {"sub": "dispatcher", "lens": lens, "bursts": bursts}
    for caps in ([1 << 30], [32768], [3, 0, 100], [65536, 1], [40000, 0]):
        yield {"sub": "dispatcher", "lens": [5], "bursts": [], "out": [3, 70000, 20, 140000, 5000, 70000], "caps": caps}


def outgoing_strategy():
    return st.builds(lambda n, f: {"sub": "outgoing", "n": n, "fill": f},
                     st.one_of(st.integers(0, 600), st.integers(60000, 70000), st.integers(0, 1 << 20)),
                     st.integers(0, 5))


def plan(tier):
    quick = tier == "quick"
    return {
        "shards": 16,
        "enumerations": [
            ("partitions_len1-%d" % (3 if quick else 4), _enum_partitions(3 if quick else 4)),
            ("adversarial_fill_partitions", _enum_fills),
            ("outgoing_boundaries", _enum_outgoing),
            ("upper_layer_fails_on_a_frame", _enum_upper_raises),
            ("sends_between_chunks", _enum_sends_between_chunks),
            ("many_small_frames_in_one_read", _enum_many_frames),
            ("through_the_dispatcher", _enum_dispatcher),
        ],
        "exhaustive": ["partitions_len1-%d" % (3 if quick else 4), "adversarial_fill_partitions"],
        "strategies": [
            ("stream", stream_strategy(tier), 150 if quick else 20000),
            ("outgoing", outgoing_strategy(), 40 if quick else 2000),
            ("dispatcher", dispatcher_strategy(), 60 if quick else 4000),
        ],
        "shrink": "hypothesis",
        "budget_s": 120 if quick else 1500,
    }

RULE += (" Also: a layer above failing on chosen frames while the stream goes on; streams of 200..4000 tiny frames; the stream read through the library's own asynchronous dispatcher class (socket double; bursts incl. multiples of its read size) and outgoing frames written through it while the socket takes only part of what it is offered.")
RULE += (" Frames are also sent downward between the chunks of an incoming stream (sends_between_chunks): neither direction may disturb the other.")
RULE += (" Frame contents include ones that begin like the connection prologue (WA.. / ED..), in both directions.")
