"""C02 - wire-format conformance against the independent reference implementation (ref/codec.py).

(a) library encoder -> reference decoder gives the same tree
(b) reference encoder under any choice vector (and optionally a zlib frame) -> library decoder gives the same tree
(c) the dictionary: all 1260 entries equal the pinned copy by index, through the table and through behaviour
"""
from .. import compat  # noqa: F401
from ..core import Outcome, HarnessError
from ..gen import stanzas as G
from ..kit import trees as T
from ..ref import codec as R
from hypothesis import strategies as st

from yowsup.layers.coder.encoder import WriteEncoder
from yowsup.layers.coder.decoder import ReadDecoder
from yowsup.layers.coder.tokendictionary import TokenDictionary

ID = "C02"
LEVEL = "exploration"
RULE = ("trees as in C01 (generated + boundary list); direction (a): library bytes decoded by the reference; direction "
        "(b): the reference encoder driven by a generated choice vector that selects, per site, any permitted form "
        "(8/16-bit list header, 8/20/31-bit length, token vs literal, packed vs raw, JID pair vs literal, JID with empty "
        "user part for bare server names, string-valued content, zlib frame) decoded by the library; (c) the 1260 "
        "dictionary entries are enumerated completely. Non-trivial: (a) the tree needs a multi-byte form (C01's rule); "
        "(b) at least one non-default choice was actually taken or the frame is compressed; (c) every entry. "
        "Distinct = distinct canonical JSON of the case.")
ASSUMPTIONS = [
    "the reference dictionary is a pinned copy of the table at the pinned commit: it establishes absence of drift and "
    "structural sanity, not agreement with a live server (DESIGN.md 4.2)",
    "the reference codec was written from the format description and passes the repository's two fixture vectors",
]

_td = TokenDictionary()
_enc = WriteEncoder(_td)
_dec = ReadDecoder(_td)


def selftest():
    p = R.selftest()
    if p:
        raise HarnessError("reference codec self-test failed: %s" % "; ".join(p))


_CODEC_FUNCS = []


def _enum_seq():
    leaf = {"t": "x", "a": [["k", "v"]], "c": None}
    for kind in ("bad_token", "cut"):
        for depth, count in ((0, 6), (90, 4), (130, 3)):
            yield {"sub": "seq", "frames": [{"tree": leaf}] + [{"tree": leaf, "fault": [kind, depth, i]} for i in range(count)]
                   + [{"tree": {"t": "p", "a": [], "c": [leaf, leaf]}}, {"tree": leaf}]}


def _case_size(case):
    """bytes of strings and content in the case's tree (the codec's loops are linear in it)"""
    def size(t):
        tag, attrs, content = t
        n = len(tag) + sum(len(k) + len(v) for k, v in attrs.items())
        if isinstance(content, (bytes, bytearray)):
            n += len(content)
        elif isinstance(content, list):
            n += sum(size(c) for c in content)
        return n + 8
    try:
        return size(G.materialize(case["tree"])) if "tree" in case else 0
    except Exception:
        return 0


def run_case(case):
    """the codec's loops run under a deterministic iteration budget: a decoder or encoder that stops making progress ends the
    case (and is reported) instead of the run"""
    from ..kit.stackkit import loop_budget, LoopBudgetExceeded, functions_of
    if not _CODEC_FUNCS:
        import yowsup.layers.coder.decoder as _d
        import yowsup.layers.coder.encoder as _e
        _CODEC_FUNCS.extend(functions_of(_d, _e))
    try:
        with loop_budget(_CODEC_FUNCS, 20000000 + 400 * _case_size(case)):
            return _run_case(case)
    except LoopBudgetExceeded as e:
        out = Outcome()
        out.fail("roundtrip", "codec_loop_makes_no_progress", {"error": str(e)})
        return out


def _run_case(case):
    out = Outcome()
    sub = case["sub"]
    if sub == "dict":
        return _dict_case(case, out)
    if sub == "seq":
        # one decoder object for a whole connection (what the coder layer holds): frames that cannot be decoded - cut off, an
        # unknown token where a child should start, at generated nesting depth - are refused and leave nothing behind; every
        # valid frame before and after them decodes to its tree
        dec = ReadDecoder(_td)
        out.label("seq")
        n_faulty = 0
        for k, item in enumerate(case["frames"]):
            tree = G.materialize(item["tree"])
            fault = item.get("fault")
            if fault:
                # a chain of single children (written by hand: 8-bit list headers, one-letter literal tags) at whose bottom, where
                # the innermost node should start, there is a byte that is no list header - or the frame simply ends
                n_faulty += 1
                frame = b"\x00" + b"".join(b"\xf8\x02\xfc\x01" + bytes([97 + i % 5]) + b"\xf8\x01" for i in range(1 + fault[1]))
                frame += bytes([0xf7, 0x02, 0x03][:1 + fault[2] % 3]) if fault[0] == "bad_token" else b""
                try:
                    dec.getProtocolTreeNode(bytearray(frame))
                    out.label("seq:damaged_frame_accepted")
                except Exception:
                    out.label("seq:damaged_frame_refused")
                continue
            frame = R.encode(tree, R.Choices(item.get("choices", ())))
            try:
                back = T.from_node(dec.getProtocolTreeNode(bytearray(frame)))
            except Exception as e:
                out.fail("ref_to_lib", "seq:valid_frame_refused_after_%s" % ("undecodable_frames" if n_faulty else "valid_frames"),
                         {"error": repr(e)[:300], "index": k, "undecodable_before": n_faulty})
                return out
            d = T.diff(tree, back)
            if d:
                out.fail("ref_to_lib", "seq:differs_after_%s" % ("undecodable_frames" if n_faulty else "valid_frames"), {"diff": d, "index": k})
                return out
        out.info = {"nt": n_faulty >= 1}
        return out
    tree = G.materialize(case["tree"])
    feats = G.features(tree)
    name = case.get("name")
    if sub == "a":
        out.label("a")
        for f in sorted(feats):
            out.label(f)
        out.info = {"nt": bool(feats & G.NONTRIVIAL_FEATURES)}
        try:
            frame = bytes(bytearray(WriteEncoder(_td).protocolTreeNodeToBytes(T.to_node(tree))))
        except Exception as e:
            out.fail("lib_to_ref", "lib_to_ref:encode_raises:%s" % type(e).__name__, {"error": repr(e), "name": name})
            return out
        try:
            back = R.decode(frame)
        except R.FormatError as e:
            out.fail("lib_to_ref", "lib_to_ref:invalid_frame", {"error": str(e), "name": name, "frame_head": frame[:64].hex()})
            return out
        d = T.diff(tree, back)
        if d:
            out.fail("lib_to_ref", "lib_to_ref:differs", {"diff": d, "name": name})
        return out
    if sub == "b":
        ch = R.Choices(case.get("choices", ()))
        deflate = bool(case.get("deflate"))
        frame = R.encode(tree, ch, deflate=deflate)
        taken = sorted(set("%s=%d" % (site, v) for site, v, n in ch.used if v != 0))
        out.label("b")
        for t in taken:
            out.label("choice:" + t)
        if deflate:
            out.label("deflate")
        out.info = {"nt": bool(taken) or deflate}
        try:
            node = ReadDecoder(_td).getProtocolTreeNode(bytearray(frame))
            back = T.from_node(node)
        except Exception as e:
            kinds = sorted(set(site for site, v, n in ch.used if v != 0))
            out.fail("ref_to_lib", "ref_to_lib:decode_raises:%s" % type(e).__name__,
                     {"error": repr(e)[:300], "name": name, "choices_taken": taken, "deflate": deflate,
                      "frame_head": frame[:64].hex(), "sites": kinds})
            return out
        d = T.diff(tree, back)
        if d:
            out.fail("ref_to_lib", "ref_to_lib:differs", {"diff": d, "name": name, "choices_taken": taken})
        return out
    raise ValueError(sub)


def _dict_case(case, out):
    lo, hi = case["lo"], case["hi"]
    out.evals = hi - lo
    out.nontrivial_n = hi - lo
    out.label("dict")
    prim = list(_td.dictionary)
    sec = list(_td.secondaryDictionary)
    if len(prim) != len(R.PRIMARY) or len(sec) != len(R.SECONDARY):
        out.fail("dictionary", "dictionary:size", {"primary": len(prim), "secondary": len(sec)})
        return out
    for g in range(lo, hi):
        secondary = g >= len(R.PRIMARY)
        idx = g - len(R.PRIMARY) if secondary else g
        ref_word = R.SECONDARY[idx] if secondary else R.PRIMARY[idx]
        lib_word = sec[idx] if secondary else prim[idx]
        if lib_word != ref_word:
            out.fail("dictionary", "dictionary:entry_differs",
                     {"secondary": secondary, "index": idx, "lib": lib_word, "ref": ref_word},
                     case={"sub": "dict", "lo": g, "hi": g + 1})
            return out
        if not secondary and idx < 3:
            continue
        # behaviour: the word encodes to the pinned index bytes, the index bytes decode to the word
        expect = bytes([R.DICT_0 + idx // 256, idx % 256]) if secondary else bytes([idx])
        frame = bytes(bytearray(WriteEncoder(_td).protocolTreeNodeToBytes(T.to_node((ref_word, {}, None)))))
        if frame != b"\x00\xf8\x01" + expect:
            out.fail("dictionary", "dictionary:encodes_differently",
                     {"word": ref_word, "frame": frame.hex(), "expected": (b"\x00\xf8\x01" + expect).hex()},
                     case={"sub": "dict", "lo": g, "hi": g + 1})
            return out
        try:
            node = ReadDecoder(_td).getProtocolTreeNode(bytearray(b"\x00\xf8\x03" + expect + b"\xfc\x01k" + expect))
            ok = node.tag == ref_word and node.attributes == {"k": ref_word}
        except Exception as e:
            ok = False
            node = repr(e)
        if not ok:
            out.fail("dictionary", "dictionary:decodes_differently", {"word": ref_word, "got": str(node)[:200]},
                     case={"sub": "dict", "lo": g, "hi": g + 1})
            return out
    return out


def nontrivial(case, out):
    return bool(out.info and out.info.get("nt"))


def _enum_dict():
    total = len(R.PRIMARY) + len(R.SECONDARY)
    for lo in range(0, total, 20):
        yield {"sub": "dict", "lo": lo, "hi": min(total, lo + 20)}


def _enum_boundary(tier):
    def factory():
        for b in G.boundary_trees(tier):
            big = "1048" in b["name"] or "3145" in b["name"] or "1677" in b["name"]
            yield {"sub": "a", "name": b["name"], "tree": b["tree"]}
            for seq in ([], [1] * 40, [2] * 40, [0, 1, 2, 1, 0, 2] * 8):
                yield {"sub": "b", "name": b["name"], "tree": b["tree"], "choices": seq, "deflate": False}
            if not big or b["name"] in ("content_1048576_top_pat2", "content_1048577_top_pat2", "content_1048575_nested_then_sibling",
                                        "content_1048576_deep", "attr_value_1048577"):
                # (compressed frames also for a few trees whose inflated size is at and just above 1 MiB)
                yield {"sub": "b", "name": b["name"], "tree": b["tree"], "choices": [1, 0, 2, 1], "deflate": True}
    return factory


def _enum_words():
    # every dictionary word sent as a literal / packed / content string by the peer
    for spec in G.word_sweep():
        yield {"sub": "a", "tree": spec}
        for seq in ([1] * 12, [2] * 12):
            yield {"sub": "b", "tree": spec, "choices": seq, "deflate": False}


def plan(tier):
    quick = tier == "quick"
    trees = G.tree_strategy(tier)
    choices = st.lists(st.integers(0, 5), min_size=0, max_size=60)
    b = st.builds(lambda t, c, z: {"sub": "b", "tree": t, "choices": c, "deflate": z}, trees, choices,
                  st.sampled_from([False, False, False, True]))
    a = trees.map(lambda t: {"sub": "a", "tree": t})
    fault = st.one_of(st.none(), st.none(), st.tuples(st.sampled_from(["bad_token", "cut"]), st.sampled_from([0, 1, 3, 40, 90, 130]), st.integers(0, 5)).map(list))
    item = st.builds(lambda t, c, f: dict({"tree": t, "choices": c}, **({"fault": f} if f else {})), G.tree_strategy("quick"),
                     st.lists(st.integers(0, 5), min_size=0, max_size=20), fault)
    seq = st.lists(item, min_size=2, max_size=8).map(lambda fs: {"sub": "seq", "frames": fs})
    return {
        "shards": 16,
        "enumerations": [
            ("dictionary", _enum_dict),
            ("boundary_trees", _enum_boundary(tier)),
            ("words_as_literals", _enum_words),
            ("frames_through_one_decoder", _enum_seq),
        ],
        "exhaustive": ["dictionary"],
        "strategies": [
            ("lib_to_ref", a, 130 if quick else 4000),
            ("ref_to_lib", b, 200 if quick else 4000),
            ("frames_through_one_decoder", seq, 40 if quick else 1500),
        ],
        "shrink": "hypothesis",
        "budget_s": 150 if quick else 1500,
    }

RULE += (' Boundary trees also include chains 40 / 120 / 300 levels deep. Sub-case seq: 2-8 frames through one decoder object, some of them undecodable (an invalid byte where the innermost node of a hand-built chain of generated depth should start, or the frame ends there): every valid frame before and after decodes to its tree.')
