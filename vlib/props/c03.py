"""C03 - end-to-end messaging: exactly-once authentic delivery, only ciphertext on the wire.

Conversation scripts over 2-4 accounts, each a real stack from the network layer up against the server double
(kit/accounts.py).  A model of the conversation is compared with what every application holds after all queues are drained.
"""
import hashlib

from .. import compat  # noqa: F401
from ..core import Outcome
from ..kit import accounts as A
from . import c10
from hypothesis import strategies as st

from yowsup.structs import ProtocolTreeNode as N
from yowsup.layers.protocol_messages.protocolentities.protomessage import ProtomessageProtocolEntity
from yowsup.layers.protocol_media.protocolentities.message_media import MediaMessageProtocolEntity
from yowsup.layers.protocol_messages.protocolentities.attributes.attributes_message_meta import MessageMetaAttributes

ID = "C03"
LEVEL = "exploration"
RULE = ("generated conversation scripts of 2-14 operations over 2-4 accounts (each registered from a template profile or started "
        "from nothing, so that the first passive login uploads its keys): send(from, to | group, payload) with payload in {text, "
        "link preview, image, video, audio, document, sticker, location, contact} and a unique >= 12-byte marker in every textual or binary field; deliver(k) of "
        "the k-th queued server stanza in any order; duplicate(k) of a queued message stanza; corrupt(k): one damaged ciphertext (a flipped byte at a generated position - head, body, MAC - or a truncation; damage that would land in the identity key a first message claims is moved into the ciphertext, an identity change being C17's subject) "
        "byte, once per message and recipient; restart(account) while none of its stanzas is queued; loop(account); all queues "
        "are drained at the end. Non-trivial = a group message, a duplicate / corruption, a restart or an out-of-order delivery. "
        "Distinct = distinct canonical JSON.")
ASSUMPTIONS = [
    "python-axolotl 0.2.2's AESCipher.encrypt leaves block-aligned plaintexts unpadded (external defect E3, DESIGN.md section 2): "
    "conversations run with the corrected cipher; the uncorrected behaviour is excluded by construction",
    "the server double does what the client code consumes: acks, key directory handing out each one-time prekey once, group "
    "info, per-participant fan-out, receipt routing, offline queueing; nothing more is claimed about a real server",
    "python-axolotl 0.2.2 appends a received sender-key state behind the existing ones (external defect E4): two group messages of "
    "one sender delivered in reverse order lose the older one as a 'duplicate'; conversations run with new states put in front, as "
    "libsignal does; recorded as external known finding with a canary on the library class",
    "a wait that expires while a client thread is busy is reported as inconclusive (exit 2), never as a violation",
]

JIDS = ["4915100000021@s.whatsapp.net", "4915100000022@s.whatsapp.net", "4915100000023@s.whatsapp.net", "4915100000024@s.whatsapp.net"]
GROUPS = ["4915100000021-1500000001@g.us", "4915100000022-1500000002@g.us"]
MEDIATYPE = {"image": "image", "location": "location", "contact": "contact", "video": "video", "audio": "audio",
             "document": "document", "sticker": "sticker"}


def marker(msg_no, field):
    return "MK%s" % hashlib.sha1(("%d:%s" % (msg_no, field)).encode()).hexdigest()[:14]


def payload_spec(kind, msg_no, opts):
    """C10-style spec; every textual or binary field carries its own marker"""
    mk = lambda f: marker(msg_no, f)  # noqa
    if kind == "text":
        return {"conversation": "hello " + mk("body") + (" " + "x" * opts.get("pad", 0))}
    if kind == "link":
        d = {"text": "see http://example.org/" + mk("text"), "matched_text": "http://example.org/" + mk("matched")}
        if opts.get("a"):
            d.update(canonical_url="http://example.org/c/" + mk("canon"), description=mk("desc"), title=mk("title"))
        if opts.get("b"):
            d["jpeg_thumbnail"] = mk("thumb").encode().hex()
        return {"extended_text": d}
    if kind == "image":
        dm = {"mimetype": "image/jpeg", "file_length": 1000 + msg_no, "file_sha256": hashlib.sha256(mk("sha").encode()).hexdigest(),
              "url": "https://mmg.whatsapp.net/d/" + mk("url"), "media_key": hashlib.sha256(mk("key").encode()).hexdigest()}
        d = {"width": 640 + msg_no, "height": 480, "dm": dm}
        if opts.get("a"):
            d["caption"] = mk("caption")
        if opts.get("b"):
            d["jpeg_thumbnail"] = mk("thumb").encode().hex()
        return {"image": d}
    if kind == "location":
        d = {"degrees_latitude": 52.5 + msg_no / 1000.0, "degrees_longitude": 13.25}
        if opts.get("pad") == 3:
            # a place on the equator and the prime meridian, heading due north, standing still: zero is a value like any other
            d = {"degrees_latitude": 0.0, "degrees_longitude": 0.0, "accuracy_in_meters": 0, "speed_in_mps": 0.0,
                 "degrees_clockwise_from_magnetic_north": 0}
        if opts.get("a"):
            d.update(name=mk("name"), address=mk("addr"), url="http://maps/" + mk("url"))
        if opts.get("b"):
            d["jpeg_thumbnail"] = mk("thumb").encode().hex()
        return {"location": d}
    if kind == "contact":
        return {"contact": {"display_name": mk("name"), "vcard": ("BEGIN:VCARD\nFN:%s\nEND:VCARD" % mk("vcard")).encode().hex()}}
    if kind in ("video", "audio", "document", "sticker"):
        mime = {"video": "video/mp4", "audio": "audio/ogg", "document": "application/pdf", "sticker": "image/webp"}[kind]
        dm = {"mimetype": mime, "file_length": 2000 + msg_no, "file_sha256": hashlib.sha256(mk("sha").encode()).hexdigest(),
              "url": "https://mmg.whatsapp.net/d/" + mk("url"), "media_key": hashlib.sha256(mk("key").encode()).hexdigest()}
        if kind == "video":
            d = {"width": 320, "height": 240 + msg_no, "seconds": 7, "dm": dm}
            if opts.get("a"):
                d.update(caption=mk("caption"), gif_playback=True)
            if opts.get("b"):
                d["jpeg_thumbnail"] = mk("thumb").encode().hex()
        elif kind == "audio":
            d = {"seconds": 3 + msg_no, "dm": dm}
            if opts.get("a"):
                d["ptt"] = True
        elif kind == "document":
            d = {"file_name": mk("fname") + ".pdf", "file_length": dm["file_length"], "dm": dm}
            if opts.get("a"):
                d.update(title=mk("title"), page_count=3)
            if opts.get("b"):
                d["jpeg_thumbnail"] = mk("thumb").encode().hex()
        else:
            d = {"width": 64, "height": 64 + msg_no, "dm": dm}
            if opts.get("b"):
                d["png_thumbnail"] = mk("thumb").encode().hex()
        return {kind: d}
    raise ValueError(kind)


def spec_markers(spec):
    out = []

    def walk(v):
        if isinstance(v, dict):
            for x in v.values():
                walk(x)
        elif isinstance(v, str):
            i = v.find("MK")
            if i >= 0:
                out.append(v[i:i + 16].encode())
            else:
                try:
                    b = bytes.fromhex(v)
                    j = b.find(b"MK")
                    if j >= 0:
                        out.append(b[j:j + 16])
                except ValueError:
                    pass
    walk(spec)
    return out


def make_entity(kind, spec, to):
    attrs = c10.build_message(spec)
    meta = MessageMetaAttributes(recipient=to)
    if kind in MEDIATYPE:
        return MediaMessageProtocolEntity(MEDIATYPE[kind], attrs, meta)
    return ProtomessageProtocolEntity("text", attrs, meta)


class LoggingServer(A.Server):
    """records the order in which message stanzas are handed to each client"""

    def __init__(self):
        A.Server.__init__(self)
        self.delivery_order = {}

    def step(self, clients, idx=0, mutate=None, duplicate=False):
        jid, node, meta = self.outq[idx]
        if meta.get("kind") == "message":
            self.delivery_order.setdefault(jid, []).append(meta["msg_id"])
        return A.Server.step(self, clients, idx, mutate, duplicate)


class World(object):
    def __init__(self, case):
        A.install()
        self.server = LoggingServer()
        self.clients = {}
        self.homes = []
        n = case["accounts"]
        self.jids = JIDS[:n]
        for g, members in zip(GROUPS, case.get("groups", [])):
            ms = []
            for i in members:
                if self.jids[i % n] not in ms:
                    ms.append(self.jids[i % n])
            if len(ms) >= 2:
                self.server.groups[g] = ms
        for i, jid in enumerate(self.jids):
            registered = case.get("registered", [True] * n)[i % len(case.get("registered", [True]))]
            home, bundle = A.template(jid, registered=registered)
            h = A.clone(home)
            self.homes.append(h)
            if bundle is not None:
                self.server.keys[jid] = A.copy_bundle(bundle)
            self.clients[jid] = A.Client(self.server, jid, h, props=case.get("props", {}))

    def connect_all(self):
        for c in self.clients.values():
            c.connect()
            A.settle(self.server, self.clients)

    def close(self):
        import shutil
        for c in self.clients.values():
            try:
                c.stop()
            except Exception:
                pass
        for h in self.homes:
            shutil.rmtree(h, ignore_errors=True)


def e3_canary(out):
    """external defect E3 (python-axolotl 0.2.2): AESCipher.encrypt does not pad block-aligned plaintexts, decrypt always
    unpads -> every message whose padded length is a multiple of 16 fails at the receiver.  Shown on the library's cipher
    itself, with the harness correction switched off."""
    compat.patch_axolotl_padding(False)
    try:
        import axolotl.sessioncipher as sc
        key, iv = b"k" * 32, b"i" * 16
        for n in (16, 32):
            try:
                back = sc.AESCipher(key, iv).decrypt(sc.AESCipher(key, iv).encrypt(b"x" * n))
                ok = bytes(back) == b"x" * n
            except Exception:
                ok = False
            if not ok:
                out.fail("external", "external:axolotl_aescipher_block_aligned_plaintext_not_padded", {"plaintext_len": n})
                break
    finally:
        compat.patch_axolotl_padding(True)
    return out


def e4_canary(out):
    """external defect E4 (python-axolotl 0.2.2): a newly received sender-key state is appended behind the existing ones
    while lookups return the first match; libsignal puts new states in front."""
    compat.patch_axolotl_senderkey_order(False)
    try:
        from axolotl.groups.state.senderkeyrecord import SenderKeyRecord
        from axolotl.ecc.curve import Curve
        rec = SenderKeyRecord()
        pub = Curve.generateKeyPair().getPublicKey()
        rec.addSenderKeyState(7, 1, b"k" * 32, pub)   # distribution carried by the later message, arrives first
        rec.addSenderKeyState(7, 0, b"j" * 32, pub)   # distribution carried by the earlier message, arrives second
        if rec.getSenderKeyState(7).getSenderChainKey().getIteration() != 0:
            out.fail("external", "external:axolotl_senderkeyrecord_new_state_appended_behind_old", {})
    finally:
        compat.patch_axolotl_senderkey_order(True)
    return out


def run_case(case):
    out = Outcome()
    if case.get("sub") == "e3_canary":
        return e3_canary(out)
    if case.get("sub") == "e4_canary":
        return e4_canary(out)
    w = World(case)
    import yowsup.axolotl.manager as _M
    real_random = _M.random
    if case.get("draws") in ("lowest", "highest"):
        # where the library asks for a random number in a range (the padding length of a message), every number of that range is a
        # possible answer: here it gets the lowest / the highest one the function it calls could return, every time
        lowest = case["draws"] == "lowest"

        class _Extreme(object):
            def __getattr__(self, name):
                return getattr(real_random, name)

            def randint(self, a, b):
                return a if lowest else b

            def randrange(self, *a):
                r = range(*a)
                return r[0] if lowest else r[-1]
        _M.random = _Extreme()
        out.label("random_draws=" + case["draws"])
    try:
        return _run(case, out, w)
    finally:
        _M.random = real_random
        w.close()


def _run(case, out, w):
    import random
    random.seed(case.get("seed", 0))     # the library draws its message padding from the global generator
    server, clients = w.server, w.clients
    w.connect_all()
    for jid, c in clients.items():
        if not c.connected():
            out.fail("setup", "setup:account_not_connected_after_login", {"jid": jid, "errors": [e[:2] for e in c.errors]})
            return out
    messages = []       # {"id", "from", "to", "recipients", "kind", "spec", "dups": {jid: n}, "corrupted": set()}
    nt = False
    restarted = set()
    out.label("accounts=%d" % len(w.jids))
    ops = []
    for op in case["ops"]:
        if op[0] == "burst":
            # a long acknowledged history: op[3] messages of one sender to one conversation, each delivered and receipted before the next
            for i in range(op[3]):
                ops += [["send", op[1], op[2], "text", {"a": False, "b": False, "pad": 0}], ["settle"]]
            out.label("long_acknowledged_history")
            nt = True
        else:
            ops.append(op)
    for step, op in enumerate(ops):
        kind = op[0]
        if kind == "send":
            sender = w.jids[op[1] % len(w.jids)]
            target = op[2]
            if isinstance(target, str) and target.startswith("g"):
                groups = [g for g in GROUPS if g in server.groups and sender in server.groups[g]]
                if not groups:
                    continue
                to = groups[int(target[1:]) % len(groups)]
                recipients = [j for j in server.groups[to] if j != sender]
                nt = True
                out.label("group_message")
            else:
                others = [j for j in w.jids if j != sender]
                to = others[int(target) % len(others)]
                recipients = [to]
            # (the statement's bound: fewer than 100 messages of a sender are unacknowledged at any time)
            if len([m for m in messages if m["from"] == sender and set(m["recipients"]) - delivered_to(clients, m)]) >= 90:
                continue
            pk = op[3]
            spec = payload_spec(pk, len(messages), op[4] if len(op) > 4 else {})
            ent = make_entity(pk, spec, to)
            messages.append({"id": ent.getId(), "from": sender, "to": to, "recipients": recipients, "kind": pk, "spec": spec,
                             "dups": {}, "corrupted": set()})
            out.label("payload=" + pk)
            if not clients[sender].connected():
                clients[sender].connect()
            err = clients[sender].send(ent)
            if err is not None:
                out.fail("send", "send:raises:%s" % type(err).__name__, {"step": step, "error": repr(err)[:300], "kind": pk})
                return out
        elif kind in ("deliver", "dup", "corrupt"):
            if kind in ("dup", "corrupt"):
                # faults hit message stanzas: let the server work through its queue until one is waiting
                for _ in range(60):
                    if not server.outq or any(q[2].get("kind") == "message" for q in server.outq):
                        break
                    server.step(clients, 0)
            if not server.outq:
                continue
            k = op[1] % len(server.outq)
            if kind == "dup":
                # the server queues a second copy of a message stanza (delivered later like any other queued stanza)
                cands = [i for i, q in enumerate(server.outq) if q[2].get("kind") == "message" and not q[2].get("duplicate")
                         and not q[2].get("has_copy")]
                if not cands:
                    continue
                k = cands[op[1] % len(cands)]
                jid, node, meta = server.outq[k]
                meta["has_copy"] = True
                m = find_message(messages, meta["msg_id"])
                m["dups"][jid] = m["dups"].get(jid, 0) + 1
                server.seq += 1
                server.outq.insert(k + 1, [jid, node, dict(meta, duplicate=True, seq=server.seq)])
                nt = True
                out.label("duplicate_delivery")
                continue
            if kind == "corrupt":
                cands = [i for i, q in enumerate(server.outq) if q[2].get("kind") == "message" and q[1].getAllChildren("enc")
                         and q[0] not in find_message(messages, q[2]["msg_id"])["corrupted"]]
                if not cands:
                    continue
                k = cands[op[1] % len(cands)]
                jid, node, meta = server.outq[k]
                m = find_message(messages, meta["msg_id"])
                m["corrupted"].add(jid)
                if not any(e.getTag() == "message" and e.getId() == m["id"] for e in clients[jid].app_got):
                    m.setdefault("corrupted_first", set()).add(jid)   # the corrupted copy is the first one this recipient sees
                nt = True
                out.label("corrupted_ciphertext")
                if k != 0:
                    out.label("reordered_delivery")
                where = op[3] if len(op) > 3 else None
                if where is not None:
                    out.label("corrupted_at=" + (("version_byte_pattern" if where[1] == 0 else "pattern") if isinstance(where, list) and where[0] == "xor" else
                                                 "cut" if isinstance(where, list) else "head" if 0 <= where < 8 else "tail" if where < 0 else "body"))
                moved0 = CORRUPTION_MOVED[0]
                server.step(clients, k, mutate=lambda n, _b=op[2] if len(op) > 2 else 0, _w=where: corrupt(n, _b, _w))
                if CORRUPTION_MOVED[0] != moved0:
                    out.label("corruption_moved_off_the_claimed_identity_key")
                if LAST_CORRUPTION["certain"]:
                    m.setdefault("certainly_undecryptable", set()).add(jid)
                continue
            if k != 0:
                nt = True
                out.label("reordered_delivery")
            server.step(clients, k)
        elif kind == "restart":
            jid = w.jids[op[1] % len(w.jids)]
            busy = any(q[0] == jid for q in server.outq) or any(find_message(messages, q[2].get("msg_id", ""))
                                                                   and find_message(messages, q[2]["msg_id"])["from"] == jid
                                                                   for q in server.outq if q[2].get("msg_id"))
            pending_retry = any(m["from"] == jid and m["corrupted"] - delivered_to(clients, m) for m in messages)
            if busy or pending_retry:
                continue
            clients[jid].stop()
            clients[jid].start()
            clients[jid].connect()
            restarted.add(jid)
            nt = True
            out.label("restart")
        elif kind == "loop":
            clients[w.jids[op[1] % len(w.jids)]].pump()
        elif kind == "advance":
            # the server works through its queue in order until a message stanza is waiting for delivery
            for _ in range(60):
                if not server.outq or any(q[2].get("kind") == "message" for q in server.outq):
                    break
                server.step(clients, 0)
        elif kind == "settle":
            # the server delivers everything it has queued, in order
            if not A.settle(server, clients):
                out.fail("drain", "queues_do_not_drain", {"step": step, "left": len(server.outq)})
                return out
        else:
            raise ValueError(kind)
        for jid, c in clients.items():
            bad = [e for e in c.errors]
            if bad:
                out.fail("error", "client_error:%s" % bad[0][0], {"step": step, "op": op[:3], "jid": jid, "error": list(bad[0])[:3]})
                return out
    # ---- drain everything
    for jid, c in clients.items():
        if not c.connected():
            c.connect()
    if not A.settle(server, clients):
        out.fail("drain", "queues_do_not_drain", {"left": len(server.outq)})
        return out
    for jid, c in clients.items():
        if c.errors:
            out.fail("error", "client_error:%s" % c.errors[0][0], {"jid": jid, "error": list(c.errors[0])[:3]})
            return out
    # ---- oracle: the conversation model
    for m in messages:
        key_kind = m["kind"] + (":group" if m["to"] in GROUPS else ":direct")
        for jid, c in clients.items():
            got = [e for e in c.app_got if e.getTag() == "message" and e.getId() == m["id"]]
            if jid in m["recipients"]:
                retried = [n for j2, n in server.log if j2 == jid and n.tag == "receipt" and n["type"] == "retry" and n["id"] == m["id"]]
                if len(got) == 2 and m["dups"].get(jid, 0) >= 1 and retried and legit_retry(messages, m, jid, server):
                    # specific history: the first copy could not be decrypted (retry requested, message re-sent and shown), then the
                    # server's duplicate of the original stanza arrived and decrypted, because the failed attempt had not used up
                    # its message key - the library has no other duplicate detection than the ratchet
                    scope = "group" if m["to"] in GROUPS else "direct"
                    out.fail("delivery", "delivery:%s:shown_twice:duplicate_stanza_after_retry_resend" % scope,
                             {"message": m["id"], "recipient": jid, "dups": m["dups"].get(jid, 0), "corrupted": jid in m["corrupted"]})
                    continue
                if len(got) == 2 and m["dups"].get(jid, 0) >= 1 and retried and jid in m["corrupted"] and jid not in m.get("corrupted_first", ()):
                    # specific history, the mirror image of the one above: the intact copy was shown, then the server's duplicate
                    # arrived damaged beyond recognition (unparsable: it cannot even be recognised as a duplicate through the
                    # ratchet), a retry was requested and the re-sent copy was shown as well
                    scope = "group" if m["to"] in GROUPS else "direct"
                    out.fail("delivery", "delivery:%s:shown_twice:retry_after_damaged_duplicate_of_a_shown_message" % scope,
                             {"message": m["id"], "recipient": jid})
                    continue
                if len(got) == 2 and m["dups"].get(jid, 0) >= 1 and m["to"] in GROUPS and jid not in m["corrupted"] and not retried and \
                        [n for j2, n in server.log if j2 == jid and n.tag == "receipt" and n["type"] == "retry" and n["id"] != m["id"]
                         and any(m0["id"] == n["id"] and m0["from"] == m["from"] and m0["to"] == m["to"] for m0 in messages)]:
                    # specific history: both copies of this message were fine; between them the member received the re-sent copy of
                    # ANOTHER message of the same sender (it had asked for it again), which carries the sender key once more - at a
                    # chain position that is not behind this message - so the ratchet no longer knows this message's key as used
                    out.fail("delivery", "delivery:group:shown_twice:duplicate_after_sender_key_reinstalled_by_resend_of_another_message",
                             {"message": m["id"], "recipient": jid})
                    continue
                if len(got) == 0 and m["to"] in GROUPS and jid not in m["corrupted"] and legit_retry(messages, m, jid, server) and not retried \
                        and [n for j2, n in server.log if j2 == jid and n.tag == "receipt" and not n["type"] and n["id"] == m["id"]]:
                    # specific history: this copy was fine, but it reached the member while the sender key it depends on was not
                    # there (the earlier message that carried the key was damaged and its re-sent copy had not come yet) and after a
                    # LATER message had installed the key at a later position of the chain: the ratchet reports "old counter", which
                    # the library takes for a duplicate - it acknowledges the message and drops it instead of asking for it again
                    out.fail("delivery", "delivery:group:dropped_as_duplicate:older_than_the_sender_key_state_installed_first",
                             {"message": m["id"], "recipient": jid})
                    continue
                if len(got) != 1:
                    out.fail("delivery", "delivery:%s:message_delivered_%d_times" % (key_kind, len(got)),
                             {"message": m["id"], "recipient": jid, "classes": [type(e).__name__ for e in got],
                              "dups": m["dups"].get(jid, 0), "corrupted": jid in m["corrupted"]})
                    return out
                e = got[0]
                if m["to"] in GROUPS:
                    ok = e.getFrom() == m["to"] and e.getParticipant() == m["from"]
                else:
                    ok = e.getFrom() == m["from"] and not e.getParticipant()
                if not ok:
                    out.fail("delivery", "delivery:%s:wrong_sender_or_group" % key_kind, {"from": e.getFrom(), "participant": e.getParticipant()})
                    return out
                problems = []
                try:
                    c10.cmp_message(m["spec"], c10.extract_message(e.message_attributes), "message", problems)
                except Exception as ex:
                    problems.append(("message", "unreadable:%s" % type(ex).__name__, None, None))
                # a re-sent group message carries the sender key next to the original content: the content is what counts
                problems = [p for p in problems if not (p[0].endswith(".sender_key_distribution_message") and p[1] == "appeared")]
                if problems:
                    out.fail("delivery", "delivery:%s:content_differs:%s" % (key_kind, problems[0][0]), {"problem": list(problems[0])})
                    return out
            elif got:
                out.fail("delivery", "delivery:%s:message_reached_someone_else" % key_kind, {"message": m["id"], "account": jid})
                return out
        sender = clients[m["from"]]
        for r in m["recipients"]:
            if m["to"] in GROUPS:
                rec = [e for e in sender.app_got if e.getTag() == "receipt" and e.getId() == m["id"] and e.getFrom() == m["to"]
                       and e.getParticipant() == r and e.getType() in (None, "")]
            else:
                rec = [e for e in sender.app_got if e.getTag() == "receipt" and e.getId() == m["id"] and e.getFrom() == r
                       and e.getType() in (None, "")]
            lo, hi = 1, 1 + m["dups"].get(r, 0)
            if m["from"] in restarted or r in restarted:
                lo = 1
            # every copy that decrypts (or is recognised as a duplicate) is acknowledged with a delivery receipt; a corrupted copy is
            # answered with a retry request instead, and whether its re-sent copy follows depends on what the sender still holds
            if not lo <= len(rec) <= hi or (not restarted and r not in m["corrupted"] and len(rec) != hi):
                out.fail("receipts", "receipts:%s:delivery_receipts_%d_expected_%d" % (key_kind, len(rec), hi),
                         {"message": m["id"], "recipient": r, "dups": m["dups"].get(r, 0)})
                return out
    # ---- oracle: the wire
    all_markers = []
    for m in messages:
        all_markers.extend(spec_markers(m["spec"]))
    for jid, c in clients.items():
        for f in c.sent_frames:
            for mk in all_markers:
                if mk in f:
                    out.fail("wire", "wire:plaintext_marker_in_outgoing_frame", {"account": jid, "marker": mk.decode(), "frame_len": len(f)})
                    return out
    for jid, node in server.log:
        if node.tag == "message":
            bad = [c.tag for c in node.getAllChildren() if c.tag not in ("enc", "participants")]
            pn = node.getChild("participants")
            if pn is not None:
                for t in pn.getAllChildren():
                    bad += [c.tag for c in t.getAllChildren() if c.tag != "enc"]
            if bad:
                out.fail("wire", "wire:outgoing_message_with_non_enc_child", {"account": jid, "children": bad})
                return out
    for m in messages:
        for r in m.get("corrupted_first", ()):
            retries = [n for j, n in server.log if j == r and n.tag == "receipt" and n["type"] == "retry" and n["id"] == m["id"]]
            if not retries:
                if not m["dups"].get(r, 0) or r not in m.get("certainly_undecryptable", ()):
                    # the recipient was shown the message exactly once (checked above) and either the damaged copy is the only one it
                    # ever got, or the damage is outside what the MAC covers: it hit a byte that takes no part in decryption (e.g.
                    # the registration id or a key id of a first message), the copy could be decrypted, nothing had to be asked for
                    out.label("corruption_without_effect_on_decryption")
                    continue
                out.fail("retry", "retry:no_retry_receipt_for_corrupted_message", {"message": m["id"], "recipient": r})
                return out
    out.info = {"nt": nt}
    return out


def legit_retry(messages, m, jid, server):
    """the recipient had a legitimate reason to ask for a retry of m: its first copy was corrupted, or (groups) it arrived
    before an earlier message of the same sender to the same group (or after a corrupted copy of it only), i.e. before the
    sender key it depends on"""
    if jid in m.get("corrupted_first", ()):
        return True
    if m["to"] not in GROUPS:
        return False
    order = server.delivery_order.get(jid, [])
    if m["id"] not in order:
        return False
    first = order.index(m["id"])
    earlier = []
    for m0 in messages:
        if m0 is m:
            break
        if m0["from"] == m["from"] and m0["to"] == m["to"] and jid in m0["recipients"]:
            earlier.append(m0)
    if not earlier:
        # the sender's first message to this group carries the sender key for every member (since fix cbb8bc3 also for the
        # members it already had a session with): nothing but a corrupted copy justifies a retry
        return False
    # ... or the earlier message did arrive first but its copy was corrupted and its re-sent copy had not come yet
    return any(m0["id"] not in order[:first] or (jid in m0.get("corrupted_first", ()) and order[:first].count(m0["id"]) < 2)
               for m0 in earlier)


def find_message(messages, mid):
    for m in messages:
        if m["id"] == mid:
            return m
    return None


def delivered_to(clients, m):
    return set(j for j in m["recipients"] if any(e.getTag() == "message" and e.getId() == m["id"] for e in clients[j].app_got))


CORRUPTION_MOVED = [0]
LAST_CORRUPTION = {"certain": True}


def _identity_field_range(data):
    return _field_range(data, 3)


def _field_range(data, number):
    """byte range [lo, hi) of field `number` of a serialised PreKeyWhisperMessage (version byte + protobuf); identityKey = 3,
    the embedded message = 4"""
    i = 1
    try:
        while i < len(data):
            start = i
            tag = 0
            shift = 0
            while True:
                b = data[i]
                i += 1
                tag |= (b & 0x7F) << shift
                shift += 7
                if not b & 0x80:
                    break
            field, wt = tag >> 3, tag & 7
            if wt == 0:
                while data[i] & 0x80:
                    i += 1
                i += 1
            elif wt == 2:
                n = 0
                shift = 0
                while True:
                    b = data[i]
                    i += 1
                    n |= (b & 0x7F) << shift
                    shift += 7
                    if not b & 0x80:
                        break
                i += n
            else:
                return (0, 0)
            if field == number:
                return (start, i)
    except IndexError:
        pass
    return (0, 0)


def corrupt(node, which, where=None):
    """where: None = the middle byte; an int = that byte position (negative from the end: the MAC; 0 = the version byte, 1.. = the
    framing of the serialised message); ["cut", n] = only the first n bytes arrive"""
    encs = node.getAllChildren("enc")
    target = encs[which % len(encs)]
    children = []
    for c in node.getAllChildren():
        if c is target:
            d = bytearray(c.data)
            mask = 0x5A
            if where is None:
                pos = len(d) // 2
            elif isinstance(where, list) and where[0] == "xor":
                # a chosen bit pattern at a chosen position (the fixed pattern turns every version byte into an unknown *newer* version)
                pos = where[1] % len(d)
                mask = (where[2] % 255) + 1
            elif isinstance(where, list):
                pos = None
                d = d[:max(1, min(len(d) - 1, where[1]))]
            else:
                pos = where % len(d)
            if pos is not None:
                lo, hi = _identity_field_range(bytes(d)) if c["type"] == "pkmsg" else (0, 0)
                if lo <= pos < hi:
                    # the identity key a first message claims for its sender is not ciphertext: a different key there is a changed
                    # identity, which the recipient refuses or pins by design (C17) - the damage is moved into the ciphertext
                    pos = hi + (pos - lo) % max(1, len(d) - hi)
                    CORRUPTION_MOVED[0] += 1
                d[pos] ^= mask
                # certainly undecryptable: everything in a message or sender-key message is covered by its MAC / signature; of a
                # first message only the embedded message is (the key ids and the registration id around it are not, and are not
                # even looked at when the session exists already)
                mlo, mhi = _field_range(bytes(c.data), 4) if c["type"] == "pkmsg" else (0, len(d))
                LAST_CORRUPTION["certain"] = mlo <= pos < mhi
            else:
                LAST_CORRUPTION["certain"] = True
            children.append(N("enc", dict(c.attributes), None, bytes(d)))
        else:
            children.append(c)
    return N(node.tag, dict(node.attributes), children)


def nontrivial(case, out):
    return bool(out.info and out.info.get("nt"))


def shrink_candidates(case):
    ops = case["ops"]
    for i in range(len(ops) - 1, -1, -1):
        yield dict(case, ops=ops[:i] + ops[i + 1:])
    if case["accounts"] > 2:
        yield dict(case, accounts=case["accounts"] - 1)


def script_strategy(tier):
    sel = st.integers(0, 9)
    opts = st.fixed_dictionaries({"a": st.booleans(), "b": st.booleans(), "pad": st.sampled_from([0, 0, 3, 200])})
    send = st.tuples(st.just("send"), sel, st.one_of(sel, sel, st.sampled_from(["g0", "g1"])),
                     st.sampled_from(["text", "text", "text", "link", "image", "location", "contact", "video", "audio", "document", "sticker"]), opts).map(list)
    op = st.one_of(send, send, send,
                   st.tuples(st.just("deliver"), sel).map(list), st.tuples(st.just("deliver"), st.just(0)).map(list),
                   st.tuples(st.just("dup"), sel).map(list), st.tuples(st.just("corrupt"), sel, sel).map(list),
                   st.tuples(st.just("corrupt"), sel, sel, st.one_of(st.sampled_from([0, 1, 2, 3, 5, 9, 34, 40, -1, -8, -9]), st.integers(0, 300),
                                                                   st.tuples(st.just("cut"), st.sampled_from([1, 2, 5, 20, 60])).map(list),
                                                                   st.tuples(st.just("xor"), st.sampled_from([0, 0, 0, 1, 2, 40, -1]), st.integers(0, 254)).map(list),
                                                                   st.tuples(st.just("xor"), st.just(0), st.sampled_from([0x0f, 0x1f, 0x2f, 0x30 - 1, 0x3f, 0x10 - 1, 0x20 - 1])).map(list))).map(list),
                   st.tuples(st.just("restart"), sel).map(list), st.tuples(st.just("loop"), sel).map(list),
                   st.just(["settle"]), st.just(["advance"]), st.just(["advance"]), st.just(["advance"]))

    @st.composite
    def build(draw):
        n = draw(st.integers(2, 4))
        return {"sub": "conversation", "accounts": n, "seed": draw(st.integers(0, 2 ** 31 - 1)),
                "draws": draw(st.sampled_from([None, None, None, "lowest", "highest"])),
                "registered": draw(st.lists(st.sampled_from([True, True, True, False]), min_size=n, max_size=n)),
                "groups": [draw(st.lists(st.integers(0, n - 1), min_size=2, max_size=n, unique=True)),
                           draw(st.lists(st.integers(0, n - 1), min_size=2, max_size=n, unique=True))],
                "ops": draw(st.lists(op, min_size=2, max_size=14))}
    return build()


def _enum_basic():
    o = {"a": True, "b": True, "pad": 0}
    for draws in ("lowest", "highest"):
        yield {"sub": "conversation", "accounts": 3, "registered": [True, True, True], "groups": [[0, 1, 2], [0, 1, 2]], "draws": draws,
               "ops": [["send", 0, 1, "text", o], ["send", 1, 0, "text", o], ["send", 0, 1, "link", o], ["send", 2, "g0", "text", o],
                       ["send", 2, "g0", "location", o], ["send", 1, "g0", "text", o]]}
    yield {"sub": "conversation", "accounts": 2, "registered": [True, True], "groups": [[0, 1], [0, 1]],
           "ops": [["send", 0, 0, "text", o], ["send", 1, 0, "text", o], ["send", 0, 0, "image", o], ["send", 0, 0, "location", o],
                   ["send", 1, 0, "contact", o], ["send", 1, 0, "link", o]]}
    yield {"sub": "conversation", "accounts": 3, "registered": [True, True, True], "groups": [[0, 1, 2], [0, 1, 2]],
           "ops": [["send", 0, 1, "video", o], ["send", 1, 0, "audio", o], ["send", 0, 1, "document", o], ["send", 1, 0, "sticker", o],
                   ["send", 2, "g0", "video", o], ["send", 2, "g0", "audio", o], ["send", 1, "g1", "document", o], ["send", 0, "g1", "sticker", o]]}
    # the server delivers a later group message (bare sender-key ciphertext) twice to a member
    for kind in ("text", "location"):
        yield {"sub": "conversation", "accounts": 3, "registered": [True, True, True], "groups": [[0, 1, 2], [0, 1, 2]],
               "ops": [["send", 0, "g0", "text", o], ["settle"], ["send", 0, "g0", kind, o], ["advance"], ["dup", 0], ["settle"],
                       ["send", 1, "g0", kind, o], ["settle"], ["send", 1, "g0", "text", o], ["advance"], ["dup", 1], ["settle"]]}
    # one member's receipt reaches the sender before another member's retry request (its copy was corrupted)
    for kind in ("text", "image"):
        yield {"sub": "conversation", "accounts": 3, "registered": [True, True, True], "groups": [[0, 1, 2], [0, 1, 2]],
               "ops": [["send", 0, "g0", "text", o], ["settle"], ["send", 0, "g0", kind, o], ["advance"], ["deliver", 2], ["deliver", 3], ["deliver", 2],
                       ["corrupt", 0, 0], ["settle"], ["send", 1, "g0", kind, o], ["advance"], ["deliver", 1], ["deliver", 3], ["deliver", 2], ["corrupt", 0, 1]]}
    # the version byte of a later message (msg / skmsg) damaged into every other version nibble
    for mask in (0x0f, 0x1f, 0x2f, 0x3f, 0x7f, 0xef):
        yield {"sub": "conversation", "accounts": 2, "registered": [True, True], "groups": [[0, 1], [0, 1]],
               "ops": [["send", 0, 0, "text", o], ["settle"], ["send", 1, 0, "text", o], ["settle"], ["send", 0, 0, "text", o], ["advance"],
                       ["corrupt", 0, 0, ["xor", 0, mask]], ["settle"], ["send", 0, "g0", "text", o], ["settle"], ["send", 0, "g0", "text", o], ["advance"],
                       ["corrupt", 0, 0, ["xor", 0, mask]], ["settle"]]}
    # more messages than the sender keeps for retries (100), every one of them delivered and receipted; then a damaged one
    for target in ("g0", 0):
        yield {"sub": "conversation", "accounts": 2, "registered": [True, True], "groups": [[0, 1], [0, 1]],
               "ops": [["burst", 0, target, 103], ["send", 0, target, "text", o], ["advance"], ["corrupt", 0, 0], ["settle"],
                       ["send", 0, target, "text", o], ["advance"], ["corrupt", 0, 0], ["settle"]]}
    yield {"sub": "conversation", "accounts": 3, "registered": [True, False, True], "groups": [[0, 1, 2], [1, 2]],
           "ops": [["send", 0, "g0", "text", o], ["send", 1, "g0", "text", o], ["send", 2, "g1", "location", o], ["send", 0, "g0", "text", o]]}
    yield {"sub": "conversation", "accounts": 2, "registered": [True, True], "groups": [[0, 1], [0, 1]],
           "ops": [["send", 0, 0, "text", o], ["dup", 1], ["send", 0, 0, "text", o], ["corrupt", 1, 0], ["send", 1, 0, "text", o]]}
    yield {"sub": "conversation", "accounts": 3, "registered": [True, True, True], "groups": [[0, 1, 2], [0, 2]],
           "ops": [["send", 0, 1, "text", o], ["settle"], ["restart", 1], ["send", 1, 0, "text", o], ["settle"], ["send", 0, "g0", "text", o],
                   ["settle"], ["restart", 0], ["send", 0, "g0", "text", o], ["settle"], ["restart", 1], ["send", 1, "g0", "image", o],
                   ["settle"], ["restart", 1], ["send", 1, "g0", "text", o], ["send", 2, "g1", "text", o], ["settle"], ["restart", 2],
                   ["send", 2, "g1", "location", o]]}


def plan(tier):
    quick = tier == "quick"
    return {
        "shards": 16,
        "enumerations": [("basic_conversations", _enum_basic)],
        "strategies": [("conversations", script_strategy(tier), 60 if quick else 700)],
        "shrink": "ddmin",
        "budget_s": 200 if quick else 2400,
        "hard_limit_s": 600 if quick else 3600,
    }

RULE += (' Corruption also as a chosen bit pattern at a chosen position (xor), incl. version-byte patterns; a zero-valued location (equator / prime meridian / heading 0); `burst`: more than 100 acknowledged messages of one sender before a damaged one; presence of explicitly set zero / empty values is compared strictly.')
RULE += (" In two fifths of the conversations the library's random draws for message padding return the lowest / the highest value of the range asked for (draws).")
