"""C12, sub-case key_fetch_fault: executed as a process of its own (python -m vlib.props.c12_e2e '<case json>'), prints one line
"OUTCOME <json>".  See c12.run_key_fetch_fault."""
import sys
import json

from .. import compat  # noqa: F401
from ..core import Outcome


def run(case):
    """the failing operation is a request the encryption layer makes on the application's behalf: a message arrives from a sender
    the account has no session with (the account was reinstalled, the sender still uses its old session), the key request this
    triggers fails (server error, no answer, or no answer and the connection drops) - the sender's later messages are processed
    normally all the same.  Full client stacks (default layers incl. the encryption layers) against the server double."""
    from . import c17
    from ..kit import accounts as A
    from yowsup.layers.protocol_messages.protocolentities import TextMessageProtocolEntity
    out = Outcome()
    w = c17.World17({"accounts": 2, "autotrust": [True, True]})
    try:
        P, X = w.jids[0], w.jids[1]
        out.label("key_fetch_fault", "policy=" + "+".join(case["policies"]), "reconnect" if case.get("reconnect") else "same_connection")

        def send(s, r, body):
            e = TextMessageProtocolEntity(body, to=r)
            if not w.clients[s].connected():
                w.clients[s].connect()
                A.settle(w.server, w.clients)
            err = w.clients[s].send(e)
            if err is not None:
                raise RuntimeError("send raised %r" % (err,))
            if not A.settle(w.server, w.clients):
                out.fail("hang", "key_fetch_fault:queues_do_not_drain", {})
            return e

        def got(r, e):
            return len([m for m in w.clients[r].app_got if m.getTag() == "message" and m.getId() == e.getId()])
        first = [send(P, X, "a"), send(X, P, "b"), send(P, X, "c")]
        if [got(X, first[0]), got(P, first[1]), got(X, first[2])] != [1, 1, 1]:
            raise RuntimeError("setup conversation not delivered")
        w.reinstall(X)
        w.server.key_fetch_policy = list(case["policies"])
        failing = []
        for i in range(len(case["policies"])):
            failing.append(send(P, X, "failing-%d" % i))
            if out.violations:
                return out
        if case.get("reconnect"):
            w.clients[X].post("peerclose")
            w.clients[X].pump()
            w.clients[X].connect()
            A.settle(w.server, w.clients)
        later = []
        for i in range(case.get("later", 1)):
            later.append(send(P, X, "later-%d" % i))
            if out.violations:
                return out
        for jid in (P, X):
            if w.clients[jid].errors:
                out.fail("stuck", "key_fetch_fault:client_error:%s" % w.clients[jid].errors[0][0], {"jid": jid, "error": [str(x)[:200] for x in w.clients[jid].errors[0][:2]]})
                return out
        for i, e in enumerate(later):
            n = got(X, e)
            if n != 1:
                out.fail("stuck", "key_fetch_fault:later_message_%s" % ("never_delivered" if n == 0 else "delivered_%d_times" % n),
                         {"index": i, "policies": case["policies"], "failing_delivered": [got(X, f) for f in failing]})
                return out
        for e in failing:
            if got(X, e) > 1:
                out.fail("stuck", "key_fetch_fault:message_delivered_%d_times" % got(X, e), {})
                return out
        back = send(X, P, "reply")
        if got(P, back) != 1:
            out.fail("stuck", "key_fetch_fault:reply_not_delivered", {"n": got(P, back)})
        out.info = {"nt": True}
        return out
    finally:
        w.close()



if __name__ == "__main__":
    o = run(json.loads(sys.argv[1]))
    sys.stdout.write("\nOUTCOME " + json.dumps({"labels": o.labels, "violations": [v.to_json() for v in o.violations], "info": o.info}) + "\n")
    sys.stdout.flush()
    from ..kit import env as envkit
    envkit.cleanup()
    import os
    os._exit(0)
