"""C11 - concurrent senders never corrupt the encrypted stream.

2-4 sender tasks (optionally the real keep-alive thread, optionally started while the handshake worker is still running)
send through the real coder/noise/segments/network layers under the deterministic scheduler; the Noise responder double
parses the byte stream strictly (prologue, then whole len3||payload segments) and decrypts strictly in arrival order.
"""
from .. import compat  # noqa: F401
from ..core import Outcome
from ..kit import transport as TR
from ..kit import sched as S
from ..ref import codec as R
from hypothesis import strategies as st

from yowsup.layers import YowParallelLayer, YowLayer, YowLayerEvent
from yowsup.layers.interface import YowInterfaceLayer
from yowsup.stacks import YowStackBuilder
from yowsup.structs import ProtocolTreeNode
from yowsup.layers.protocol_iq import YowIqProtocolLayer

ID = "C11"
LEVEL = "exploration"
RULE = ("generated: 2-4 sender tasks x 1-4 stanzas each (sizes 1 B - 3 KiB; iq / receipt / presence / text message), variant = "
        "transport stack with one application layer on top (its lock serialises the application's threads; the handshake and "
        "keep-alive threads still enter further down), the bare transport stack network/segments/noise/coder entered through "
        "stack.send() by all threads side by side, or transport + protocol layers + interface-layer application; optionally the real keep-alive thread "
        "firing on a virtual clock tick, optionally senders started while the handshake is still in progress (round 0/1), and a "
        "schedule of up to 400 choice integers resolved at lock/queue operations and function calls of the anchored files (thorough: "
        "also at every line of the layer base class, noise layer and segments layer). First sends: one preemption at every line/call of the first two sends through a freshly logged-in stack (complete), and free line-level schedules or 2-3 preemptions for the first sends of 2-3 threads. Non-trivial = the executed schedule switched "
        "tasks at least once at a yield point inside a traced function call while two or more senders were alive. "
        "Distinct = distinct canonical JSON.")
ASSUMPTIONS = [
    "interleavings are explored at lock/queue operations and function calls (thorough: lines) of the anchored files under the GIL; "
    "a race needing a switch inside one bytecode-level expression elsewhere is not reachable",
    "a send that raises because the session is not ready yet counts as not sent",
]


class App(YowInterfaceLayer):
    def __init__(self):
        super(App, self).__init__()
        self.got = []

    def receive(self, e):
        self.got.append(e)


def upper_layers(variant):
    if variant == "core":
        return (TR.Top,)
    return (YowParallelLayer(YowStackBuilder.getProtocolLayers()), App)


def make_stanza(variant, kind, ident, size):
    pad = ("x" * size)
    if kind == "bad":
        # a stanza the codec refuses (an attribute without a value): its sender is told so; it is no business of the other senders
        if variant in ("core", "bare"):
            return ProtocolTreeNode("receipt", {"id": ident, "to": None})
        from yowsup.layers.protocol_receipts.protocolentities import OutgoingReceiptProtocolEntity as _R
        return _R(ident, None)
    if variant in ("core", "bare"):
        if kind == "iq":
            return ProtocolTreeNode("iq", {"id": ident, "type": "get", "xmlns": "w:p", "pad": pad})
        if kind == "presence":
            return ProtocolTreeNode("presence", {"id": ident, "name": pad})
        if kind == "message":
            return ProtocolTreeNode("message", {"id": ident, "to": "4911@s.whatsapp.net", "type": "text"},
                                    [ProtocolTreeNode("proto", {}, None, pad.encode())])
        return ProtocolTreeNode("receipt", {"id": ident, "to": "4911111@s.whatsapp.net"})
    from yowsup.layers.protocol_receipts.protocolentities import OutgoingReceiptProtocolEntity
    from yowsup.layers.protocol_messages.protocolentities import TextMessageProtocolEntity
    from yowsup.layers.protocol_iq.protocolentities import PingIqProtocolEntity
    from yowsup.layers.protocol_acks.protocolentities import OutgoingAckProtocolEntity
    if kind == "message":
        from yowsup.layers.protocol_messages.protocolentities.attributes.attributes_message_meta import MessageMetaAttributes
        return TextMessageProtocolEntity(pad, MessageMetaAttributes(id=ident, recipient="4911111@s.whatsapp.net"))
    if kind == "iq":
        return PingIqProtocolEntity(_id=ident)
    if kind == "presence":
        return OutgoingAckProtocolEntity(ident, "receipt", None, "4911111@s.whatsapp.net")
    return OutgoingReceiptProtocolEntity(ident, "4911111@s.whatsapp.net")


class _FakeSocket(object):
    """a socket that takes what its send buffer has room for: each send() accepts at most the next capacity of the case's list
    (0 = would block); sendall() - like the real one - comes back only when everything is taken"""

    def __init__(self, caps):
        self.caps = list(caps) or [1 << 30]
        self.i = 0
        self.wire = bytearray()

    def _cap(self):
        c = self.caps[self.i % len(self.caps)]
        self.i += 1
        return c

    def send(self, data):
        n = min(len(data), self._cap())
        self.wire += bytes(data[:n])
        return n

    def sendall(self, data):
        data = bytes(data)
        self.n_sendall = getattr(self, "n_sendall", 0) + 1
        if getattr(self, "interrupt_at", None) == self.n_sendall:
            # the call is interrupted (a signal, an error reported by the kernel) after part of the data has been taken
            self.wire += data[:max(1, len(data) // 2)]
            self.interrupted = True
            import errno
            raise OSError(getattr(self, "interrupt_errno", errno.EINTR), "interrupted")
        if getattr(self, "closed", False):
            raise OSError(9, "Bad file descriptor")
        while data:
            n = self.send(data)
            data = data[n:]

    def close(self):
        self.closed = True

    def shutdown(self, how):
        pass

    def fileno(self):
        return -1


from yowsup.layers.network.dispatcher.dispatcher import ConnectionCallbacks as _ConnectionCallbacks


class _Callbacks(_ConnectionCallbacks):
    def __init__(self):
        self.events = []

    def onConnected(self):
        self.events.append("connected")

    def onDisconnected(self):
        self.events.append("disconnected")

    def onConnecting(self):
        pass

    def onConnectionError(self, e):
        self.events.append("error")

    def onRecvData(self, data):
        pass


def _dispatcher_writes(case, out):
    """the two dispatcher classes of the network layer over a socket double: whatever the socket accepts per call (short writes,
    would-block), the bytes that reach it are exactly the frames handed to sendData, complete and in order.  One thread; the
    event loop's write rounds of the asynchronous dispatcher are operations of the script."""
    from yowsup.layers.network.dispatcher.dispatcher_socket import SocketConnectionDispatcher
    from yowsup.layers.network.dispatcher.dispatcher_asyncore import AsyncoreConnectionDispatcher
    which = case["dispatcher"]
    cb = _Callbacks()
    sock = _FakeSocket(case["caps"])
    if which == "socket":
        # (a blocking socket waits for room instead of reporting "would block")
        sock.caps = [c or 1 for c in sock.caps]
        d = SocketConnectionDispatcher(cb)
        d.socket = sock
        if case.get("interrupt"):
            import errno
            sock.interrupt_at = case["interrupt"][0]
            sock.interrupt_errno = [errno.EINTR, errno.EPIPE, errno.ENOBUFS][case["interrupt"][1] % 3]
            out.label("a_write_is_interrupted_half_way")
    else:
        d = AsyncoreConnectionDispatcher(cb)
        d.socket = sock
        d.connected = True
        d._connected = True
    out.label("dispatcher=" + which)
    expected = bytearray()
    short = False
    for k, op in enumerate(case["ops"]):
        if op[0] == "send":
            frame = bytes([k & 0xFF]) * 3 + bytes(((k * 7 + i) & 0xFF) for i in range(op[1]))
            before = len(sock.wire)
            try:
                d.sendData(frame)
            except Exception as e:
                out.fail("dispatcher", "dispatcher:%s:sendData_raises:%s" % (which, type(e).__name__), {"error": repr(e)[:200]})
                return out
            expected += frame
            if len(sock.wire) - before < len(frame):
                short = True
        elif op[0] == "loop" and which == "asyncore":
            # the event loop finds the socket writable while output is pending
            if d.writable() and d.out_buffer:
                d.handle_write()
    if which == "asyncore":
        sock.caps = [1 << 30]
        for _ in range(64):
            if not d.out_buffer:
                break
            d.handle_write()
    out.label("short_write" if short else "whole_writes")
    out.info = {"nt": short}
    if getattr(sock, "interrupted", False):
        # whatever the dispatcher makes of the failed write (it gives the connection up), nothing that was taken is written twice:
        # the socket holds a prefix of what was handed over
        out.info = {"nt": True}
        if bytes(expected[:len(sock.wire)]) != bytes(sock.wire):
            out.fail("dispatcher", "dispatcher:%s:bytes_written_again_after_an_interrupted_write" % which,
                     {"handed_over": len(expected), "on_the_socket": len(sock.wire), "caps": case["caps"][:8]})
        return out
    if bytes(sock.wire) != bytes(expected):
        n = 0
        while n < min(len(sock.wire), len(expected)) and sock.wire[n] == expected[n]:
            n += 1
        what = "truncated" if len(sock.wire) < len(expected) and bytes(expected[:len(sock.wire)]) == bytes(sock.wire) else \
            "duplicated_or_reordered" if len(sock.wire) >= len(expected) else "bytes_missing_inside"
        out.fail("dispatcher", "dispatcher:%s:bytes_on_the_socket_%s" % (which, what),
                 {"handed_over": len(expected), "on_the_socket": len(sock.wire), "first_difference_at": n, "caps": case["caps"][:8]})
    return out


class _PlainTop(YowLayer):
    def receive(self, data):
        pass

    def send(self, data):
        self.toLower(data)

    def onEvent(self, ev):
        return False


def _reconnect_writes(case, out):
    """the network layer over the library's own asynchronous dispatcher class (socket double with short writes, event-loop
    rounds driven by the script) across reconnects: on every connection's socket the bytes are those of the frames sent while
    that connection was up, from the first byte of the first one - whole frames in order, a connection lost with output pending
    simply ends early, and nothing of an earlier connection's output turns up on a later socket"""
    import yowsup.layers.network.layer as netmod
    from yowsup.layers.network.layer import YowNetworkLayer
    from ..kit import netkit, stackkit
    Driven, DA = netkit.driven_asyncore_class()
    Driven.made = []
    Driven.caps = case["caps"]
    saved = (netmod.AsyncoreConnectionDispatcher, netmod.SocketConnectionDispatcher)
    netmod.AsyncoreConnectionDispatcher = netmod.SocketConnectionDispatcher = Driven
    DA.asyncore = netkit.AsyncoreShim(DA.asyncore)
    try:
        stack = stackkit.new_stack_class()((YowNetworkLayer, _PlainTop), reversed=False, props={YowNetworkLayer.PROP_ENDPOINT: ("e1.whatsapp.net", 443)})
        top = stack.getLayer(1)
        out.label("reconnect_writes")

        def connect():
            stack.broadcastEvent(YowLayerEvent(YowNetworkLayer.EVENT_STATE_CONNECT))
            pending = [d for d in Driven.made if d.state == "pending"]
            if len(pending) != 1:
                return False
            pending[0].h_establish()
            expected.append(bytearray())
            socks.append(pending[0]._sock)
            return True
        expected, socks = [], []
        if not connect():
            out.fail("dispatcher", "reconnect:no_connection_opened", {})
            return out
        pending_at_loss = False
        for k, op in enumerate(case["ops"]):
            cur = [d for d in Driven.made if d.state == "up"]
            if op[0] == "send" and cur:
                frame = bytes([k & 0xFF]) * 3 + bytes(((k * 7 + i) & 0xFF) for i in range(op[1]))
                top.send(frame)
                expected[-1] += frame
            elif op[0] == "loop" and cur:
                d = cur[0]
                if d.writable() and d.out_buffer:
                    d.handle_write()
            elif op[0] == "reconnect" and cur:
                if cur[0].out_buffer:
                    pending_at_loss = True
                if op[1] == "peer":
                    cur[0].h_peer_close()
                else:
                    stack.broadcastEvent(YowLayerEvent(YowNetworkLayer.EVENT_STATE_DISCONNECT, reason="requested"))
                stackkit.drain_detached(stack)
                if not connect():
                    out.fail("dispatcher", "reconnect:no_connection_opened", {"step": k, "history": case["ops"][:k + 1]})
                    return out
        for d in [d for d in Driven.made if d.state == "up"]:
            d._sock.caps = None
            for _ in range(64):
                if not d.out_buffer:
                    break
                d.handle_write()
        if pending_at_loss:
            out.label("connection_lost_with_output_pending")
        out.info = {"nt": pending_at_loss}
        for i, (sock, exp) in enumerate(zip(socks, expected)):
            last = i == len(socks) - 1
            wire = bytes(sock.wire)
            ok = wire == bytes(exp) if last else bytes(exp[:len(wire)]) == wire
            if not ok:
                n = 0
                while n < min(len(wire), len(exp)) and wire[n] == exp[n]:
                    n += 1
                out.fail("dispatcher", "reconnect:bytes_on_connection_%s_are_not_its_frames" % ("after_a_reconnect" if i else "one"),
                         {"connection": i + 1, "sent_while_up": len(exp), "on_the_socket": len(wire), "first_difference_at": n, "caps": case["caps"][:8],
                          "history": case["ops"]})
                return out
        return out
    finally:
        netmod.AsyncoreConnectionDispatcher, netmod.SocketConnectionDispatcher = saved
        DA.asyncore = DA.asyncore._real


def _dispatcher_race(case, out):
    """the asynchronous dispatcher between two threads, as in a running client: the sender (one at a time - the layers above
    serialise them) inside sendData, and the event loop's thread writing pending output whenever the socket is writable.
    Deterministic scheduler, preemption at every line of the dispatcher and of asyncore's send path."""
    import yowsup.layers.network.dispatcher.dispatcher_asyncore as DA
    from yowsup.layers.network.dispatcher.dispatcher_asyncore import AsyncoreConnectionDispatcher
    if hasattr(DA, "threading"):
        DA.threading = S.ThreadingShim()      # whatever locks the dispatcher uses become scheduler-aware
    sk = S.Scheduler(case.get("choices", []), ("asyncore/__init__.py", "dispatcher_asyncore.py"), trace_lines=True,
                     preempt=case.get("preempt"), max_steps=200000)
    S.SCHED = sk
    try:
        cb = _Callbacks()
        sock = _FakeSocket(case["caps"])
        d = AsyncoreConnectionDispatcher(cb)
        d.socket = sock
        d.connected = True
        d._connected = True
        frames = [bytes([k & 0xFF]) * 3 + bytes(((k * 7 + i) & 0xFF) for i in range(n)) for k, n in enumerate(case["sizes"])]
        done = []

        def sender():
            for f in frames:
                d.sendData(f)
            done.append(1)

        def loop():
            # the loop keeps polling for as long as the connection lives
            for _ in range(case.get("rounds", 40)):
                if d.out_buffer:
                    d.handle_write()
                else:
                    sk.yield_point(("idle",))
        sk.spawn("sender", sender)
        sk.spawn("loop", loop)
        state = sk.run()
        if state != "done" or sk.overrun:
            out.fail("dispatcher", "dispatcher:race:does_not_finish", {"state": state})
            return out
        for t in sk.tasks:
            if t.exc is not None:
                out.fail("dispatcher", "dispatcher:race:%s_raises:%s" % (t.name, type(t.exc).__name__), {"error": repr(t.exc)[:200]})
                return out
        sock.caps = [1 << 30]
        for _ in range(64):
            if not d.out_buffer:
                break
            d.handle_write()
        expected = b"".join(frames)
        out.label("dispatcher_race", "switches>2" if sk.switches > 2 else "switches<=2")
        out.info = {"nt": sk.switches > 2}
        held = [repr(l) for l in S.held_locks()]
        if held:
            out.fail("dispatcher", "dispatcher:race:lock_still_held", {"locks": held[:3]})
            return out
        if bytes(sock.wire) != expected:
            what = "lost" if len(sock.wire) < len(expected) else "duplicated" if len(sock.wire) > len(expected) else "reordered"
            out.fail("dispatcher", "dispatcher:race:bytes_%s" % what, {"handed_over": len(expected), "on_the_socket": len(sock.wire)})
        return out
    finally:
        sk.kill()
        S.SCHED = None
        S.ALL_LOCKS[:] = []


def run_case(case):
    if case.get("sub") == "dispatcher_race":
        return _dispatcher_race(case, Outcome())
    if case.get("sub") == "dispatcher_writes":
        return _dispatcher_writes(case, Outcome())
    if case.get("sub") == "reconnect_writes":
        return _reconnect_writes(case, Outcome())
    out = Outcome()
    variant = case["variant"]
    ping = bool(case.get("ping")) and variant == "proto"
    props = {YowIqProtocolLayer.PROP_PING_INTERVAL: 1 if ping else 0}
    if variant == "bare":
        # network, segments, noise, coder and nothing above: the application threads call stack.send(), i.e. they enter the
        # topmost layer's send() side by side (no layer above it whose lock would serialise them)
        rig = TR.Rig(choices=case.get("choices", ()), upper=(), core_layers=YowStackBuilder.getCoreLayers()[:4], props=props,
                     trace_lines=bool(case.get("trace_lines")), preempt=case.get("preempt"))
    else:
        rig = TR.Rig(choices=case.get("choices", ()), upper=upper_layers(variant), props=props,
                     trace_lines=bool(case.get("trace_lines")), preempt=case.get("preempt"))
    try:
        return _run(case, out, rig, variant, ping)
    finally:
        rig.close()


def _run(case, out, rig, variant, ping):
    results = {}
    sent_order = {}
    start_round = case.get("start_round", 2)
    out.label("variant=" + variant, "start_round=%d" % start_round, "tasks=%d" % len(case["tasks"]))
    if ping:
        out.label("ping_thread")

    def make_sender(ti, prog):
        def f():
            for k, (kind, size) in enumerate(prog):
                ident = "s%d-%d" % (ti, k)
                stanza = make_stanza(variant, kind, ident, size)     # harness errors must not look like refused sends
                try:
                    if variant == "bare":
                        rig.stack.send(stanza)
                    else:
                        rig.top.toLower(stanza)
                    results[ident] = "ok"
                    sent_order.setdefault(ti, []).append(ident)
                except S._Stop:
                    raise
                except Exception as e:
                    results[ident] = "raised:" + type(e).__name__
        return f

    def spawn_senders():
        for ti, prog in enumerate(case["tasks"]):
            rig.sched.spawn("sender%d" % ti, make_sender(ti, prog))

    problems = []
    if case.get("earlier_connection"):
        # the stack has been through a connection before (logged in, then the peer closed it): the senders of this case run into
        # the reconnect.  What reaches the new socket is the new connection's stream from its first byte on
        probs = rig.login()
        if probs or rig.server.state != "transport":
            out.fail("stream", "stream:earlier_login_incomplete", {"problems": [str(p)[:200] for p in probs], "state": rig.server.state})
            return out
        if variant == "proto":
            rig.server.send_frame(R.encode(("success", {"creation": "1", "props": "2", "t": "3", "location": "x"}, None)))
            probs = rig.shuttle()
        if rig.current is not None and rig.current.up:
            rig.current.inbox.put(("close",))
        rig.run()
        # the main thread delivers the deferred 'disconnected' announcement before anything else happens (a send that races with
        # the loss of its connection is lost with it: that is not what this case is about)
        for _ in range(4):
            if rig.detached_pending() == 0:
                break
            rig.post("loop")
            rig.run()
        rig.take_client_bytes()
        rig.server.reset()       # (the server's side of the new connection starts from scratch, as a real one does)
        out.label("after_an_earlier_connection")
    rig.post("connect")
    if variant == "bare":
        from yowsup.layers import YowLayerEvent
        from yowsup.layers.auth.layer_authentication import YowAuthenticationProtocolLayer
        rig.run()
        rig.sched.spawn("auth", lambda: rig.stack.broadcastEvent(YowLayerEvent(YowAuthenticationProtocolLayer.EVENT_AUTH, passive=False)))
    if start_round == 0:
        spawn_senders()
    rig.run()
    # round 1: client hello -> server, server hello -> client (senders may start together with its delivery)
    b = rig.take_client_bytes()
    try:
        rig.server.feed(b)
    except TR.ProtocolViolation as e:
        problems.append(e)
    o = rig.server.take_out()
    if o:
        rig.deliver(o)
    if start_round == 1:
        spawn_senders()
    if not problems:
        problems += rig.shuttle()
    if variant == "proto" and not problems and rig.server.state != "transport":
        out.fail("stream", "stream:login_incomplete", {"state": rig.server.state, "stuck": rig.stuck_tasks()})
        return out
    if variant == "proto" and not problems:
        rig.server.send_frame(R.encode(("success", {"creation": "1", "props": "2", "t": "3", "location": "x"}, None)))
        problems += rig.shuttle()
    if ping:
        rig.sched.advance(1.0)      # the keep-alive thread's tick becomes due together with the senders
    if start_round >= 2:
        if case.get("stall") is not None:
            # one of the writes of the senders' traffic blocks for 20 s (the peer is slow to read): whoever else wants to send waits
            # for that long - the stream stays a sequence of whole frames in counter order
            rig.stall_write_in = case["stall"]
            out.label("a_write_blocks_for_a_long_time")
        spawn_senders()
    if not problems:
        problems += rig.shuttle()
    if case.get("stall") is not None and start_round >= 2:
        for _ in range(5):
            rig.sched.advance(6.0)
            if not problems:
                problems += rig.shuttle()
        rig.stall_write_in = None
    if problems:
        out.fail("stream", "stream:peer_rejects_byte_stream", {"problem": str(problems[0])[:300], "results": results})
        return out
    if rig.server.state != "transport":
        out.fail("stream", "stream:login_incomplete", {"state": rig.server.state, "stuck": rig.stuck_tasks()})
        return out
    stuck = rig.stuck_tasks()
    if stuck:
        out.fail("deadlock", "deadlock:task_blocked_forever", {"blocked": stuck, "results": results})
        return out
    if rig.sched.overrun:
        out.fail("deadlock", "no_progress_step_limit", {})
        return out
    errs = [(n, repr(e)[:200]) for n, e in rig.task_errors()]
    if errs:
        out.fail("deadlock", "task_died", {"errors": errs})
        return out
    if rig.server.buf:
        out.fail("stream", "stream:partial_segment_left", {"bytes": len(rig.server.buf)})
        return out
    # every stanza whose send returned normally is transmitted exactly once, per-task order preserved
    got = []
    pings = 0
    for f in rig.server.frames:
        try:
            t = R.decode(f)
        except R.FormatError as e:
            out.fail("stream", "stream:frame_not_a_stanza", {"error": str(e)})
            return out
        ident = t[1].get("id")
        if ident is not None and ident.startswith("s") and "-" in ident:
            got.append(ident)
        elif t[0] == "iq":
            pings += 1
    bad_ids = set("s%d-%d" % (ti, k) for ti, prog in enumerate(case["tasks"]) for k, (kind, size) in enumerate(prog) if kind == "bad")
    if bad_ids:
        out.label("a_sender_hands_down_an_unencodable_stanza")
        wrongly = sorted(i for i in bad_ids if results.get(i) == "ok")
        if wrongly:
            out.fail("delivery", "delivery:unencodable_stanza_reported_as_sent", {"ids": wrongly})
            return out
        struck = sorted(i for i, r in results.items() if i not in bad_ids and r in ("raised:RuntimeError", "raised:AttributeError"))
        if struck:
            # (a send that comes too early is refused with the session's own error; these are the errors of somebody else's stanza)
            out.fail("delivery", "delivery:good_stanza_fails_with_the_error_of_another_senders_stanza", {"results": results})
            return out
    expected = sorted(i for i, r in results.items() if r == "ok")
    if sorted(got) != expected:
        out.fail("delivery", "delivery:transmitted_set_differs", {"at_server": sorted(got), "sent_ok": expected, "results": results})
        return out
    for ti, ids in sent_order.items():
        seen = [g for g in got if g.startswith("s%d-" % ti)]
        if seen != ids:
            out.fail("delivery", "delivery:per_task_order", {"task": ti, "at_server": seen, "program": ids})
            return out
    if ping and pings > 1:
        out.fail("delivery", "delivery:ping_transmitted_twice", {"pings": pings})
        return out
    if ping:
        out.label("ping_sent" if pings else "ping_not_sent")
    if any(r != "ok" for r in results.values()):
        out.label("some_sends_not_ready")
    held = [repr(l) for l in S.held_locks()]
    if held:
        out.fail("deadlock", "lock_still_held", {"locks": held[:4]})
        return out
    out.info = {"nt": rig.sched.in_call_switches > 0 and len(case["tasks"]) >= 2, "steps": rig.sched.steps}
    out.label("switch_in_call" if rig.sched.in_call_switches else "no_switch_in_call")
    return out


def nontrivial(case, out):
    return bool(out.info and out.info.get("nt"))


def shrink_candidates(case):
    if case.get("sub") == "dispatcher_race":
        for i in range(len(case["sizes"])):
            if len(case["sizes"]) > 1:
                yield dict(case, sizes=case["sizes"][:i] + case["sizes"][i + 1:])
        return
    if case.get("sub") in ("dispatcher_writes", "reconnect_writes"):
        for i in range(len(case["ops"])):
            yield dict(case, ops=case["ops"][:i] + case["ops"][i + 1:])
        return
    ch = case.get("choices", [])
    if ch:
        yield dict(case, choices=ch[:len(ch) // 2])
        yield dict(case, choices=ch[:-1])
    if len(case["tasks"]) > 2:
        for i in range(len(case["tasks"])):
            yield dict(case, tasks=case["tasks"][:i] + case["tasks"][i + 1:])
    for i, t in enumerate(case["tasks"]):
        if len(t) > 1:
            yield dict(case, tasks=case["tasks"][:i] + [t[:-1]] + case["tasks"][i + 1:])


def case_strategy(tier):
    op = st.tuples(st.sampled_from(["iq", "receipt", "presence", "message"] * 3 + ["bad"]),
                   st.sampled_from([1, 1, 10, 200, 256, 300, 3000])).map(list)
    prog = st.lists(op, min_size=1, max_size=4)

    @st.composite
    def build(draw):
        n = draw(st.sampled_from([0, 0, 20, 120, 400]))
        case = {
            "sub": "senders",
            "variant": draw(st.sampled_from(["core", "bare", "bare", "proto"])),
            "tasks": draw(st.lists(prog, min_size=2, max_size=4)),
            "ping": draw(st.booleans()),
            "start_round": draw(st.sampled_from([0, 1, 2, 2, 2])),
            "choices": draw(st.lists(st.integers(0, 7), min_size=n, max_size=n)),
        }
        if tier != "quick":
            case["trace_lines"] = draw(st.booleans())
        if case["start_round"] >= 2 and draw(st.integers(0, 3)) == 0:
            case["stall"] = draw(st.integers(0, 7))
            case["ping"] = False     # (half a minute of silence would make the keep-alive give the connection up - rightly)
        if case["variant"] != "bare" and draw(st.integers(0, 3)) == 0:
            case["earlier_connection"] = True
            case["start_round"] = draw(st.sampled_from([0, 0, 1, 2]))
        if n == 0:
            # context-bounded schedule: the running task continues except at up to four preemption points
            case["preempt"] = draw(st.lists(st.tuples(st.integers(0, 700), st.integers(0, 4)).map(list), min_size=1, max_size=4))
        return case
    return build()


def _enum_bad_stanza_sweep():
    """one sender's stanza is refused by the codec while two others are sending: every single preemption point"""
    for variant in ("core", "bare"):
        for step in range(0, 500, 3):
            for to in (1, 2):
                yield {"sub": "senders", "variant": variant, "tasks": [[["bad", 1], ["iq", 1]], [["message", 300], ["receipt", 1]], [["message", 200], ["iq", 1]]],
                       "ping": False, "start_round": 2, "choices": [], "preempt": [[step, to], [step + 40, 0]]}


def _enum_basic():
    for variant in ("core", "proto", "bare"):
        for start_round in (0, 1, 2):
            for choices in ([], [1, 0, 2, 1, 3, 0, 2] * 30, [2, 1] * 100):
                yield {"sub": "senders", "variant": variant, "tasks": [[["iq", 1], ["message", 300]], [["receipt", 1], ["message", 3000]],
                                                                        [["presence", 10]]],
                       "ping": variant == "proto", "start_round": start_round, "choices": choices}


def _enum_login_preemption_sweep():
    """every single preemption point of a login during which two senders are already waiting (they start with the connect): the
    running thread continues except at one yield point, where another ready thread takes over"""
    for variant in ("core", "bare"):
        base = {"sub": "senders", "variant": variant, "tasks": [[["iq", 1]], [["message", 300]]], "ping": False, "start_round": 0,
                "choices": []}
        probe = run_case(dict(base))
        steps = (probe.info or {}).get("steps", 300)
        for i in range(steps + 1):
            for sel in (0, 1, 2, 3):      # net thread, two senders, handshake worker: any of the others takes over
                yield dict(base, preempt=[[i, sel]])


def _enum_stalled_writes():
    """each of the first eight writes of two senders' traffic blocking for 20 s, under three schedules"""
    for variant in ("core", "bare", "proto"):
        for stall in range(8):
            for choices in ([], [1, 0, 2, 1, 3, 0, 2] * 30, [2, 1] * 100):
                yield {"sub": "senders", "variant": variant, "tasks": [[["iq", 1], ["message", 300]], [["receipt", 1], ["presence", 10]]],
                       "ping": False, "start_round": 2, "choices": choices, "stall": stall}


def _enum_reconnect_preemption_sweep():
    """a reconnect (the stack was logged in before, the peer closed the connection) into which two senders run: every single
    preemption point from the connect request to the end of the new login"""
    for variant in ("core",):
        base = {"sub": "senders", "variant": variant, "tasks": [[["iq", 1]], [["receipt", 1]]], "ping": False, "start_round": 0,
                "choices": [], "earlier_connection": True}
        probe = run_case(dict(base))
        steps = (probe.info or {}).get("steps", 400)
        for i in range(steps + 1):
            for sel in (0, 1, 2, 3):
                yield dict(base, preempt=[[i, sel]])


def _enum_first_send_line_sweep():
    """the first two sends through a freshly logged-in stack, from two threads, with one preemption at every line and call of the
    traced layer files: whatever a layer sets up on first use must be safe to set up from two threads at once"""
    for variant in ("core", "bare"):
        base = {"sub": "senders", "variant": variant, "tasks": [[["iq", 1]], [["receipt", 1]]], "ping": False, "start_round": 2, "choices": [],
                "trace_lines": True}
        probe = run_case(dict(base))
        steps = (probe.info or {}).get("steps", 700)
        for i in range(steps + 1):
            for sel in (0, 1, 2):
                yield dict(base, preempt=[[i, sel]])


def first_send_strategy():
    """the first sends through a freshly logged-in stack from 2-3 threads under a free line-level schedule (any ready thread may run
    at every line and call of the traced layer files), or with two to three preemptions"""
    op = st.tuples(st.sampled_from(["iq", "receipt", "presence"]), st.sampled_from([1, 1, 10])).map(list)

    @st.composite
    def build(draw):
        case = {"sub": "senders", "variant": draw(st.sampled_from(["core", "bare"])), "tasks": draw(st.lists(st.lists(op, min_size=1, max_size=2), min_size=2, max_size=3)),
                "ping": False, "start_round": 2, "trace_lines": True, "choices": []}
        if draw(st.booleans()):
            case["choices"] = draw(st.lists(st.integers(0, 5), min_size=900, max_size=900))
        else:
            case["preempt"] = draw(st.lists(st.tuples(st.integers(380, 760), st.integers(0, 3)).map(list), min_size=2, max_size=3))
        return case
    return build()


def dispatcher_writes_strategy():
    op = st.one_of(st.tuples(st.just("send"), st.sampled_from([1, 3, 20, 300, 5000, 70000])).map(list), st.just(["loop"]))
    caps = st.lists(st.sampled_from([0, 1, 2, 3, 7, 100, 4096, 65536, 1 << 30]), min_size=1, max_size=6)
    return st.builds(lambda d, ops, c, i: dict({"sub": "dispatcher_writes", "dispatcher": d, "ops": ops, "caps": c, "tasks": []},
                                               **({"interrupt": i} if i and d == "socket" else {})),
                     st.sampled_from(["socket", "asyncore"]), st.lists(op, min_size=1, max_size=10), caps,
                     st.one_of(st.none(), st.none(), st.tuples(st.integers(1, 6), st.integers(0, 2)).map(list)))


def _enum_dispatcher_writes():
    for at in (1, 2, 4):
        for e in (0, 1, 2):
            yield {"sub": "dispatcher_writes", "dispatcher": "socket", "caps": [1 << 30], "tasks": [], "interrupt": [at, e],
                   "ops": [["send", 3], ["send", 300], ["send", 3], ["send", 70000], ["send", 3], ["send", 20]]}
    for d in ("socket", "asyncore"):
        for caps in ([1 << 30], [2], [3, 0, 100], [4096], [65536, 1]):
            yield {"sub": "dispatcher_writes", "dispatcher": d, "caps": caps, "tasks": [],
                   "ops": [["send", 3], ["send", 300], ["loop"], ["send", 3], ["send", 70000], ["send", 3], ["send", 20], ["loop"], ["loop"], ["send", 5000]]}


def reconnect_writes_strategy():
    op = st.one_of(st.tuples(st.just("send"), st.sampled_from([1, 3, 20, 300, 5000, 70000])).map(list), st.just(["loop"]),
                   st.tuples(st.just("reconnect"), st.sampled_from(["peer", "requested"])).map(list))
    caps = st.lists(st.sampled_from([0, 1, 2, 3, 7, 100, 4096, 65536, 1 << 30]), min_size=1, max_size=6)
    return st.builds(lambda ops, c: {"sub": "reconnect_writes", "ops": ops, "caps": c, "tasks": []}, st.lists(op, min_size=2, max_size=12), caps)


def _enum_reconnect_writes():
    for caps in ([1 << 30], [2], [3, 0, 100], [4096], [65536, 1]):
        for how in ("peer", "requested"):
            yield {"sub": "reconnect_writes", "caps": caps, "tasks": [],
                   "ops": [["send", 3], ["send", 300], ["loop"], ["send", 70000], ["reconnect", how], ["send", 3], ["send", 20], ["loop"], ["send", 5000],
                           ["reconnect", how], ["send", 300], ["loop"]]}


def _enum_dispatcher_race():
    """one preemption at every line of the asynchronous dispatcher's write path (sender thread x event-loop thread) for sockets
    that take 1 / 100 / at most 64 KiB per call or sometimes nothing"""
    for caps in ([100], [1], [65536, 1], [3, 0, 100]):
        for k in range(0, 130):
            for sel in (0, 1):
                yield {"sub": "dispatcher_race", "caps": caps, "sizes": [3, 300, 3, 70000, 5], "preempt": [[k, sel]], "choices": [], "tasks": []}


def dispatcher_race_strategy():
    return st.builds(lambda caps, sizes, pre, ch: {"sub": "dispatcher_race", "caps": caps, "sizes": sizes, "tasks": [],
                                                   "preempt": pre if not ch else None, "choices": ch},
                     st.lists(st.sampled_from([0, 1, 3, 100, 4096, 65536]), min_size=1, max_size=4).filter(lambda c: any(c)),
                     st.lists(st.sampled_from([1, 3, 20, 300, 5000, 70000]), min_size=1, max_size=6),
                     st.lists(st.tuples(st.integers(0, 200), st.integers(0, 1)).map(list), min_size=1, max_size=3),
                     st.one_of(st.just([]), st.lists(st.integers(0, 3), min_size=300, max_size=300)))


def plan(tier):
    quick = tier == "quick"
    return {
        "shards": 16,
        "enumerations": [("basic", _enum_basic), ("login_preemption_sweep", _enum_login_preemption_sweep),
                         ("first_send_line_sweep", _enum_first_send_line_sweep), ("reconnect_preemption_sweep", _enum_reconnect_preemption_sweep), ("stalled_writes", _enum_stalled_writes),
                         ("dispatcher_writes_basic", _enum_dispatcher_writes),
                         ("dispatcher_race_sweep", _enum_dispatcher_race), ("reconnect_writes_basic", _enum_reconnect_writes),
                         ("unencodable_stanza_among_senders_sweep", _enum_bad_stanza_sweep)],
        "exhaustive": ["login_preemption_sweep", "first_send_line_sweep"],
        "strategies": [("schedules", case_strategy(tier), 150 if quick else 10000),
                       ("first_send_line_schedules", first_send_strategy(), 60 if quick else 3000),
                       ("dispatcher_writes", dispatcher_writes_strategy(), 40 if quick else 2000),
                       ("dispatcher_race", dispatcher_race_strategy(), 40 if quick else 3000),
                       ("reconnect_writes", reconnect_writes_strategy(), 40 if quick else 3000)],
        "shrink": "ddmin",
        "budget_s": 150 if quick else 1800,
    }

RULE += (' Also: senders running into a reconnect after an earlier connection (with a complete single-preemption sweep), one write of the traffic blocking for 20 virtual seconds (bounded lock waits are modelled against the virtual clock), the real dispatcher classes over a socket double (short writes, would-block, a write interrupted half way, reconnects with output pending).')
RULE += (" Senders may hand down a stanza the codec refuses (kind bad): it is reported to its sender only, the other senders' stanzas are unaffected; a sweep over single preemption points with such a sender among three.")
