"""C11 - concurrent senders never corrupt the encrypted stream.

2-4 sender tasks (optionally the real keep-alive thread, optionally started while the handshake worker is still running)
send through the real coder/noise/segments/network layers under the deterministic scheduler; the Noise responder double
parses the byte stream strictly (prologue, then whole len3||payload segments) and decrypts strictly in arrival order.
"""
from .. import compat  # noqa: F401
from ..core import Outcome
from ..kit import transport as TR
from ..kit import sched as S
from ..ref import codec as R
from hypothesis import strategies as st

from yowsup.layers import YowParallelLayer
from yowsup.layers.interface import YowInterfaceLayer
from yowsup.stacks import YowStackBuilder
from yowsup.structs import ProtocolTreeNode
from yowsup.layers.protocol_iq import YowIqProtocolLayer

ID = "C11"
LEVEL = "exploration"
RULE = ("generated: 2-4 sender tasks x 1-4 stanzas each (sizes 1 B - 3 KiB; iq / receipt / presence / text message), variant = "
        "transport stack with one application layer on top (its lock serialises the application's threads; the handshake and "
        "keep-alive threads still enter further down), the bare transport stack network/segments/noise/coder entered through "
        "stack.send() by all threads side by side, or transport + protocol layers + interface-layer application; optionally the real keep-alive thread "
        "firing on a virtual clock tick, optionally senders started while the handshake is still in progress (round 0/1), and a "
        "schedule of up to 400 choice integers resolved at lock/queue operations and function calls of the anchored files (thorough: "
        "also at every line of the layer base class, noise layer and segments layer). First sends: one preemption at every line/call of the first two sends through a freshly logged-in stack (complete), and free line-level schedules or 2-3 preemptions for the first sends of 2-3 threads. Non-trivial = the executed schedule switched "
        "tasks at least once at a yield point inside a traced function call while two or more senders were alive. "
        "Distinct = distinct canonical JSON.")
ASSUMPTIONS = [
    "interleavings are explored at lock/queue operations and function calls (thorough: lines) of the anchored files under the GIL; "
    "a race needing a switch inside one bytecode-level expression elsewhere is not reachable",
    "a send that raises because the session is not ready yet counts as not sent",
]


class App(YowInterfaceLayer):
    def __init__(self):
        super(App, self).__init__()
        self.got = []

    def receive(self, e):
        self.got.append(e)


def upper_layers(variant):
    if variant == "core":
        return (TR.Top,)
    return (YowParallelLayer(YowStackBuilder.getProtocolLayers()), App)


def make_stanza(variant, kind, ident, size):
    pad = ("x" * size)
    if variant in ("core", "bare"):
        if kind == "iq":
            return ProtocolTreeNode("iq", {"id": ident, "type": "get", "xmlns": "w:p", "pad": pad})
        if kind == "presence":
            return ProtocolTreeNode("presence", {"id": ident, "name": pad})
        if kind == "message":
            return ProtocolTreeNode("message", {"id": ident, "to": "4911@s.whatsapp.net", "type": "text"},
                                    [ProtocolTreeNode("proto", {}, None, pad.encode())])
        return ProtocolTreeNode("receipt", {"id": ident, "to": "4911111@s.whatsapp.net"})
    from yowsup.layers.protocol_receipts.protocolentities import OutgoingReceiptProtocolEntity
    from yowsup.layers.protocol_messages.protocolentities import TextMessageProtocolEntity
    from yowsup.layers.protocol_iq.protocolentities import PingIqProtocolEntity
    from yowsup.layers.protocol_acks.protocolentities import OutgoingAckProtocolEntity
    if kind == "message":
        from yowsup.layers.protocol_messages.protocolentities.attributes.attributes_message_meta import MessageMetaAttributes
        return TextMessageProtocolEntity(pad, MessageMetaAttributes(id=ident, recipient="4911111@s.whatsapp.net"))
    if kind == "iq":
        return PingIqProtocolEntity(_id=ident)
    if kind == "presence":
        return OutgoingAckProtocolEntity(ident, "receipt", None, "4911111@s.whatsapp.net")
    return OutgoingReceiptProtocolEntity(ident, "4911111@s.whatsapp.net")


def run_case(case):
    out = Outcome()
    variant = case["variant"]
    ping = bool(case.get("ping")) and variant == "proto"
    props = {YowIqProtocolLayer.PROP_PING_INTERVAL: 1 if ping else 0}
    if variant == "bare":
        # network, segments, noise, coder and nothing above: the application threads call stack.send(), i.e. they enter the
        # topmost layer's send() side by side (no layer above it whose lock would serialise them)
        rig = TR.Rig(choices=case.get("choices", ()), upper=(), core_layers=YowStackBuilder.getCoreLayers()[:4], props=props,
                     trace_lines=bool(case.get("trace_lines")), preempt=case.get("preempt"))
    else:
        rig = TR.Rig(choices=case.get("choices", ()), upper=upper_layers(variant), props=props,
                     trace_lines=bool(case.get("trace_lines")), preempt=case.get("preempt"))
    try:
        return _run(case, out, rig, variant, ping)
    finally:
        rig.close()


def _run(case, out, rig, variant, ping):
    results = {}
    sent_order = {}
    start_round = case.get("start_round", 2)
    out.label("variant=" + variant, "start_round=%d" % start_round, "tasks=%d" % len(case["tasks"]))
    if ping:
        out.label("ping_thread")

    def make_sender(ti, prog):
        def f():
            for k, (kind, size) in enumerate(prog):
                ident = "s%d-%d" % (ti, k)
                stanza = make_stanza(variant, kind, ident, size)     # harness errors must not look like refused sends
                try:
                    if variant == "bare":
                        rig.stack.send(stanza)
                    else:
                        rig.top.toLower(stanza)
                    results[ident] = "ok"
                    sent_order.setdefault(ti, []).append(ident)
                except S._Stop:
                    raise
                except Exception as e:
                    results[ident] = "raised:" + type(e).__name__
        return f

    def spawn_senders():
        for ti, prog in enumerate(case["tasks"]):
            rig.sched.spawn("sender%d" % ti, make_sender(ti, prog))

    problems = []
    rig.post("connect")
    if variant == "bare":
        from yowsup.layers import YowLayerEvent
        from yowsup.layers.auth.layer_authentication import YowAuthenticationProtocolLayer
        rig.run()
        rig.sched.spawn("auth", lambda: rig.stack.broadcastEvent(YowLayerEvent(YowAuthenticationProtocolLayer.EVENT_AUTH, passive=False)))
    if start_round == 0:
        spawn_senders()
    rig.run()
    # round 1: client hello -> server, server hello -> client (senders may start together with its delivery)
    b = rig.take_client_bytes()
    try:
        rig.server.feed(b)
    except TR.ProtocolViolation as e:
        problems.append(e)
    o = rig.server.take_out()
    if o:
        rig.deliver(o)
    if start_round == 1:
        spawn_senders()
    if not problems:
        problems += rig.shuttle()
    if variant == "proto" and not problems and rig.server.state != "transport":
        out.fail("stream", "stream:login_incomplete", {"state": rig.server.state, "stuck": rig.stuck_tasks()})
        return out
    if variant == "proto" and not problems:
        rig.server.send_frame(R.encode(("success", {"creation": "1", "props": "2", "t": "3", "location": "x"}, None)))
        problems += rig.shuttle()
    if ping:
        rig.sched.advance(1.0)      # the keep-alive thread's tick becomes due together with the senders
    if start_round >= 2:
        spawn_senders()
    if not problems:
        problems += rig.shuttle()
    if problems:
        out.fail("stream", "stream:peer_rejects_byte_stream", {"problem": str(problems[0])[:300], "results": results})
        return out
    if rig.server.state != "transport":
        out.fail("stream", "stream:login_incomplete", {"state": rig.server.state, "stuck": rig.stuck_tasks()})
        return out
    stuck = rig.stuck_tasks()
    if stuck:
        out.fail("deadlock", "deadlock:task_blocked_forever", {"blocked": stuck, "results": results})
        return out
    if rig.sched.overrun:
        out.fail("deadlock", "no_progress_step_limit", {})
        return out
    errs = [(n, repr(e)[:200]) for n, e in rig.task_errors()]
    if errs:
        out.fail("deadlock", "task_died", {"errors": errs})
        return out
    if rig.server.buf:
        out.fail("stream", "stream:partial_segment_left", {"bytes": len(rig.server.buf)})
        return out
    # every stanza whose send returned normally is transmitted exactly once, per-task order preserved
    got = []
    pings = 0
    for f in rig.server.frames:
        try:
            t = R.decode(f)
        except R.FormatError as e:
            out.fail("stream", "stream:frame_not_a_stanza", {"error": str(e)})
            return out
        ident = t[1].get("id")
        if ident is not None and ident.startswith("s") and "-" in ident:
            got.append(ident)
        elif t[0] == "iq":
            pings += 1
    expected = sorted(i for i, r in results.items() if r == "ok")
    if sorted(got) != expected:
        out.fail("delivery", "delivery:transmitted_set_differs", {"at_server": sorted(got), "sent_ok": expected, "results": results})
        return out
    for ti, ids in sent_order.items():
        seen = [g for g in got if g.startswith("s%d-" % ti)]
        if seen != ids:
            out.fail("delivery", "delivery:per_task_order", {"task": ti, "at_server": seen, "program": ids})
            return out
    if ping and pings > 1:
        out.fail("delivery", "delivery:ping_transmitted_twice", {"pings": pings})
        return out
    if ping:
        out.label("ping_sent" if pings else "ping_not_sent")
    if any(r != "ok" for r in results.values()):
        out.label("some_sends_not_ready")
    held = [repr(l) for l in S.held_locks()]
    if held:
        out.fail("deadlock", "lock_still_held", {"locks": held[:4]})
        return out
    out.info = {"nt": rig.sched.in_call_switches > 0 and len(case["tasks"]) >= 2, "steps": rig.sched.steps}
    out.label("switch_in_call" if rig.sched.in_call_switches else "no_switch_in_call")
    return out


def nontrivial(case, out):
    return bool(out.info and out.info.get("nt"))


def shrink_candidates(case):
    ch = case.get("choices", [])
    if ch:
        yield dict(case, choices=ch[:len(ch) // 2])
        yield dict(case, choices=ch[:-1])
    if len(case["tasks"]) > 2:
        for i in range(len(case["tasks"])):
            yield dict(case, tasks=case["tasks"][:i] + case["tasks"][i + 1:])
    for i, t in enumerate(case["tasks"]):
        if len(t) > 1:
            yield dict(case, tasks=case["tasks"][:i] + [t[:-1]] + case["tasks"][i + 1:])


def case_strategy(tier):
    op = st.tuples(st.sampled_from(["iq", "receipt", "presence", "message"]),
                   st.sampled_from([1, 1, 10, 200, 256, 300, 3000])).map(list)
    prog = st.lists(op, min_size=1, max_size=4)

    @st.composite
    def build(draw):
        n = draw(st.sampled_from([0, 0, 20, 120, 400]))
        case = {
            "sub": "senders",
            "variant": draw(st.sampled_from(["core", "bare", "bare", "proto"])),
            "tasks": draw(st.lists(prog, min_size=2, max_size=4)),
            "ping": draw(st.booleans()),
            "start_round": draw(st.sampled_from([0, 1, 2, 2, 2])),
            "choices": draw(st.lists(st.integers(0, 7), min_size=n, max_size=n)),
        }
        if tier != "quick":
            case["trace_lines"] = draw(st.booleans())
        if n == 0:
            # context-bounded schedule: the running task continues except at up to four preemption points
            case["preempt"] = draw(st.lists(st.tuples(st.integers(0, 700), st.integers(0, 4)).map(list), min_size=1, max_size=4))
        return case
    return build()


def _enum_basic():
    for variant in ("core", "proto", "bare"):
        for start_round in (0, 1, 2):
            for choices in ([], [1, 0, 2, 1, 3, 0, 2] * 30, [2, 1] * 100):
                yield {"sub": "senders", "variant": variant, "tasks": [[["iq", 1], ["message", 300]], [["receipt", 1], ["message", 3000]],
                                                                        [["presence", 10]]],
                       "ping": variant == "proto", "start_round": start_round, "choices": choices}


def _enum_login_preemption_sweep():
    """every single preemption point of a login during which two senders are already waiting (they start with the connect): the
    running thread continues except at one yield point, where another ready thread takes over"""
    for variant in ("core", "bare"):
        base = {"sub": "senders", "variant": variant, "tasks": [[["iq", 1]], [["message", 300]]], "ping": False, "start_round": 0,
                "choices": []}
        probe = run_case(dict(base))
        steps = (probe.info or {}).get("steps", 300)
        for i in range(steps + 1):
            for sel in (0, 1, 2, 3):      # net thread, two senders, handshake worker: any of the others takes over
                yield dict(base, preempt=[[i, sel]])


def _enum_first_send_line_sweep():
    """the first two sends through a freshly logged-in stack, from two threads, with one preemption at every line and call of the
    traced layer files: whatever a layer sets up on first use must be safe to set up from two threads at once"""
    for variant in ("core", "bare"):
        base = {"sub": "senders", "variant": variant, "tasks": [[["iq", 1]], [["receipt", 1]]], "ping": False, "start_round": 2, "choices": [],
                "trace_lines": True}
        probe = run_case(dict(base))
        steps = (probe.info or {}).get("steps", 700)
        for i in range(steps + 1):
            for sel in (0, 1, 2):
                yield dict(base, preempt=[[i, sel]])


def first_send_strategy():
    """the first sends through a freshly logged-in stack from 2-3 threads under a free line-level schedule (any ready thread may run
    at every line and call of the traced layer files), or with two to three preemptions"""
    op = st.tuples(st.sampled_from(["iq", "receipt", "presence"]), st.sampled_from([1, 1, 10])).map(list)

    @st.composite
    def build(draw):
        case = {"sub": "senders", "variant": draw(st.sampled_from(["core", "bare"])), "tasks": draw(st.lists(st.lists(op, min_size=1, max_size=2), min_size=2, max_size=3)),
                "ping": False, "start_round": 2, "trace_lines": True, "choices": []}
        if draw(st.booleans()):
            case["choices"] = draw(st.lists(st.integers(0, 5), min_size=900, max_size=900))
        else:
            case["preempt"] = draw(st.lists(st.tuples(st.integers(380, 760), st.integers(0, 3)).map(list), min_size=2, max_size=3))
        return case
    return build()


def plan(tier):
    quick = tier == "quick"
    return {
        "shards": 16,
        "enumerations": [("basic", _enum_basic), ("login_preemption_sweep", _enum_login_preemption_sweep),
                         ("first_send_line_sweep", _enum_first_send_line_sweep)],
        "exhaustive": ["login_preemption_sweep", "first_send_line_sweep"],
        "strategies": [("schedules", case_strategy(tier), 150 if quick else 10000),
                       ("first_send_line_schedules", first_send_strategy(), 60 if quick else 3000)],
        "shrink": "ddmin",
        "budget_s": 150 if quick else 1800,
    }
