"""C12 - a failure while sending or receiving does not wedge the stack.

The real transport layers (network, segments, noise, coder, logger) - optionally with the protocol layers and an
interface-layer application on top - run under the deterministic scheduler against the Noise responder double.  A fault
is injected (wrapping one layer instance's send/receive so that it raises once) or provoked naturally (unencodable value,
oversized frame, send before the session is ready, undecodable frame from the server, a stanza a handler rejects by design,
an application callback that raises).  Oracle: the failing call raises to its caller; every task finishes; no lock stays
held; follow-up sends are decrypted in order by the peer and follow-up incoming stanzas reach the application - on the
same connection when the failure happened above the cipher, after a reconnect in every case.
"""
import os
import sys
import json

from .. import compat  # noqa: F401
from ..core import Outcome, HarnessError

VERIF_DIR = os.path.dirname(os.path.dirname(os.path.dirname(os.path.abspath(__file__))))
from ..kit import transport as TR
from ..kit import env as envkit
from ..kit import sched as S
from ..ref import codec as R
from hypothesis import strategies as st

from yowsup.layers import YowParallelLayer, YowLayer, YowLayerEvent
from yowsup.layers.interface import YowInterfaceLayer
from yowsup.stacks import YowStackBuilder
from yowsup.structs import ProtocolTreeNode
from yowsup.layers.protocol_iq import YowIqProtocolLayer

ID = "C12"
LEVEL = "fault_enumeration"
RULE = ("fault site = each layer of the transport stack (network, segments, noise, coder, logger) and, in the protocol variant, the "
        "protocol layer group and the application, x direction (down/up) x position of the failing operation in generated sequences "
        "of 2-3 sender tasks (1-3 stanzas each) and 0-3 incoming stanzas, interleaved by a generated schedule; natural faults: "
        "unencodable attribute value, frames from the smallest size that does not fit (2^24 - 16 bytes of plaintext) upward, send before login, undecodable server frame, picture notification without "
        "set/delete, stream:error without type, raising application callback (on a receipt, or on the reply to a ping the application sent itself); follow-ups: a send from a new thread, a send from a "
        "thread that already failed, an incoming stanza, then a disconnect + reconnect + the same follow-ups. enumerated: every "
        "(site, direction, variant) with a fixed sequence; generated: the rest. Login race: 2-4 stanzas sent right behind the handshake "
        "reply of a resumed login (1..all of them in the reply's read, the others in reads of their own, delivered up-front or while "
        "the application callback for the first one is still running), the callback fails on the first. Key-fetch fault (full clients incl. the encryption layers, one process per case): a reinstalled account receives messages from a sender that still uses its old session; the key requests this triggers are answered with an error or not at all (1-3 of them, optionally followed by a reconnect); 1-3 later messages of the sender must be delivered exactly once. Non-trivial = the fault fired and was not at the "
        "last position and a follow-up came from another thread. Distinct = distinct canonical JSON.")
ASSUMPTIONS = [
    "a fault at or below the cipher (noise, segments, network) loses a ciphertext, which no peer can recover from on the same "
    "connection: for those sites the same-connection follow-ups are only required to terminate and release every lock, and the "
    "ordering/delivery requirements are checked after the reconnect",
    "interleavings are explored at lock/queue operations and function calls of the anchored files under the GIL",
    "the stack's keep-alive thread is switched off (ping interval 0); it is exercised in C11/C16",
]

LAYER_NAMES = ["network", "segments", "noise", "coder", "logger"]


class Injected(Exception):
    pass


class App(YowInterfaceLayer):
    def __init__(self):
        super(App, self).__init__()
        self.got = []
        self.raise_on = None

    def receive(self, e):
        if self.raise_on is not None and getattr(e, "getTag", lambda: None)() == self.raise_on:
            self.raise_on = None
            raise Injected("application callback failed")
        self.got.append(e)

    def onEvent(self, ev):
        return super(App, self).onEvent(ev)


def upper_layers(variant):
    if variant == "core":
        return (TR.Top,)
    return (YowParallelLayer(YowStackBuilder.getProtocolLayers()), App)


def out_stanza(variant, ident):
    """what a sender task sends: core -> tree node; proto -> entity"""
    if variant == "core":
        return ProtocolTreeNode("receipt", {"id": ident, "to": "4911111@s.whatsapp.net"})
    from yowsup.layers.protocol_receipts.protocolentities import OutgoingReceiptProtocolEntity
    return OutgoingReceiptProtocolEntity(ident, "4911111@s.whatsapp.net")


def bad_stanza(variant, ident):
    if variant == "core":
        return ProtocolTreeNode("receipt", {"id": ident, "to": 12345})
    from yowsup.layers.protocol_receipts.protocolentities import OutgoingReceiptProtocolEntity
    return OutgoingReceiptProtocolEntity(ident, 12345)


def in_stanza(kind, ident):
    if kind == "receipt":
        return ("receipt", {"id": ident, "from": "4922222@s.whatsapp.net", "t": "1500000000"}, None)
    if kind == "picture_bad":
        return ("notification", {"id": ident, "from": "4922222@s.whatsapp.net", "type": "picture", "t": "1500000000"},
                [("other", {}, None)])
    if kind == "streamerror_bad":
        return ("stream:error", {}, None)
    raise ValueError(kind)


def install_fault(rig, fault, state):
    """wrap one layer's send/receive so that its nth invocation raises (once)"""
    site = fault["site"]
    if site == "protocol":
        layer = rig.stack.getLayer(5)
    elif site == "app":
        layer = rig.stack.getLayer(6)
    else:
        layer = rig.stack.getLayer(LAYER_NAMES.index(site))
    meth = "send" if fault["dir"] == "down" else "receive"
    orig = getattr(layer, meth)
    counter = {"n": 0}

    def wrapper(data):
        if state.get("armed"):
            counter["n"] += 1
            if counter["n"] == fault["nth"] and not state.get("fired"):
                state["fired"] = True
                raise Injected("injected fault in %s.%s" % (site, meth))
        return orig(data)
    setattr(layer, meth, wrapper)


def run_login_race(case):
    """The application callback fails on the first of several stanzas the server sends right behind its handshake reply.
    The first k frames share the read with the reply and are delivered by the handshake thread once the session is
    established; the others arrive in reads of their own on the network thread, which may overlap that delivery.
    Oracle: the failure is reported in one of the two threads, nothing blocks, no lock stays held, and every frame whose
    own read was handled without an error after the session was established has reached the application - without
    waiting for further traffic; after one more incoming stanza everything except the failed one has arrived in order."""
    from consonance.structs.publickey import PublicKey
    from consonance.structs.keypair import KeyPair
    from yowsup.config.v1.config import Config
    from ..kit.noise_server import NoiseServer
    out = Outcome()
    server = NoiseServer()
    write_fails = bool(case.get("profile_write_fails"))
    if write_fails:
        # first contact: the server's key is learnt during the handshake and stored in the profile - and the profile cannot be
        # written (read-only directory, disk full).  The failure site is the noise layer, at the moment the session is established
        cfg = Config(phone="4915112345", cc="49", client_static_keypair=KeyPair.generate())
    else:
        cfg = Config(phone="4915112345", cc="49", client_static_keypair=KeyPair.generate(),
                     server_static_public=PublicKey(bytes(server.s.public.data)))
    rig = TR.Rig(choices=case.get("choices", ()), config=cfg, server=server, preempt=case.get("preempt"))
    try:
        n = case["frames"]
        k = max(1, min(case["coalesced"], n))
        out.label("variant=core", "fault=" + ("profile_write_fails_at_login" if write_fails else "raise_at_login"), "frames=%d" % n, "coalesced=%d" % k)
        top = rig.top
        state = {"raised": False}
        orig_top = top.receive
        if write_fails:
            def _wc(c):
                state["raised"] = True
                raise Injected("profile cannot be written")
            rig.profile.write_config = _wc

        later_chunks = []

        def top_receive(node):
            if not write_fails and not state["raised"] and getattr(node, "tag", None) == "receipt":
                state["raised"] = True
                if case.get("overlap") and later_chunks:
                    # the further reads arrive while this callback is still running (it takes its time, then fails)
                    for ch in later_chunks:
                        rig.deliver(ch)
                    del later_chunks[:]
                    rig.sched.sleep(1.0)
                raise Injected("application callback failed")
            return orig_top(node)
        top.receive = top_receive
        noise = rig.stack.getLayer(2)
        calls = []          # one entry per read handed to the noise layer: [returned normally, session established when it began]
        orig_noise = noise.receive

        def noise_receive(data):
            entry = [False, not noise._in_handshake()]
            calls.append(entry)
            r = orig_noise(data)
            entry[0] = True
            return r
        noise.receive = noise_receive
        rig.post("connect")
        rig.run()
        try:
            server.feed(rig.take_client_bytes())
        except TR.ProtocolViolation as e:
            out.fail("login", "login_race:server_rejects_client_bytes", {"problem": str(e)})
            return out
        if write_fails:
            # (first contact takes a second round: server hello -> client finish.)  The server answers at once: its first stanzas
            # are on their way while the client's handshake thread is still taking its last steps; which thread is first is
            # the schedule's choice
            rig.eager_frames = [R.encode(in_stanza("receipt", "early-%d" % i)) for i in range(n)]
            rig.deliver(bytes(server.take_out()))
            rig.run()
            if rig.eager_problems or not rig.eager_sent:
                out.fail("login", "login_race:server_rejects_client_bytes", {"problem": str(rig.eager_problems[:1])})
                return out
        if server.state != "transport":
            raise HarnessError("the responder double did not reach transport state after the client's handshake messages")
        first = bytes(server.take_out())
        chunks = []
        for i in range(0 if write_fails else n):
            server.send_frame(R.encode(in_stanza("receipt", "early-%d" % i)))
            f = bytes(server.take_out())
            if i < k:
                first += f
            else:
                chunks.append(f)
        if case.get("overlap"):
            later_chunks.extend(chunks)
            rig.deliver(first)
            rig.run()
            rig.sched.advance(2.0)      # the slow callback finishes (and fails)
            rig.run()
            for ch in later_chunks:     # (the callback never ran: hand the reads over now)
                rig.deliver(ch)
            rig.run()
            out.label("reads_overlap_the_failing_callback")
        elif not write_fails:
            for ch in [first] + chunks:
                rig.deliver(ch)
            rig.run()
        stuck = rig.stuck_tasks()
        if stuck:
            out.fail("wedged", "login_race:task_blocked_forever", {"blocked": stuck})
            return out
        if rig.sched.overrun:
            out.fail("wedged", "login_race:no_progress_step_limit", {})
            return out
        held = [repr(l) for l in S.held_locks()]
        if held:
            out.fail("locks", "login_race:lock_still_held", {"locks": held[:4]})
            return out
        task_errs = [(t.name, t.exc) for t in rig.sched.tasks if t.exc is not None]
        foreign = [(nm, repr(e)[:200]) for nm, e in task_errs if not isinstance(e, Injected)] + \
                  [("net", repr(e)[:200]) for e in rig.net_errors + rig.recv_errors if not isinstance(e, Injected)]
        if foreign:
            out.fail("wedged", "login_race:task_died", {"errors": foreign})
            return out
        if state["raised"] and not ([1 for nm, e in task_errs if isinstance(e, Injected)] or
                                    [1 for e in rig.net_errors + rig.recv_errors if isinstance(e, Injected)]):
            out.fail("report", "login_race:up_fault_not_reported_to_caller", {})
            return out
        got = _got_ids(rig, "core")
        # calls[0] is the handshake reply; frame i was handed over in calls[1 + i]
        overlap = False
        for i in range(1, n):
            if 1 + i < len(calls) and calls[1 + i][0] and calls[1 + i][1]:
                overlap = overlap or i >= k
                if "early-%d" % i not in got:
                    out.fail("delivery", "login_race:frame_handled_without_error_but_not_delivered",
                             {"frame": i, "coalesced": k, "delivered": got, "calls": calls})
                    return out
        if overlap:
            out.label("read_on_network_thread_after_session_established")
        if write_fails:
            # nothing the application does failed: whatever the server sent behind its handshake reply is with the application now -
            # not only once further traffic happens to arrive (a server that waits for the client's first request sends none)
            missing = [i for i in range(n) if "early-%d" % i not in got]
            if missing:
                out.fail("delivery", "login_race:frames_received_with_the_handshake_reply_held_back_after_a_failed_profile_write",
                         {"missing": missing, "coalesced": k, "delivered": got})
                return out
        # one more incoming stanza: everything except the failed one has arrived, in order, once
        server.send_frame(R.encode(in_stanza("receipt", "later")))
        rig.shuttle()
        got = _got_ids(rig, "core")
        expected = ["early-%d" % i for i in range(0 if write_fails else 1, n)] + ["later"]
        if [g for g in got if g in expected] != expected:
            out.fail("delivery", "login_race:incoming_lost_or_out_of_order", {"delivered": got, "expected": expected})
            return out
        # and the session still works downward
        def fresh():
            rig.top.toLower(out_stanza("core", "after-fresh"))
        n0 = len(server.frames)
        rig.sched.spawn("after-fresh", fresh)
        p = rig.shuttle()
        if p or len(server.frames) != n0 + 1:
            out.fail("order", "login_race:followup_send_failed", {"problem": str(p[0]) if p else None, "frames": len(server.frames) - n0})
            return out
        out.info = {"nt": state["raised"] and n >= 2, "steps": rig.sched.steps}
        return out
    finally:
        rig.close()


def run_key_fetch_fault(case):
    """runs in a process of its own (vlib/props/c12_e2e.py): the full-client harness and the scheduler-driven transport rig of the
    other sub-cases patch the same module globals differently"""
    import subprocess
    out = Outcome()
    r = subprocess.run([sys.executable, "-m", "vlib.props.c12_e2e", json.dumps(case)], cwd=VERIF_DIR, stdout=subprocess.PIPE,
                       stderr=subprocess.PIPE, timeout=600,
                       env=dict(os.environ, PYTHONDONTWRITEBYTECODE="1", TMPDIR=envkit.scratch_root()))
    line = [l for l in r.stdout.decode("utf-8", "replace").splitlines() if l.startswith("OUTCOME ")]
    if r.returncode != 0 or not line:
        raise HarnessError("key_fetch_fault child failed rc=%s: %s" % (r.returncode, r.stderr.decode("utf-8", "replace")[-600:]))
    d = json.loads(line[-1][len("OUTCOME "):])
    out.label(*d["labels"])
    for v in d["violations"]:
        out.fail(v["kind"], v["key"], v["detail"])
    out.info = d.get("info")
    return out


class _FailingTop(YowLayer):
    """the layers above the network layer: take every read, fail on the chosen ones"""

    def __init__(self):
        super(_FailingTop, self).__init__()
        self.got = []
        self.events = []
        self.fail_on = {}

    def receive(self, data):
        self.got.append(bytes(data))
        exc = self.fail_on.get(bytes(data))
        if exc is not None:
            raise exc

    def send(self, data):
        self.toLower(data)

    def onEvent(self, ev):
        self.events.append(ev.getName())
        return False


class _HandlerFailed(Exception):
    pass


def run_asyncore_dispatcher(case):
    """the default (asyncore) dispatcher under the network layer, its loop events driven by the case: a layer above fails while it
    handles something that was read.  A connection announced as down is down: its socket is closed and nothing it still had
    pending reaches the stack, least of all after the next connection is up; the next connection works"""
    import yowsup.layers.network.layer as netmod
    from yowsup.layers.network.layer import YowNetworkLayer
    from ..kit import netkit, stackkit
    out = Outcome()
    out.info = {"nt": True}
    excs = {"ValueError": ValueError("undecodable"), "KeyError": KeyError("handler"), "handler": _HandlerFailed("unsupported stanza"),
            "AttributeError": AttributeError("callback"), "OSError": OSError(5, "from a layer above")}
    out.label("asyncore_dispatcher", "upper_fails:" + case["how"])
    saved = (netmod.AsyncoreConnectionDispatcher, netmod.SocketConnectionDispatcher)
    Driven, DA = netkit.driven_asyncore_class()
    saved_asyncore = DA.asyncore
    DA.asyncore = netkit.AsyncoreShim(DA.asyncore)
    netmod.AsyncoreConnectionDispatcher = Driven
    Driven.made = []
    try:
        stack = stackkit.new_stack_class()((YowNetworkLayer, _FailingTop), reversed=False,
                                           props={YowNetworkLayer.PROP_ENDPOINT: ("e1.whatsapp.net", 443)})
        net, top = stack.getLayer(0), stack.getLayer(1)
        top.fail_on = {b"c0-r%d" % case["fail_at"]: excs[case["how"]]}
        stack.broadcastEvent(YowLayerEvent(YowNetworkLayer.EVENT_STATE_CONNECT))
        d0 = Driven.made[-1]
        d0.h_establish()
        stackkit.drain_detached(stack)
        for r in range(case["fail_at"] + 1):
            d0.h_data_as_the_loop_does(b"c0-r%d" % r)
        stackkit.drain_detached(stack)
        downs = top.events.count(YowNetworkLayer.EVENT_STATE_DISCONNECTED)
        if net.state == YowNetworkLayer.STATE_DISCONNECTED or downs:
            out.label("connection_given_up_after_the_failure")
            if d0.state != "closed":
                out.fail("wedged", "asyncore_dispatcher:connection_announced_down_but_its_socket_is_open", {"how": case["how"], "socket": d0.state})
                return out
        else:
            out.label("connection_kept_after_the_failure")
        # whatever the old connection still had to say arrives late, around the next connection's establishment
        n_got = len(top.got)
        if case.get("late") == "before_reconnect" and d0.state != "closed":
            d0.h_data_as_the_loop_does(b"late-frame")
        if net.state == YowNetworkLayer.STATE_DISCONNECTED:
            stack.broadcastEvent(YowLayerEvent(YowNetworkLayer.EVENT_STATE_CONNECT))
            if len(Driven.made) != 2:
                out.fail("wedged", "asyncore_dispatcher:connect_request_opens_no_connection", {"layer_state": net.state})
                return out
            d1 = Driven.made[-1]
            d1.h_establish()
            stackkit.drain_detached(stack)
            if case.get("late") == "after_reconnect" and d0.state != "closed":
                d0.h_data_as_the_loop_does(b"late-frame")
            d1.h_data_as_the_loop_does(b"c1-r0")
            stackkit.drain_detached(stack)
            new = top.got[n_got:]
            if new != [b"c1-r0"]:
                out.fail("wedged", "asyncore_dispatcher:after_reconnect_the_stack_received_%s" % ("nothing" if not new else "data_of_the_dead_connection"),
                         {"received": [bytes(x)[:20].decode("latin-1") for x in new]})
                return out
            top.toLower(b"out-1")
            if bytes(d1._sock.wire) != b"out-1":
                out.fail("wedged", "asyncore_dispatcher:send_after_reconnect_not_on_the_new_socket", {"wire": bytes(d1._sock.wire)[:20].hex()})
                return out
    finally:
        netmod.AsyncoreConnectionDispatcher, netmod.SocketConnectionDispatcher = saved
        DA.asyncore = saved_asyncore
    return out


def run_socket_dispatcher(case):
    """the blocking socket dispatcher (PROP_DISPATCHER = DISPATCHER_SOCKET) under the network layer, over scripted sockets: a
    layer above fails while it handles something that was read.  Whatever the dispatcher does about it (carry on, or give the
    connection up), the stack stays usable: a connection whose socket was closed has been announced as down, a later connect
    request opens a new connection, what it reads is delivered and what is sent then goes to the new socket"""
    import yowsup.layers.network.dispatcher.dispatcher_socket as DS
    from yowsup.layers.network.layer import YowNetworkLayer
    from ..kit import netkit, stackkit
    out = Outcome()
    excs = {"ValueError": ValueError("undecodable"), "KeyError": KeyError("handler"), "handler": _HandlerFailed("unsupported stanza"),
            "AttributeError": AttributeError("callback"), "OSError": OSError(5, "from a layer above")}
    out.label("socket_dispatcher")
    socks = []
    fail_on = {}
    sent_expected = []
    for ci, conn in enumerate(case["connections"]):
        reads = []
        for ri, how in enumerate(conn):
            data = b"c%d-r%d" % (ci, ri)
            reads.append(data)
            if how:
                fail_on[data] = excs[how]
                out.label("upper_fails:" + how)
        socks.append(netkit.ScriptedSocket(reads))
    shim = netkit.SocketModuleShim(DS.socket, socks)
    DS.socket = shim
    # (other sub-cases of this check put a dispatcher double into the network layer's module: this one runs the real class)
    import yowsup.layers.network.layer as netmod
    saved_cls = netmod.SocketConnectionDispatcher
    netmod.SocketConnectionDispatcher = DS.SocketConnectionDispatcher
    try:
        stack = stackkit.new_stack_class()((YowNetworkLayer, _FailingTop), reversed=False,
                                           props={YowNetworkLayer.PROP_ENDPOINT: ("e1.whatsapp.net", 443),
                                                  YowNetworkLayer.PROP_DISPATCHER: YowNetworkLayer.DISPATCHER_SOCKET})
        net, top = stack.getLayer(0), stack.getLayer(1)
        top.fail_on = fail_on
        for ci, conn in enumerate(case["connections"]):
            n_before = len(shim.handed_out)
            ev_before = len(top.events)
            raised = None
            try:
                # (connect() of this dispatcher returns when the connection is over)
                stack.broadcastEvent(YowLayerEvent(YowNetworkLayer.EVENT_STATE_CONNECT))
            except Exception as e:
                raised = e
                out.label("connect_request_raised")
            stackkit.drain_detached(stack)
            if len(shim.handed_out) != n_before + 1:
                out.fail("wedged", "socket_dispatcher:connect_request_opens_no_connection",
                         {"connection": ci + 1, "layer_state": net.state, "raised": repr(raised)[:120], "history": case["connections"][:ci + 1]})
                return out
            sk = shim.handed_out[-1]
            evs = top.events[ev_before:]
            ups = evs.count(YowNetworkLayer.EVENT_STATE_CONNECTED)
            downs = evs.count(YowNetworkLayer.EVENT_STATE_DISCONNECTED)
            if ups != 1:
                out.fail("wedged", "socket_dispatcher:connected_announced_%d_times" % ups, {"connection": ci + 1})
                return out
            if sk.closed and downs != 1:
                out.fail("wedged", "socket_dispatcher:socket_closed_but_disconnect_announced_%d_times" % downs,
                         {"connection": ci + 1, "layer_state": net.state, "raised": repr(raised)[:120], "reads": conn})
                return out
            # everything read before the connection ended was handed upward once, in order
            handed = [g for g in top.got if g.startswith(b"c%d-" % ci)]
            expected = [b"c%d-r%d" % (ci, ri) for ri in range(len(conn))]
            if handed != expected[:len(handed)] or (not any(conn) and handed != expected):
                out.fail("wedged", "socket_dispatcher:reads_not_delivered_in_order", {"connection": ci + 1, "delivered": [h.decode() for h in handed]})
                return out
            # nothing is written to the connection that is over
            wire_before = len(sk.wire)
            try:
                top.send(b"after-%d" % ci)
            except Exception as e:
                out.fail("wedged", "socket_dispatcher:send_after_the_connection_ended_raises:%s" % type(e).__name__, {"connection": ci + 1, "error": repr(e)[:200]})
                return out
            if len(sk.wire) != wire_before:
                out.fail("wedged", "socket_dispatcher:written_to_a_closed_connection", {"connection": ci + 1})
                return out
            if ci < len(case.get("disconnect_after", [])) and case["disconnect_after"][ci]:
                # recovery code that closes before it reconnects (disconnect(); connect()), a keep-alive giving up, the login layer
                # reacting to a failure: a disconnect request for the connection that is already gone
                try:
                    stack.broadcastEvent(YowLayerEvent(YowNetworkLayer.EVENT_STATE_DISCONNECT, reason="recovery"))
                except Exception as e:
                    out.fail("wedged", "socket_dispatcher:disconnect_request_after_the_end_raises:%s" % type(e).__name__, {"connection": ci + 1, "error": repr(e)[:200]})
                    return out
                stackkit.drain_detached(stack)
                out.label("disconnect_request_for_a_connection_that_is_gone")
        out.info = {"nt": any(any(c) for c in case["connections"][:-1])}
        return out
    finally:
        DS.socket = shim._real
        netmod.SocketConnectionDispatcher = saved_cls


def run_session_not_ready(case):
    """a message handed down while the encryption layers have no key manager (never connected, or the connection is gone): the
    caller is told (an exception), and the stack works once the connection is there; other stanzas are not held up by it"""
    from ..kit import protokit as PK
    from yowsup.layers import YowLayerEvent
    from yowsup.layers.network.layer import YowNetworkLayer
    from yowsup.layers.protocol_messages.protocolentities import TextMessageProtocolEntity
    from yowsup.layers.protocol_media.protocolentities import LocationMediaMessageProtocolEntity
    from yowsup.layers.protocol_messages.protocolentities.attributes.attributes_message_meta import MessageMetaAttributes
    out = Outcome()
    out.info = {"nt": True}
    to = {"direct": "4915100000022@s.whatsapp.net", "group": "4915100000021-1500000001@g.us"}[case["to"]]

    def entity(k):
        if case.get("content") == "media":
            from yowsup.layers.protocol_messages.protocolentities.attributes.attributes_location import LocationAttributes
            return LocationMediaMessageProtocolEntity(LocationAttributes(1.5 + k, 2.5), MessageMetaAttributes(recipient=to))
        return TextMessageProtocolEntity(case.get("text", "hello") + str(k), to=to)
    out.label("session_not_ready:" + case["when"], "to=" + case["to"], "content=" + case.get("content", "text"))
    rig = PK.ProtoRig([1, 1, 1, 1], True, connected=(case["when"] != "never_connected"))
    try:
        if case["when"] == "after_disconnect":
            rig.bottom.emitEvent(YowLayerEvent(YowNetworkLayer.EVENT_STATE_DISCONNECTED, reason="verif"))
        for k in range(case.get("n", 1)):
            before = len(rig.bottom.sent)
            try:
                rig.send(entity(k))
            except Exception:
                out.label("reported_to_the_caller")
                continue
            if len(rig.bottom.sent) == before:
                out.fail("report", "session_not_ready:%s:message_neither_sent_nor_reported" % case["when"], {"to": to, "nth": k})
                return out
            out.label("went_out")
        rig.bottom.emitEvent(YowLayerEvent(YowNetworkLayer.EVENT_STATE_CONNECTED))
        before = len(rig.bottom.sent)
        try:
            rig.send(entity(99))
        except Exception as e:
            out.fail("usable", "session_not_ready:%s:send_after_connect_raises:%s" % (case["when"], type(e).__name__), {"error": repr(e)[:300]})
            return out
        if len(rig.bottom.sent) == before:
            out.fail("usable", "session_not_ready:%s:send_after_connect_without_effect" % case["when"], {"to": to})
    finally:
        rig.close()
    return out


def run_case(case):
    if case.get("sub") == "session_not_ready":
        return run_session_not_ready(case)
    if case.get("sub") == "socket_dispatcher":
        return run_socket_dispatcher(case)
    if case.get("sub") == "asyncore_dispatcher":
        return run_asyncore_dispatcher(case)
    if case.get("sub") == "login_race":
        return run_login_race(case)
    if case.get("sub") == "key_fetch_fault":
        return run_key_fetch_fault(case)
    out = Outcome()
    variant = case["variant"]
    fault = case["fault"]
    props = {YowIqProtocolLayer.PROP_PING_INTERVAL: 0}
    TR.install()      # before any layer object exists (the parallel group creates its members at once)
    rig = TR.Rig(choices=case.get("choices", ()), upper=upper_layers(variant), props=props, preempt=case.get("preempt"))
    from ..kit.stackkit import loop_budget, LoopBudgetExceeded, functions_of
    from yowsup.layers.noise.layer import YowNoiseLayer
    from yowsup.layers.noise.layer_noise_segments import YowNoiseSegmentsLayer
    try:
        # a loop in the transport layers that never ends must end the case with a verdict, not the run with a time-out
        # (a count of loop iterations, no wall clock)
        with loop_budget(functions_of(YowNoiseLayer, YowNoiseSegmentsLayer), 300000) as budget:
            _run(case, out, rig, variant, fault)
        spun = budget.count > budget.limit or any(isinstance(e, LoopBudgetExceeded) for e in list(rig.recv_errors) + list(rig.net_errors)) or \
            any(isinstance(e, LoopBudgetExceeded) for n, e in rig.task_errors())
        if spun:
            del out.violations[:]
            out.fail("wedged", "loop_in_transport_layer_never_ends", {"fault": fault})
        return out
    finally:
        rig.close()


def _login(rig, variant, out, phase):
    probs = rig.login()
    if probs or rig.server.state != "transport":
        out.fail("login", "%s:login_failed" % phase, {"problems": [str(p) for p in probs], "server_state": rig.server.state,
                                                      "stuck": rig.stuck_tasks()})
        return False
    from yowsup.layers.noise.layer import YowNoiseLayer
    if YowNoiseLayer.EVENT_HANDSHAKE_FAILED in getattr(rig.top, "events", []) or rig.stuck_tasks():
        out.fail("login", "%s:login_failed" % phase, {"client": "handshake failed or blocked", "stuck": rig.stuck_tasks()})
        return False
    if variant != "core":
        before = len(rig.top.got)
        rig.server.send_frame(R.encode(("success", {"creation": "1", "props": "2", "t": "3", "location": "x"}, None)))
        rig.shuttle()
        tags = [getattr(e, "getTag", lambda: None)() for e in rig.top.got[before:]]
        if "success" not in tags:
            out.fail("login", "%s:login_failed" % phase, {"client": "success stanza did not arrive", "got": tags})
            return False
    else:
        # the client side must be able to use the session
        pass
    return True


def _got_ids(rig, variant):
    ids = []
    for x in rig.top.got:
        try:
            if variant == "core":
                ids.append(x["id"])
            else:
                ids.append(x.getId() if hasattr(x, "getId") else None)
        except Exception:
            ids.append(None)
    return ids


def _run(case, out, rig, variant, fault):
    kind = fault["kind"]     # "inject" | natural kinds
    site = fault.get("site")
    below_cipher = kind == "inject" and site in ("network", "segments", "noise")
    out.label("variant=" + variant, "fault=" + kind + (":" + site + ":" + fault["dir"] if kind == "inject" else ""))
    state = {"armed": False}
    results = {}

    # ---- a send before the session is ready (natural fault "not_ready") happens before login
    if kind == "not_ready":
        rig.top.auto_auth = False if variant == "core" else True

        def early():
            try:
                rig.top.toLower(out_stanza(variant, "early-1"))
                results["early"] = "ok"
            except Exception as e:
                results["early"] = "raised:" + type(e).__name__
        rig.sched.spawn("early", early)
        rig.run()
        if results.get("early") is None:
            out.fail("report", "not_ready:send_did_not_finish", {"stuck": rig.stuck_tasks()})
            return out
        if not results["early"].startswith("raised"):
            # nothing is connected: the network layer drops writes while down; a silent drop is not "reported"
            pass
        state["fired"] = results["early"].startswith("raised")
        if variant == "core":
            rig.top.auto_auth = True
    if kind == "frame_not_ready":
        # a frame reaches the stack while no session exists (the connection is up, the login has not begun - or bytes that were
        # in flight when a session was reset): it cannot be processed; that is reported, and nothing spins or stays locked
        rig.top.auto_auth = False
        rig.post("connect")
        rig.run()
        for i in range(fault.get("frames", 1)):
            rig.deliver(b"\x00\x00\x05hell" + bytes([0x30 + i]))
            rig.run()
        state["fired"] = True
        if rig.sched.overrun:
            out.fail("wedged", "frame_not_ready:receive_does_not_return", {})
            return out
        stuck = rig.stuck_tasks()
        if stuck:
            out.fail("wedged", "frame_not_ready:task_blocked_forever", {"blocked": stuck})
            return out
        held = [repr(l) for l in S.held_locks()]
        if held:
            out.fail("locks", "frame_not_ready:lock_still_held", {"locks": held[:4]})
            return out
        if not rig.recv_errors and not rig.net_errors:
            out.fail("report", "frame_not_ready:not_reported_to_caller", {})
            return out
        del rig.recv_errors[:]
        if rig.current is not None and rig.current.up:
            rig.current.inbox.put(("close",))
        rig.run()
        rig.post("loop")
        rig.run()
        rig.top.auto_auth = True
    if kind == "app_raises" and fault.get("on") == "success" and variant == "proto":
        # the application fails on the very stanza that completes the login.  The failure is reported - and the login has taken
        # place all the same: the layers below have been told (the keep-alive and the key upload depend on that announcement)
        from yowsup.layers.auth.layer_authentication import YowAuthenticationProtocolLayer
        seen_below = []
        probe = rig.stack.getLayer(3)
        orig_on_event = probe.onEvent

        def on_event(ev, _o=orig_on_event):
            seen_below.append(ev.getName())
            return _o(ev)
        probe.onEvent = on_event
        probs = rig.login()
        if probs or rig.server.state != "transport":
            out.fail("login", "initial:login_failed", {"problems": [str(p) for p in probs]})
            return out
        rig.top.raise_on = "success"
        rig.server.send_frame(R.encode(("success", {"creation": "1", "props": "2", "t": "3", "location": "x"}, None)))
        rig.shuttle()
        probe.onEvent = orig_on_event
        out.label("application_fails_on_success")
        if rig.top.raise_on is not None:
            raise HarnessError("the success stanza did not reach the application double")
        if not rig.recv_errors and not rig.net_errors:
            out.fail("report", "up_fault_not_reported_to_caller", {"fault": fault})
            return out
        del rig.recv_errors[:]
        del rig.net_errors[:]
        if YowAuthenticationProtocolLayer.EVENT_AUTHED not in seen_below:
            out.fail("wedged", "app_raises_on_success:login_never_announced_to_the_stack", {"events_seen_below": [e.split(".")[-1] for e in seen_below]})
            return out
        state["fired"] = True
    elif not _login(rig, variant, out, "initial"):
        return out
    if kind == "inject":
        install_fault(rig, fault, state)
    if kind == "app_raises" and fault.get("on") != "success":
        # the application fails on the first receipt - or on the reply to a ping it sent itself (the iq layer hands that one
        # upward from inside its own bookkeeping of outstanding pings)
        rig.top.raise_on = "iq" if fault.get("on") == "pong" else "receipt"
    held0 = [repr(l) for l in S.held_locks()]
    if held0:
        out.fail("locks", "locks_held_after_login", {"locks": held0})
        return out

    # ---- phase 1: the generated traffic with the fault
    state["armed"] = True
    expected_in = []        # ids of incoming stanzas that must reach the application
    sent_ok = []
    programs = case["tasks"]
    natural_pos = fault.get("pos", 0)

    from yowsup.layers.protocol_iq.protocolentities import PingIqProtocolEntity
    pings = {(ti, k): PingIqProtocolEntity() for ti, prog in enumerate(programs) for k, op in enumerate(prog) if op == "ping"}

    def make_sender(ti, prog):
        def f():
            for k, op in enumerate(prog):
                ident = "t%d-%d" % (ti, k)
                stanza = bad_stanza(variant, ident) if op == "bad" else out_stanza(variant, ident)
                if op == "ping":
                    stanza = pings[(ti, k)]
                    ident = stanza.getId()
                try:
                    if op == "oversize":
                        rig.stack.getLayer(3).toLower(bytearray(fault.get("size", 2 ** 24)))
                    else:
                        rig.top.toLower(stanza)
                    results[ident] = "ok"
                    if op in ("ok", "ping"):
                        sent_ok.append(ident)
                except S._Stop:
                    raise
                except Exception as e:
                    results[ident] = "raised:" + type(e).__name__
        return f
    pre_ping = None
    if kind == "app_raises" and fault.get("on") == "pong":
        # the application's ping is on its way before anything else happens, so that the reply finds its request registered
        pre_ping = PingIqProtocolEntity()

        def send_ping():
            rig.top.toLower(pre_ping)
            sent_ok.append(pre_ping.getId())
        rig.sched.spawn("pinger", send_ping)
        rig.shuttle()
    for ti, prog in enumerate(programs):
        rig.sched.spawn("sender%d" % ti, make_sender(ti, prog))
    incoming = case.get("incoming", [])
    # incoming frames are encrypted in order by the server and delivered while the senders run
    for j, ik in enumerate(incoming):
        ident = "in-%d" % j
        if ik == "garbage":
            rig.server.send_frame(b"\x00\xf8\x05\x09")     # list of 5 with nothing behind it: undecodable
        elif ik == "pong":
            if pre_ping is not None:
                pid = pre_ping.getId()
                rig.server.send_frame(R.encode(("iq", {"id": pid, "type": "result", "from": "s.whatsapp.net"}, None)))
                out.label("pong_for_application_ping")
        else:
            rig.server.send_frame(R.encode(in_stanza(ik, ident)))
            if ik == "receipt":
                expected_in.append(ident)
    probs = rig.shuttle()
    state["armed"] = False     # a fault that did not fire during the generated traffic stays away from the follow-ups
    fired = state.get("fired", False) or kind in ("bad_attr", "oversize", "garbage", "picture_bad", "streamerror_bad", "app_raises", "frame_not_ready")
    out.label("fired" if fired else "not_fired")

    def check_quiescent(phase, require_order):
        stuck = rig.stuck_tasks()
        if stuck:
            out.fail("wedged", "%s:task_blocked_forever" % phase, {"blocked": stuck, "results": results, "fault": fault})
            return False
        if rig.sched.overrun:
            out.fail("wedged", "%s:no_progress_step_limit" % phase, {})
            return False
        held = [repr(l) for l in S.held_locks()]
        if held:
            out.fail("locks", "%s:lock_still_held" % phase, {"locks": held[:4], "fault": fault})
            return False
        errs = [(n, repr(e)[:200]) for n, e in rig.task_errors()]
        if errs:
            out.fail("wedged", "%s:task_died" % phase, {"errors": errs})
            return False
        return True

    if not check_quiescent("after_fault", not below_cipher):
        return out
    # the failing call raised to its caller
    raised_down = [k for k, v in results.items() if v.startswith("raised")]
    if kind == "inject" and fault["dir"] == "down" and state.get("fired") and not raised_down:
        out.fail("report", "down_fault_not_reported_to_caller", {"results": results, "fault": fault})
        return out
    if kind in ("bad_attr", "oversize"):
        naturals = [("t%d-%d" % (ti, k)) for ti, prog in enumerate(programs) for k, op in enumerate(prog) if op in ("bad", "oversize")]
        silent = [i for i in naturals if results.get(i) == "ok"]
        if silent:
            out.fail("report", "%s_not_reported_to_caller" % kind, {"sends": silent})
            return out
    reported_at_login = kind == "app_raises" and fault.get("on") == "success"      # (checked where it happened)
    if not reported_at_login and (kind in ("garbage", "picture_bad", "streamerror_bad", "app_raises") or (kind == "inject" and fault["dir"] == "up" and state.get("fired"))):
        if not rig.recv_errors and not rig.net_errors:
            out.fail("report", "up_fault_not_reported_to_caller", {"fault": fault})
            return out
    if not below_cipher:
        if probs:
            out.fail("order", "after_fault:peer_cannot_decrypt", {"problem": str(probs[0]), "fault": fault})
            return out
        got = []
        for f in rig.server.frames:
            try:
                got.append(R.decode(f)[1].get("id"))
            except R.FormatError:
                got.append("<undecodable>")
        if sorted(got) != sorted(sent_ok):
            out.fail("delivery", "after_fault:sent_stanzas_differ", {"at_server": got, "sent_ok": sent_ok, "results": results})
            return out

    # ---- phase 2: follow-ups on the same connection
    def follow_up(phase, same_connection_required):
        n0 = len(rig.server.frames)
        ids = []

        def fresh():
            rig.top.toLower(out_stanza(variant, phase + "-fresh"))
            results[phase + "-fresh"] = "ok"
        ids.append(phase + "-fresh")
        rig.sched.spawn(phase + "-fresh", fresh)
        in_id = phase + "-in"
        top_before = len(_got_ids(rig, variant))
        rig.server.send_frame(R.encode(in_stanza("receipt", in_id)))
        p = rig.shuttle()
        if not check_quiescent(phase, same_connection_required):
            return False
        if results.get(phase + "-fresh") != "ok":
            out.fail("wedged", "%s:followup_send_did_not_complete" % phase, {"results": results})
            return False
        if not same_connection_required:
            return True
        if p:
            out.fail("order", "%s:peer_cannot_decrypt" % phase, {"problem": str(p[0]), "fault": fault})
            return False
        new = []
        for f in rig.server.frames[n0:]:
            try:
                new.append(R.decode(f)[1].get("id"))
            except R.FormatError:
                new.append("<undecodable>")
        if new != ids:
            out.fail("delivery", "%s:followup_send_not_transmitted_once" % phase, {"at_server": new, "expected": ids})
            return False
        got_in = _got_ids(rig, variant)[top_before:]
        pending = [i for i in expected_in if i not in _got_ids(rig, variant)]
        # the stanza whose handling failed is lost; everything queued behind it must have arrived by now, in order
        lost_allowed = 1 if (kind in ("app_raises",) or (kind == "inject" and fault["dir"] == "up" and state.get("fired"))) else 0
        if in_id not in got_in:
            out.fail("delivery", "%s:incoming_stanza_not_delivered" % phase, {"delivered": got_in, "fault": fault})
            return False
        if len(pending) > lost_allowed:
            out.fail("delivery", "%s:queued_incoming_stanzas_lost" % phase, {"missing": pending, "fault": fault})
            return False
        all_in = [i for i in _got_ids(rig, variant) if i in expected_in]
        if all_in != [i for i in expected_in if i in all_in]:
            out.fail("order", "%s:incoming_order" % phase, {"delivered": all_in})
            return False
        real_ids = [i for i in _got_ids(rig, variant) if i is not None]
        if len(set(real_ids)) != len(real_ids):
            out.fail("delivery", "%s:incoming_duplicated" % phase, {"delivered": _got_ids(rig, variant)})
            return False
        return True

    if not follow_up("same_conn", not below_cipher):
        return out

    # ---- phase 3: reconnect, then the same follow-ups must work for every fault site
    if case.get("reconnect", True):
        state["armed"] = False
        d = rig.current

        def drop():
            if d is not None and d.up:
                d.inbox.put(("close",))
        drop()
        rig.run()
        rig.post("loop")
        rig.run()
        rig.server.reset()
        expected_in[:] = []
        if not _login(rig, variant, out, "reconnect"):
            return out
        if not follow_up("after_reconnect", True):
            return out
    nt = fired and any(len(p) > 1 for p in programs) or (fired and len(programs) >= 2)
    out.info = {"nt": bool(nt)}
    return out


def nontrivial(case, out):
    return bool(out.info and out.info.get("nt"))


def shrink_candidates(case):
    if case.get("choices"):
        yield dict(case, choices=[])
        yield dict(case, choices=case["choices"][:len(case["choices"]) // 2])
    if case.get("sub") in ("key_fetch_fault", "session_not_ready", "asyncore_dispatcher"):
        return
    if case.get("sub") == "socket_dispatcher":
        conns = case["connections"]
        for i in range(len(conns)):
            if len(conns) > 1:
                yield dict(case, connections=conns[:i] + conns[i + 1:])
            for j in range(len(conns[i])):
                yield dict(case, connections=conns[:i] + [conns[i][:j] + conns[i][j + 1:]] + conns[i + 1:])
        return
    if case.get("sub") == "login_race":
        if case["frames"] > 2:
            yield dict(case, frames=case["frames"] - 1)
        return
    if len(case["tasks"]) > 1:
        for i in range(len(case["tasks"])):
            yield dict(case, tasks=case["tasks"][:i] + case["tasks"][i + 1:])
    if case.get("incoming"):
        yield dict(case, incoming=case["incoming"][:-1])


def _sites(variant):
    s = [(n, d) for n in LAYER_NAMES for d in ("down", "up")]
    if variant == "proto":
        s += [("protocol", "down"), ("protocol", "up"), ("app", "up")]
    return s


def _enum_sites():
    for variant in ("core", "proto"):
        for site, d in _sites(variant):
            for nth in (1, 2):
                yield {"sub": "fault", "variant": variant, "fault": {"kind": "inject", "site": site, "dir": d, "nth": nth},
                       "tasks": [["ok", "ok"], ["ok"]], "incoming": ["receipt", "receipt", "receipt"], "choices": [], "reconnect": True}
        if variant == "core":
            # frames around the largest size the 24-bit length header (minus the 16-byte tag) can carry: all must be refused
            # without upsetting the session
            for size in (2 ** 24 - 16, 2 ** 24 - 15, 2 ** 24 - 1, 2 ** 24 + 5):
                yield {"sub": "fault", "variant": variant, "fault": {"kind": "oversize", "size": size},
                       "tasks": [["ok", "oversize", "ok"], ["ok"]], "incoming": ["receipt"], "choices": [], "reconnect": True}
        for kind, tasks, incoming in (("bad_attr", [["ok", "bad", "ok"], ["ok"]], ["receipt"]),
                                      ("oversize", [["ok", "oversize", "ok"], ["ok"]], ["receipt"]),
                                      ("not_ready", [["ok"], ["ok"]], ["receipt"]),
                                      ("frame_not_ready", [["ok"], ["ok"]], ["receipt"]),
                                      ("garbage", [["ok"], ["ok"]], ["receipt", "garbage", "receipt", "receipt"])):
            if kind in ("oversize", "frame_not_ready") and variant != "core":
                continue
            yield {"sub": "fault", "variant": variant, "fault": {"kind": kind}, "tasks": tasks, "incoming": incoming,
                   "choices": [], "reconnect": True}
    for kind in ("picture_bad", "streamerror_bad"):
        yield {"sub": "fault", "variant": "proto", "fault": {"kind": kind}, "tasks": [["ok"], ["ok"]],
               "incoming": ["receipt", kind, "receipt", "receipt"], "choices": [], "reconnect": True}
    yield {"sub": "fault", "variant": "proto", "fault": {"kind": "app_raises"}, "tasks": [["ok"], ["ok"]],
           "incoming": ["receipt", "receipt", "receipt"], "choices": [], "reconnect": True}
    yield {"sub": "fault", "variant": "proto", "fault": {"kind": "app_raises", "on": "success"}, "tasks": [["ok"], ["ok"]],
           "incoming": ["receipt", "receipt"], "choices": [], "reconnect": True}
    for tasks in ([["ping"], ["ok"]], [["ping", "ok"], ["ok", "ping"]]):
        yield {"sub": "fault", "variant": "proto", "fault": {"kind": "app_raises", "on": "pong"}, "tasks": tasks,
               "incoming": ["pong", "receipt", "receipt"], "choices": [], "reconnect": True}


def case_strategy():
    @st.composite
    def build(draw):
        variant = draw(st.sampled_from(["core", "proto"]))
        mode = draw(st.integers(0, 9))
        ntasks = draw(st.integers(2, 3))
        tasks = [["ok"] * draw(st.integers(1, 3)) for _ in range(ntasks)]
        incoming = ["receipt"] * draw(st.integers(0, 3))
        if mode <= 5:
            site, d = draw(st.sampled_from(_sites(variant)))
            fault = {"kind": "inject", "site": site, "dir": d, "nth": draw(st.integers(1, 4))}
        else:
            kinds = ["bad_attr", "garbage", "not_ready"] + (["oversize", "frame_not_ready"] if variant == "core" else ["picture_bad", "streamerror_bad", "app_raises"])
            kind = draw(st.sampled_from(kinds))
            fault = {"kind": kind}
            if kind == "oversize":
                fault["size"] = draw(st.sampled_from([2 ** 24 - 16, 2 ** 24 - 16, 2 ** 24 - 15, 2 ** 24, 2 ** 24 + 1000]))
            if kind in ("bad_attr", "oversize"):
                ti = draw(st.integers(0, ntasks - 1))
                pos = draw(st.integers(0, len(tasks[ti])))
                tasks[ti].insert(pos, "bad" if kind == "bad_attr" else "oversize")
            elif kind in ("garbage", "picture_bad", "streamerror_bad"):
                pos = draw(st.integers(0, len(incoming)))
                incoming.insert(pos, kind)
            elif kind == "app_raises" and variant == "proto" and draw(st.integers(0, 3)) == 0:
                fault["on"] = "success"
            elif kind == "app_raises" and draw(st.booleans()):
                fault["on"] = "pong"
                tasks[draw(st.integers(0, ntasks - 1))].insert(0, "ping")
                incoming.insert(draw(st.integers(0, len(incoming))), "pong")
            elif kind == "app_raises" and not incoming:
                incoming.append("receipt")
        choices = draw(st.lists(st.integers(0, 7), min_size=0, max_size=draw(st.sampled_from([0, 10, 60, 200]))))
        case = {"sub": "fault", "variant": variant, "fault": fault, "tasks": tasks, "incoming": incoming, "choices": choices,
                "reconnect": draw(st.booleans())}
        if not choices:
            case["preempt"] = draw(st.lists(st.tuples(st.integers(150, 700), st.integers(0, 4)).map(list), min_size=0, max_size=3))
        return case
    return build()


def login_race_strategy():
    @st.composite
    def build(draw):
        n = draw(st.integers(2, 4))
        case = {"sub": "login_race", "frames": n, "coalesced": draw(st.integers(1, n)), "overlap": draw(st.booleans()),
                "choices": draw(st.lists(st.integers(0, 7), min_size=0, max_size=draw(st.sampled_from([0, 0, 40, 200]))))}
        if not case["choices"]:
            case["preempt"] = draw(st.lists(st.tuples(st.integers(0, 600), st.integers(0, 3)).map(list), min_size=0, max_size=3))
        if draw(st.integers(0, 3)) == 0:
            case["profile_write_fails"] = True
            case["overlap"] = False
            case["tasks"] = []
        return case
    return build()


def _enum_login_race():
    for n, k in ((2, 1), (3, 1), (3, 2), (3, 3), (4, 1)):
        for overlap in (False, True):
            yield {"sub": "login_race", "frames": n, "coalesced": k, "overlap": overlap, "choices": []}


def _enum_profile_write_fault():
    """first contact, the profile cannot be written when the session is established, the server's first stanzas are already on
    their way: one preemption at every yield point"""
    base = {"sub": "login_race", "frames": 2, "coalesced": 1, "choices": [], "profile_write_fails": True, "tasks": []}
    yield dict(base)
    for k in range(0, 300):
        for sel in (0, 1, 2):
            yield dict(base, preempt=[[k, sel]])


def _enum_key_fetch_fault():
    for policies in (["error"], ["drop"], ["error", "error"], ["drop", "error"]):
        for reconnect in (False, True):
            yield {"sub": "key_fetch_fault", "policies": policies, "reconnect": reconnect, "later": 2}


def plan(tier):
    quick = tier == "quick"
    kff = st.builds(lambda p, r, n: {"sub": "key_fetch_fault", "policies": p, "reconnect": r, "later": n},
                    st.lists(st.sampled_from(["error", "drop"]), min_size=1, max_size=3), st.booleans(), st.integers(1, 3))
    how = st.sampled_from([None, None, None, "ValueError", "KeyError", "handler", "AttributeError", "OSError"])
    sockd = st.tuples(st.lists(st.lists(how, min_size=0, max_size=5), min_size=2, max_size=4), st.lists(st.booleans(), min_size=0, max_size=4)).map(
        lambda t: {"sub": "socket_dispatcher", "connections": t[0], "disconnect_after": t[1], "tasks": []})
    return {
        "shards": 16,
        "enumerations": [("every_site", _enum_sites), ("login_race_basic", _enum_login_race), ("key_fetch_fault_basic", _enum_key_fetch_fault),
                         ("profile_write_fault_sweep", _enum_profile_write_fault),
                         ("asyncore_dispatcher", lambda: iter([{"sub": "asyncore_dispatcher", "how": h, "fail_at": k, "late": late}
                                                               for h in ("ValueError", "KeyError", "handler", "AttributeError", "OSError")
                                                               for k in (0, 2) for late in (None, "before_reconnect", "after_reconnect")])),
                         ("session_not_ready", lambda: iter([{"sub": "session_not_ready", "when": w, "to": t, "content": c, "n": n}
                                                             for w in ("never_connected", "after_disconnect") for t in ("direct", "group")
                                                             for c in ("text", "media") for n in (1, 2)])),
                         ("socket_dispatcher_basic", lambda: iter([{"sub": "socket_dispatcher", "tasks": [], "connections": [[None, h, None], [None], [h], [None, None]],
                                                                    "disconnect_after": da}
                                                                   for h in ("ValueError", "KeyError", "handler", "AttributeError", "OSError")
                                                                   for da in ([], [True, False, True])]))],
        "exhaustive": ["every_site"],
        "strategies": [("faults", case_strategy(), 60 if quick else 4000), ("login_race", login_race_strategy(), 30 if quick else 2000),
                       ("key_fetch_fault", kff, 16 if quick else 300), ("socket_dispatcher", sockd, 40 if quick else 3000)],
        "shrink": "ddmin",
        "budget_s": 150 if quick else 1500,
    }

RULE += (' Also: the real socket dispatcher over scripted sockets (a layer above failing on chosen reads, a disconnect request for a connection that is already gone, reconnects); the profile write failing at the moment the session is established (eager server, complete single-preemption sweep); the application failing on the <success> stanza (the login must still be announced to the layers below).')
RULE += (" Session not ready in the encryption layers: a text / media message to a contact / a group handed down before the first connection or after the connection went down must raise to the caller (or go out), and sending works after the next connection.")
RULE += (" The asyncore dispatcher (its loop events driven by the case, a handler's exception going to handle_error as in asyncore.read): a layer above fails on a read; a connection announced as down has its socket closed, and data of the dead connection never reaches the stack around the next connection.")
