"""C20 - registration requests: token, parameter encoding, encrypted blob.

Oracles (all independent of the code under test):
  token   = base64(HMAC-SHA1(key[:64], signature || class digest || number))  via stdlib hmac
  encoding: urllib.parse.unquote / unquote_to_bytes returns the original value; splitting the parameter
            string on '&' and '=' returns the names in order
  ENC blob = 32-byte ephemeral public key || AES-GCM ciphertext; X25519 (cryptography) with the recipient's
            *private* key + 12-zero-byte nonce decrypts it to exactly urlencodeParams(params); two calls use
            different ephemeral keys
  request classes carry token = reference token of (phone minus country code)
"""
import os
import hmac
import json
import base64
import hashlib
import urllib.parse

from .. import compat  # noqa: F401
from ..core import Outcome, HarnessError
from ..kit import env as envkit
from hypothesis import strategies as st
from cryptography.hazmat.primitives.asymmetric.x25519 import X25519PrivateKey, X25519PublicKey
from cryptography.hazmat.primitives.ciphers.aead import AESGCM
from cryptography.hazmat.primitives import serialization

from yowsup.env.env_android import AndroidYowsupEnv
from yowsup.env import YowsupEnv
from yowsup.common.http.warequest import WARequest
from axolotl.ecc.curve import Curve

ID = "C20"
LEVEL = "exploration"
RULE = ("token: generated phone strings (digit strings of length 1-20, and arbitrary unicode text without surrogates); "
        "encoding/encryption: generated parameter lists of 0-12 (name, value) pairs, names [a-z_]+, values str over full "
        "unicode, bytes over all byte values, or int (negative too); fresh recipient key pair per case; request classes: "
        "generated phone/cc/mcc/mnc configs (account ids with whitespace bytes at the edges among them) in a scratch profile, with 0-3 generated parameters added by the caller through addParam (str and bytes, whitespace at the edges), checked as built and as sent through WARequest.send() into a recording "
        "HTTPS connection (the blob is opened with the private half of a key pair the harness substitutes for the server's). Non-trivial = some value needs an escape, contains a "
        "byte >= 0x80 or one of '-', '_', '~', '&', '=' (token cases: the number is not plain ASCII digits or is longer "
        "than 15). Distinct = distinct canonical JSON.")
ASSUMPTIONS = [
    "the three token constants are pinned for the pinned WhatsApp version; when the environment's version string differs "
    "from the pinned one the constants are read from the environment (a legitimate version bump is not a violation)",
    "urllib.parse, hmac, hashlib and cryptography's X25519/AES-GCM are trusted as the independent side",
    "surrogate code points are excluded (they cannot be UTF-8 encoded by any implementation)",
]

with open(os.path.join(os.path.dirname(__file__), "..", "ref", "token_constants.json")) as _f:
    PIN = json.load(_f)

_env = AndroidYowsupEnv()


def ref_token(number):
    if AndroidYowsupEnv._VERSION == PIN["version"]:
        key, sig, cls = PIN["key"], PIN["signature"], PIN["md5_classes"]
    else:
        key, sig, cls = AndroidYowsupEnv._KEY, AndroidYowsupEnv._SIGNATURE, AndroidYowsupEnv._MD5_CLASSES
    k = base64.b64decode(key)[:64]
    data = base64.b64decode(sig) + base64.b64decode(cls) + number.encode("utf-8")
    return base64.b64encode(hmac.new(k, data, hashlib.sha1).digest())


def selftest():
    # HMAC reference sanity (RFC 2202 test case 2)
    if hmac.new(b"Jefe", b"what do ya want for nothing?", hashlib.sha1).hexdigest() != "effcdf6ae5eb2fa2d27416d5f184df9c259a7c79":
        raise HarnessError("stdlib hmac broken?")


def decode_value(v):
    """case value -> python value"""
    t = v[0]
    if t == "s":
        return v[1]
    if t == "b":
        return bytes.fromhex(v[1])
    return int(v[1])


def value_nontrivial(val):
    if isinstance(val, bytes):
        return any(b >= 0x80 or not (chr(b).isalnum() or chr(b) == ".") for b in val)
    s = str(val)
    return any(not (c.isascii() and (c.isalnum() or c == ".")) for c in s)


def check_encoding(out, params):
    try:
        enc = WARequest.urlencodeParams(params)
    except Exception as e:
        out.fail("encoding", "encoding:raises:%s" % type(e).__name__, {"error": repr(e)})
        return None
    if not isinstance(enc, str):
        out.fail("encoding", "encoding:not_a_string", {"type": type(enc).__name__})
        return None
    if not params:
        if enc != "":
            out.fail("encoding", "encoding:empty_params_not_empty", {"got": enc})
        return enc
    parts = enc.split("&")
    if len(parts) != len(params):
        out.fail("encoding", "encoding:pair_count", {"got": len(parts), "expected": len(params), "enc": enc[:200]})
        return enc
    for (name, val), part in zip(params, parts):
        if part.count("=") != 1:
            out.fail("encoding", "encoding:unescaped_separator", {"part": part[:200]})
            return enc
        n, v = part.split("=")
        if n != name:
            out.fail("encoding", "encoding:name_or_order", {"got": n, "expected": name})
            return enc
        if any(ord(c) > 127 for c in v):
            out.fail("encoding", "encoding:non_ascii_output", {"part": part[:200]})
            return enc
        if isinstance(val, bytes):
            back = urllib.parse.unquote_to_bytes(v)
            if back != val:
                out.fail("encoding", "encoding:bytes_value_not_restored", {"value": val.hex()[:100], "encoded": v[:200]})
                return enc
        else:
            try:
                back = urllib.parse.unquote(v, encoding="utf-8", errors="strict")
            except UnicodeDecodeError as e:
                # a standard decoder cannot read the value at all
                out.fail("encoding", "encoding:value_not_decodable", {"value": repr(val)[:100], "encoded": v[:200], "error": str(e)[:100]})
                return enc
            if back != str(val):
                out.fail("encoding", "encoding:value_not_restored", {"value": repr(val)[:100], "encoded": v[:200], "back": repr(back)[:100]})
                return enc
    return enc


def run_case(case):
    out = Outcome()
    sub = case["sub"]
    if sub == "token":
        number = case["number"]
        plain = number.isascii() and number.isdigit()
        out.label("token", "digits" if plain else "text")
        out.info = {"nt": (not plain) or len(number) > 15}
        try:
            got = _env.getToken(number)
        except Exception as e:
            out.fail("token", "token:raises:%s" % type(e).__name__, {"number": number, "error": repr(e)})
            return out
        exp = ref_token(number)
        gotb = got if isinstance(got, bytes) else str(got).encode()
        if gotb != exp:
            out.fail("token", "token:differs", {"number": number, "got": gotb.decode("latin-1"), "expected": exp.decode()})
        return out
    if sub == "params":
        params = [(n, decode_value(v)) for n, v in case["params"]]
        kinds = sorted(set(v[0] for n, v in case["params"]))
        out.label("params", *["value:" + k for k in kinds])
        nt = any(value_nontrivial(v) for n, v in params)
        out.info = {"nt": nt}
        if nt:
            out.label("needs_escape")
        enc = check_encoding(out, params)
        if enc is None or out.violations:
            return out
        # encrypted blob
        priv = X25519PrivateKey.from_private_bytes(bytes.fromhex(case["recipient"]))
        pub = priv.public_key().public_bytes(serialization.Encoding.Raw, serialization.PublicFormat.Raw)
        ec_pub = Curve.decodePoint(bytearray(b"\x05" + pub), 0)
        req = WARequest.__new__(WARequest)   # encryptParams uses no instance state
        blobs = []
        import random as _random
        for _ in range(2):
            # "fresh" must not rest on the state of the process-wide random module, which applications and test frameworks
            # re-seed at will: with `reseed` both requests start from the same state of it
            _state = _random.getstate()
            if case.get("reseed") is not None:
                _random.seed(case["reseed"])
                out.label("process_wide_random_reseeded_before_each_request")
            try:
                res = req.encryptParams(params, ec_pub)
            except Exception as e:
                _random.setstate(_state)
                out.fail("enc", "enc:raises:%s" % type(e).__name__, {"error": repr(e)})
                return out
            _random.setstate(_state)
            if not (isinstance(res, list) and len(res) == 1 and res[0][0] == "ENC"):
                out.fail("enc", "enc:shape", {"got": repr(res)[:200]})
                return out
            try:
                raw = base64.b64decode(res[0][1], validate=True)
            except Exception as e:
                out.fail("enc", "enc:not_base64", {"error": repr(e)})
                return out
            blobs.append(raw)
            if len(raw) < 32 + 16:
                out.fail("enc", "enc:too_short", {"len": len(raw)})
                return out
            eph, ct = raw[:32], raw[32:]
            shared = priv.exchange(X25519PublicKey.from_public_bytes(eph))
            try:
                pt = AESGCM(shared).decrypt(b"\x00" * 12, ct, b"")
            except Exception:
                try:
                    pt = AESGCM(shared).decrypt(b"\x00" * 12, ct, None)
                except Exception as e:
                    out.fail("enc", "enc:does_not_decrypt", {"error": repr(e), "len": len(raw)})
                    return out
            if pt != enc.encode():
                out.fail("enc", "enc:plaintext_differs", {"got": pt[:200].decode("latin-1"), "expected": enc[:200]})
                return out
        if blobs[0][:32] == blobs[1][:32]:
            out.fail("enc", "enc:ephemeral_key_reused", {"eph": blobs[0][:32].hex()})
        return out
    if sub == "request":
        return _request_case(case, out)
    raise ValueError(sub)


def _request_case(case, out):
    from yowsup.config.v1.config import Config
    from yowsup.profile.profile import YowProfile
    from yowsup.registration.coderequest import WACodeRequest
    from yowsup.registration.regrequest import WARegRequest
    from yowsup.registration.existsrequest import WAExistsRequest
    from consonance.structs.keypair import KeyPair
    home = envkit.fresh_home("c20")
    try:
        cc = case["cc"]
        local = case["local"]
        phone = cc + local
        cfg = Config(phone=phone, cc=cc, id=bytes.fromhex(case["id"]) if case.get("id") else None,
                     mcc=case["mcc"], mnc=case["mnc"], sim_mcc=case["mcc"], sim_mnc=case["mnc"],
                     client_static_keypair=KeyPair.generate())
        prof = cfg   # callers (yowsup-cli) hand the Config itself to the request classes
        which = case["which"] % 3
        out.label("request:" + ("code", "exists", "reg")[which])
        out.info = {"nt": True}
        if which == 0:
            req = WACodeRequest(case.get("method", "sms"), prof)
        elif which == 1:
            if cfg.id is None:
                cfg.id = b"\x01" * 20
            req = WAExistsRequest(prof)
        else:
            if cfg.id is None:
                cfg.id = b"\x02" * 20
            req = WARegRequest(prof, "123456")
        # parameters the caller adds itself (as the cli does for e.g. a sim operator): they travel exactly as given
        extra = []
        for n, v in case.get("extra", []):
            val = v[1] if v[0] == "s" else bytes.fromhex(v[1]) if v[0] == "b" else int(v[1])
            req.addParam("x_" + n, val)
            extra.append(("x_" + n, val))
        if extra:
            out.label("caller_added_parameters")
        names = [n for n, v in req.params]
        d = dict(req.params)
        for n, val in extra:
            if n not in d or d[n] != val or type(d[n]) is not type(val):
                out.fail("request", "request:added_parameter_altered", {"name": n, "given": repr(val)[:80], "held": repr(d.get(n))[:80]})
                break
        if which in (1, 2) and d.get("id") is not None and bytes(d["id"] if isinstance(d["id"], (bytes, bytearray)) else str(d["id"]).encode("latin-1")) != bytes(cfg.id):
            out.fail("request", "request:account_id_differs_from_configuration", {"configured": bytes(cfg.id).hex(), "held": repr(d.get("id"))[:80]})
        if d.get("cc") != cc or d.get("in") != local:
            out.fail("request", "request:number_split", {"cc": d.get("cc"), "in": d.get("in"), "phone": phone})
        if which in (0, 1):
            if "token" not in d:
                out.fail("request", "request:token_missing", {"names": names})
            else:
                tok = d["token"]
                tok = tok if isinstance(tok, bytes) else str(tok).encode()
                if tok != ref_token(local):
                    out.fail("request", "request:token_differs", {"got": tok.decode("latin-1"), "expected": ref_token(local).decode()})
        check_encoding(out, req.params)
        if not out.violations:
            if case.get("debug_logging"):
                # what `yowsup-cli -d` runs with: what is sent does not depend on the logging configuration
                import logging
                lg = logging.getLogger("yowsup.common.http.warequest")
                handler = logging.NullHandler()
                saved = (lg.level, lg.propagate)
                lg.addHandler(handler)
                lg.propagate = False
                lg.setLevel(logging.DEBUG)
                out.label("request_sent_with_debug_logging")
                try:
                    _send_path(out, req, case)
                finally:
                    lg.setLevel(saved[0])
                    lg.propagate = saved[1]
                    lg.removeHandler(handler)
            else:
                _send_path(out, req, case)
        if not out.violations and case.get("also_plain"):
            cfg2 = Config(phone=phone, cc=cc, id=cfg.id, mcc=case["mcc"], mnc=case["mnc"], sim_mcc=case["mcc"], sim_mnc=case["mnc"],
                          client_static_keypair=cfg.client_static_keypair)
            req2 = (WACodeRequest(case.get("method", "sms"), cfg2) if which == 0 else WAExistsRequest(cfg2) if which == 1
                    else WARegRequest(cfg2, "123456"))
            _send_path(out, req2, case, encrypt=False)
    finally:
        envkit.drop_home(home)
    return out


class _FakeResponse(object):
    status = 200

    def read(self):
        return b'{"status": "fail", "reason": "incorrect"}'


class _FakeConn(object):
    calls = []

    def __init__(self, host, port=None, *a, **kw):
        self.host, self.port = host, port

    def request(self, method, path, body=None, headers=None):
        _FakeConn.calls.append((self.host, self.port, method, path, body, dict(headers or {})))

    def getresponse(self):
        return _FakeResponse()


def _send_path(out, req, case, encrypt=True):
    """the request as it leaves through WARequest.send(): one GET whose query is ENC=<blob>; the blob, opened with the private key
    that belongs to the public key the request class encrypts for (substituted by the harness), holds exactly the parameters of
    the request, in order; host, path and User-Agent are those of the request"""
    import base64
    import urllib.parse
    from yowsup.common.http import warequest as W
    from yowsup.env import YowsupEnv
    from axolotl.ecc.curve import Curve
    from cryptography.hazmat.primitives.ciphers.aead import AESGCM
    kp = Curve.generateKeyPair()
    saved = (W.WARequest.ENC_PUBKEY, W.httplib.HTTPSConnection, W.httplib.HTTPConnection)
    del _FakeConn.calls[:]
    W.WARequest.ENC_PUBKEY = kp.publicKey
    W.httplib.HTTPSConnection = _FakeConn
    W.httplib.HTTPConnection = _FakeConn
    params_before = list(req.params)
    try:
        try:
            req.send(encrypt=encrypt)
        except Exception as e:
            out.fail("request", "request:send_raises:%s" % type(e).__name__, {"error": repr(e)[:300]})
            return
    finally:
        W.WARequest.ENC_PUBKEY, W.httplib.HTTPSConnection, W.httplib.HTTPConnection = saved
    out.label("request_sent" if encrypt else "request_sent_unencrypted")
    # a code request for an account that already has an id asks /v2/exist first (answered "fail" here, so the code request follows)
    if len(_FakeConn.calls) not in (1, 2):
        out.fail("request", "request:http_requests_%d" % len(_FakeConn.calls), {})
        return
    if len(_FakeConn.calls) == 2:
        out.label("exists_request_first")
    params_sent = list(req.params)     # (send() may complete the parameters, e.g. with a freshly generated id)
    if params_sent[:len(params_before)] != params_before:
        changed = [n for (n, v), (n2, v2) in zip(params_before, params_sent) if (n, v) != (n2, v2)]
        out.fail("request", "request:parameters_changed_by_sending", {"changed": changed[:5]})
        return
    host, port, method, path, body, headers = _FakeConn.calls[-1]
    exp_host, exp_port, exp_path = req.getConnectionParameters()
    if (host, port, method) != (exp_host, exp_port, "GET") or not path.startswith(exp_path + "?"):
        out.fail("request", "request:wrong_endpoint", {"host": host, "port": port, "method": method, "path": path[:80]})
        return
    if headers.get("User-Agent") != YowsupEnv.getCurrent().getUserAgent():
        out.fail("request", "request:user_agent_differs", {"got": headers.get("User-Agent")})
        return
    query = path[len(exp_path) + 1:]
    pairs = query.split("&")
    if not encrypt:
        got = []
        for part in pairs if query else []:
            n, _, v = part.partition("=")
            got.append((n, urllib.parse.unquote_to_bytes(v)))
        exp = [(n, v if isinstance(v, bytes) else str(v).encode("utf-8")) for n, v in params_sent]
        if got != exp:
            out.fail("request", "request:sent_parameters_differ:unencrypted", {"got": [g[0] for g in got], "expected": [e[0] for e in exp]})
        return
    if len(pairs) != 1 or not pairs[0].startswith("ENC="):
        out.fail("request", "request:query_is_not_one_enc_parameter", {"names": [p.split("=")[0] for p in pairs][:6]})
        return
    try:
        blob = base64.b64decode(urllib.parse.unquote_to_bytes(pairs[0][4:]))
        eph, ct = blob[:32], blob[32:]
        from axolotl.ecc.djbec import DjbECPublicKey
        shared = Curve.calculateAgreement(DjbECPublicKey(eph), kp.privateKey)
        plain = AESGCM(bytes(shared)).decrypt(b"\x00" * 4 + b"\x00" * 8, bytes(ct), b"")
    except Exception as e:
        out.fail("request", "request:blob_does_not_open:%s" % type(e).__name__, {"error": repr(e)[:200]})
        return
    got = []
    for part in plain.decode("ascii", "replace").split("&") if plain else []:
        n, _, v = part.partition("=")
        got.append((n, urllib.parse.unquote_to_bytes(v)))
    exp = []
    for n, v in params_sent:
        exp.append((n, v if isinstance(v, bytes) else str(v).encode("utf-8")))
    if got != exp:
        out.fail("request", "request:sent_parameters_differ", {"got": [g[0] for g in got], "expected": [e[0] for e in exp],
                                                               "first_difference": next((i for i, (a, b) in enumerate(zip(got, exp)) if a != b), min(len(got), len(exp)))})


def nontrivial(case, out):
    return bool(out.info and out.info.get("nt"))


_name = st.text(alphabet="abcdefghijklmnopqrstuvwxyz_", min_size=1, max_size=12)
_uni = st.text(alphabet=st.characters(blacklist_categories=("Cs",)), min_size=0, max_size=30)
_special = st.text(alphabet=st.sampled_from("-_~.&=%+ /?#\x00\x7f\x80\xff€\U0001F600aZ09"), min_size=0, max_size=16)
_value = st.one_of(
    st.one_of(_uni, _special, st.text(alphabet="abcXYZ019", max_size=10)).map(lambda s: ["s", s]),
    st.binary(min_size=0, max_size=40).map(lambda b: ["b", b.hex()]),
    st.integers(-10 ** 12, 10 ** 12).map(lambda i: ["i", str(i)]),
)


def plan(tier):
    quick = tier == "quick"
    digits = st.text(alphabet="0123456789", min_size=1, max_size=20)
    token = st.one_of(digits, digits, _uni.filter(lambda s: len(s) > 0), _special.filter(lambda s: len(s) > 0)).map(
        lambda s: {"sub": "token", "number": s})
    params = st.builds(lambda ps, r, rs: dict({"sub": "params", "params": [[n, v] for n, v in ps], "recipient": r.hex()},
                                              **({"reseed": rs} if rs is not None else {})),
                       st.lists(st.tuples(_name, _value), min_size=0, max_size=12),
                       st.binary(min_size=32, max_size=32), st.one_of(st.none(), st.none(), st.integers(0, 2 ** 32 - 1)))
    _edge = st.builds(lambda a, core, b: a + core + b, st.sampled_from(["", " ", "\t", "\n", "\r", "\x0b", "\x0c"]),
                      st.binary(min_size=0, max_size=18).map(lambda x: x.decode("latin-1")), st.sampled_from(["", " ", "\t", "\n", "\r"]))
    idb_st = st.one_of(st.none(), st.binary(min_size=20, max_size=20).map(lambda b: b.hex()),
                       _edge.map(lambda s: (s.encode("latin-1") + b"\x00" * 20)[:19].hex() + "20"),
                       _edge.map(lambda s: "09" + (s.encode("latin-1") + b"\x01" * 20)[:19].hex()))
    extra_st = st.lists(st.tuples(st.text(alphabet="abcdefgh", min_size=1, max_size=5),
                                  st.one_of(_value, _edge.map(lambda s: ["s", s]), _edge.map(lambda s: ["b", s.encode("latin-1").hex()]))).map(list),
                        min_size=0, max_size=3, unique_by=lambda t: t[0])
    request = st.builds(lambda cc, local, mcc, mnc, which, idb, plain, extra: {"sub": "request", "cc": cc, "local": local, "mcc": mcc,
                                                                              "mnc": mnc, "which": which, "id": idb, "also_plain": plain,
                                                                              "extra": extra},
                        st.text(alphabet="123456789", min_size=1, max_size=3), st.text(alphabet="0123456789", min_size=4, max_size=12),
                        st.text(alphabet="0123456789", min_size=1, max_size=3), st.text(alphabet="0123456789", min_size=1, max_size=3),
                        st.integers(0, 2), idb_st, st.booleans(), extra_st)
    request = st.tuples(request, st.booleans()).map(lambda t: dict(t[0], **({"debug_logging": True} if t[1] else {})))
    return {
        "shards": 16,
        "enumerations": [],
        "strategies": [
            ("token", token, 120 if quick else 5000),
            ("params", params, 200 if quick else 15000),
            ("request", request, 30 if quick else 600),
        ],
        "shrink": "hypothesis",
        "budget_s": 120 if quick else 1200,
    }

RULE += (" The request is also sent with the library's logger at DEBUG; the parameters held by the request object are compared with a snapshot taken before sending.")
RULE += (" In a third of the parameter cases the process-wide random module is re-seeded to the same value before each of the two encryptions; the ephemeral keys must still differ.")
