"""C08 - request/response correlation: each reply reaches its request's callback once.

Generated histories over the real protocol layer set (with or without the encryption layers) under an interface-layer
application; a dict model (id -> request, state) runs in lock-step and the callback log must equal the model's after every
step.  Non-replies / replays / unknown ids must be handled exactly like on a fresh identical stack with empty registries.
"""
from .. import compat  # noqa: F401
from ..core import Outcome
from ..gen import entities as E
from ..gen import shapes as S
from ..gen import stanzas as G
from ..kit import trees as T
from ..kit.protokit import ProtoRig
from hypothesis import strategies as st

from ..kit import peerkeys
from ..kit.protokit import OWN_PHONE

from yowsup.layers.interface import YowInterfaceLayer, ProtocolEntityCallback
from yowsup.structs import ProtocolTreeNode

OWN_JID = OWN_PHONE + "@s.whatsapp.net"
CONTACTS = ["4915100000011@s.whatsapp.net", "4915100000012@s.whatsapp.net", "4915100000013@s.whatsapp.net"]
GROUP = "4915100000011-1500000000@g.us"
GROUP_MEMBERS = [OWN_JID, "4915100000014@s.whatsapp.net", "4915100000015@s.whatsapp.net"]
TARGETS = CONTACTS + [GROUP]

ID = "C08"
LEVEL = "exploration"
RULE = ("generated histories of 2-14 operations: request(kind) for every request kind with a defined reply entity (ping, last seen, "
        "picture get, statuses get, status set, privacy get, group create/leave/info/list/participants/add/remove/subject/promote/"
        "demote, contact sync, media upload) issued through YowInterfaceLayer._sendIq with recording callbacks (both, only the success, only the error callback or none registered) (the media upload also through "
        "the interface layer's own _sendMediaMessage with a result naming an existing copy or an error reply, each delivered twice); reply(i, result|error) "
        "to any issued request in any order with a result stanza of the kind's catalogued shape (in about a fifth of the requests the reply "
        "is processed while the sender is still inside the send call, as a reader thread can do); replay(i); reply with an unknown id; "
        "non-reply stanza (receipt / ack / notification) carrying the id of request i; server iq type=get with a fresh id or with the "
        "id of an outstanding request; with the encryption layers also library-internal requests (key fetch for a first message, group "
        "info + key fetch for a first group message) answered by harness-built key bundles. Non-trivial = at least 2 requests "
        "outstanding at once and answered out of order, or a replay / unknown id / same-id non-reply present. Distinct = canonical JSON.")
ASSUMPTIONS = [
    "result stanzas follow the catalogued shape of the request's reply entity, error stanzas the documented <error code text> shape",
    "for the separately labelled class 'server iq type=get that carries the id of an outstanding request' the model keeps the request "
    "outstanding (no callback; a later real reply still reaches its callback)",
]

# request SEND record -> (result: RECV record name or None for the generic result shape, module)
KINDS = [
    ("PingIqProtocolEntity", "ResultIqProtocolEntity"),
    ("LastseenIqProtocolEntity", "ResultLastseenIqProtocolEntity"),
    ("GetPictureIqProtocolEntity", "ResultGetPictureIqProtocolEntity"),
    ("GetStatusesIqProtocolEntity", "ResultStatusesIqProtocolEntity"),
    ("SetStatusIqProtocolEntity", None),
    ("GetPrivacyIqProtocolEntity", "ResultPrivacyIqProtocolEntity"),
    ("CreateGroupsIqProtocolEntity", "SuccessCreateGroupsIqProtocolEntity"),
    ("LeaveGroupsIqProtocolEntity", "SuccessLeaveGroupsIqProtocolEntity"),
    ("InfoGroupsIqProtocolEntity", "InfoGroupsResultIqProtocolEntity"),
    ("ListGroupsIqProtocolEntity", "ListGroupsResultIqProtocolEntity"),
    ("ParticipantsGroupsIqProtocolEntity", "ListParticipantsResultIqProtocolEntity"),
    ("AddParticipantsIqProtocolEntity", "SuccessAddParticipantsIqProtocolEntity"),
    ("RemoveParticipantsIqProtocolEntity", "SuccessRemoveParticipantsIqProtocolEntity"),
    ("SubjectGroupsIqProtocolEntity", None),
    ("PromoteParticipantsIqProtocolEntity", None),
    ("DemoteParticipantsIqProtocolEntity", None),
    ("GetSyncIqProtocolEntity", "ResultSyncIqProtocolEntity"),
    ("RequestUploadIqProtocolEntity", "ResultRequestUploadIqProtocolEntity"),
]
KIND_RESULT = dict(KINDS)
GENERIC_RESULT = S.N("iq", {"type": S.CONST("result"), "id": S.ID, "from": S.ONEOF(S.CONST("s.whatsapp.net"), S.AJID)})
ERROR_SHAPE = S.N("iq", {"type": S.CONST("error"), "id": S.ID, "from": S.ONEOF(S.CONST("s.whatsapp.net"), S.AJID)},
                  children=[S.N("error", {"text": S.WORD("not-acceptable", "item-not-found", "forbidden", "internal-server-error"),
                                          "code": S.WORD("406", "404", "403", "500"), "backoff": S.OPT(S.COUNT)})])


class App(YowInterfaceLayer):
    """the application: the interface layer's own receive() runs (registry first, then entity callbacks, otherwise upward);
    what it hands upward - an ordinary entity - is recorded"""

    def __init__(self):
        super(App, self).__init__()
        self.got = []
        self.log = []

    def toUpper(self, entity):
        self.got.append(entity)


class AppWithIqHandler(App):
    """an application that also declares a general handler for iq entities (as the bundled cli demo does): replies to its own
    requests still go to the callbacks registered with the request, everything else of that kind to the handler"""

    @ProtocolEntityCallback("iq")
    def on_iq(self, entity):
        self.got.append(entity)


def set_id(tree, ident):
    tag, attrs, content = tree
    attrs = dict(attrs)
    attrs["id"] = ident
    return (tag, attrs, content)


def describe_entity(e):
    try:
        return (type(e).__name__, T.from_node(e.toProtocolTreeNode()))
    except Exception as ex:
        return (type(e).__name__, "unserialisable:%s" % type(ex).__name__)


def snapshot(rig, n_top, n_bottom):
    return ([describe_entity(e) for e in rig.top.got[n_top:]], [T.from_node(s) for s in rig.bottom.sent[n_bottom:]])


class _MediaBuilder(object):
    """what an application hands to YowInterfaceLayer._sendMediaMessage: media type, file, recipient, and build(url, ip)"""

    def __init__(self, media_type, path, jid):
        self.mediaType = media_type
        self.jid = jid
        self._path = path

    def getFilepath(self):
        return self._path

    def isEncrypted(self):
        return False

    def build(self, url, ip=None):
        return ("built", url, ip)


def run_media_case(case):
    """the interface layer's own media request: _sendMediaMessage(builder, success, error) sends the upload request; a result
    that names an existing copy (<duplicate>) reaches success with the built message, an error reply reaches error - once"""
    import os
    import tempfile
    out = Outcome()
    axolotl = bool(case.get("axolotl"))
    out.label("media_request:" + case["mode"], "axolotl" if axolotl else "plain")
    out.info = {"nt": True}
    fd, path = tempfile.mkstemp(prefix="c08_media_")
    os.write(fd, bytes.fromhex(case["content"]))
    os.close(fd)
    rig = ProtoRig([True, True, True, True], axolotl, top_cls=App)
    try:
        app = rig.top
        calls = []
        b = _MediaBuilder(case["mediatype"], path, "4915100000022@s.whatsapp.net")
        try:
            app._sendMediaMessage(b, lambda built: calls.append(("success", built)),
                                  lambda code, text, backoff: calls.append(("error", code, text, backoff)))
        except Exception as e:
            out.fail("request", "media_request:raises:%s" % type(e).__name__, {"error": repr(e)[:300]})
            return out
        reqs = [n for n in rig.bottom.sent if n.tag == "iq" and n["xmlns"] == "w:m"]
        if len(reqs) != 1:
            out.fail("request", "media_request:not_transmitted_once", {"n": len(reqs)})
            return out
        rid = reqs[0]["id"]
        if case["mode"] == "duplicate":
            reply = ("iq", {"type": "result", "id": rid, "from": "s.whatsapp.net"},
                     [("duplicate", {"url": case["url"], "ip": case.get("ip") or "1.2.3.4", "mimetype": "image/jpeg", "filehash": "h", "size": "1",
                                     "type": case["mediatype"], "width": "1", "height": "1"}, None)])
            expected = [("success", ("built", case["url"], case.get("ip") or "1.2.3.4"))]
        else:
            reply = ("iq", {"type": "error", "id": rid, "from": "s.whatsapp.net"},
                     [("error", {"code": case["code"], "text": case["text"]}, None)])
            expected = None
        for k in range(2):      # the reply, then the same reply again
            try:
                rig.inject(T.to_node(reply))
            except Exception as e:
                out.fail("callbacks", "media_request:%s:reply_raises:%s" % (case["mode"], type(e).__name__), {"error": repr(e)[:300], "delivery": k})
                return out
            if case["mode"] == "duplicate":
                ok = calls == expected
            else:
                ok = len(calls) == 1 and calls[0][0] == "error" and str(calls[0][1]) == case["code"] and calls[0][2] == case["text"]
            if not ok:
                out.fail("callbacks", "media_request:%s:%s" % (case["mode"], "callback_missing" if not calls else "wrong_or_repeated_callback"),
                         {"calls": [c[0] for c in calls], "delivery": k})
                return out
        return out
    finally:
        rig.close()
        os.unlink(path)


def run_case(case):
    if case.get("sub") == "media":
        return run_media_case(case)
    out = Outcome()
    axolotl = bool(case.get("axolotl"))
    app_cls = AppWithIqHandler if case.get("iq_handler") else App
    if case.get("iq_handler"):
        out.label("application_declares_an_iq_handler")
    rig = ProtoRig([True, True, True, True], axolotl, top_cls=app_cls)
    try:
        return _run(case, out, rig, axolotl)
    finally:
        rig.close()


def _run(case, out, rig, axolotl):
    app = rig.top
    issued = []           # {"id", "kind", "entity", "state", "last_reply"}
    expected_log = []
    max_outstanding = 0
    out_of_order = False
    special = False
    answered_order = []
    out.label("axolotl" if axolotl else "plain")

    internal = []         # library-internal requests seen on the wire: {"id", "tree", "state", "last_reply"}
    messages = []         # ids of messages handed to the stack
    internal_error = [False]
    app_ids = set()

    def scan_internal():
        for s_ in rig.bottom.sent:
            if s_.tag == "iq" and s_["type"] in ("get", "set") and s_["id"] not in app_ids \
                    and s_["id"] not in [r["id"] for r in internal]:
                internal.append({"id": s_["id"], "tree": T.from_node(s_), "state": "outstanding", "last_reply": None})

    def craft_internal_reply(req, mode):
        tag, attrs, content = req["tree"]
        if mode == "error":
            return ("iq", {"type": "error", "id": req["id"], "from": "s.whatsapp.net"}, [("error", {"code": "404", "text": "item-not-found"}, None)])
        if attrs.get("xmlns") == "encrypt" and attrs.get("type") == "get":
            jids = [u[1]["jid"] for k in (content or []) if k[0] == "key" for u in (k[2] or [])]
            return peerkeys.keys_result(req["id"], jids)
        if attrs.get("xmlns") == "w:g2":
            return peerkeys.group_info_result(req["id"], attrs.get("to"), GROUP_MEMBERS)
        return ("iq", {"type": "result", "id": req["id"], "from": "s.whatsapp.net"}, None)

    def message_count(mid):
        return len([s_ for s_ in rig.bottom.sent if s_.tag == "message" and s_["id"] == mid])

    def ok_cb(idx):
        return lambda entity, original: app.log.append(("success", idx, original))

    def err_cb(idx):
        return lambda entity, original: app.log.append(("error", idx, original))

    def compare_log(step, op):
        got = [(k, i) for k, i, o in app.log]
        if got != expected_log:
            kind = issued[op_target[0]]["kind"] if op_target and op_target[0] is not None and issued else "-"
            what = "callback_missing" if len(got) < len(expected_log) else "unexpected_callback"
            if len(got) == len(expected_log):
                what = "wrong_callback"
            out.fail("callbacks", "iq_reply:%s:%s:%s" % (kind, op[0] + (":" + str(op[2]) if op[0] == "reply" else ""), what),
                     {"step": step, "op": op[:3], "callbacks": got[-4:], "expected": expected_log[-4:]})
            return False
        for k, i, o in app.log:
            if o is not issued[i]["entity"]:
                out.fail("callbacks", "iq_reply:%s:original_request_not_attached" % issued[i]["kind"], {"step": step})
                return False
        return True

    def fresh_effect(node_tree):
        fresh = ProtoRig([True, True, True, True], axolotl, top_cls=type(rig.top))
        try:
            fresh.inject(T.to_node(node_tree))
            return snapshot(fresh, 0, 0), None
        except Exception as e:
            return None, e
        finally:
            fresh.close()

    def ordinary(step, op, node_tree):
        """inject and require the same visible effect as on a fresh identical stack"""
        n_top, n_bottom = len(app.got), len(rig.bottom.sent)
        exp, exp_exc = fresh_effect(node_tree)
        try:
            rig.inject(T.to_node(node_tree))
            got, got_exc = snapshot(rig, n_top, n_bottom), None
        except Exception as e:
            got, got_exc = None, e
        if (exp_exc is None) != (got_exc is None) or (exp_exc is not None and type(exp_exc) is not type(got_exc)):
            out.fail("ordinary", "non_reply:%s:differs_from_fresh_stack:exception" % op[0], {"step": step, "fresh": repr(exp_exc), "here": repr(got_exc)})
            return False
        if exp != got:
            out.fail("ordinary", "non_reply:%s:differs_from_fresh_stack" % op[0],
                     {"step": step, "fresh_top": [e[0] for e in exp[0]], "here_top": [e[0] for e in got[0]],
                      "fresh_bottom": len(exp[1]), "here_bottom": len(got[1])})
            return False
        return True

    for step, op in enumerate(case["ops"]):
        op_target = [None]
        kind = op[0]
        if kind == "req":
            rec = E.by_name(op[1])
            cls = rec.load()
            args = [S.unjson_val(a) for a in op[2]]
            # ids are left to the library (the property is about its process-wide counter)
            kwargs = {k: S.unjson_val(v) for k, v in op[3].items() if k not in ("_id", "id", "_cbs")}
            ent = cls(*args, **kwargs)
            idx = len(issued)
            # which callbacks the application registers with the request: both, only one of them, or none
            cbs = op[3].get("_cbs", "both")
            if cbs != "both":
                out.label("callbacks_registered=" + cbs)
            n_bottom = len(rig.bottom.sent)
            app_ids.add(ent.getId())
            sync = op[4] if len(op) > 4 else None
            sync_exc = []
            if sync:
                # the reply is processed (by the connection's reader) while the sending thread is still inside the send call
                sync_tree = set_id(G.materialize(op[5]), ent.getId())

                def answer_now(_node, _t=sync_tree):
                    try:
                        rig.inject(T.to_node(_t))
                    except Exception as e:
                        sync_exc.append(e)
                rig.bottom.on_send = answer_now
            n_got = len(app.got)
            app._sendIq(ent, ok_cb(idx) if cbs in ("both", "ok") else None, err_cb(idx) if cbs in ("both", "err") else None)
            rig.bottom.on_send = None
            new = rig.bottom.sent[n_bottom:]
            if len(new) != 1 or new[0]["id"] != ent.getId():
                out.fail("request", "request:%s:not_transmitted_once" % op[1], {"step": step, "n": len(new)})
                return out
            app_ids.add(ent.getId())
            issued.append({"id": ent.getId(), "kind": op[1], "entity": ent, "state": "outstanding", "last_reply": None, "cbs": cbs})
            out.label("req:" + op[1].replace("ProtocolEntity", ""))
            if sync:
                op_target[0] = idx
                special = True
                out.label("reply_inside_send:" + sync)
                if sync_exc:
                    out.fail("callbacks", "iq_reply:%s:reply_inside_send:%s:raises:%s" % (op[1], sync, type(sync_exc[0]).__name__),
                             {"step": step, "error": repr(sync_exc[0])[:300]})
                    return out
                if cbs == "both" or cbs == ("ok" if sync == "result" else "err"):
                    expected_log.append(("success" if sync == "result" else "error", idx))
                issued[-1]["state"] = "answered"
                issued[-1]["last_reply"] = sync_tree
                if len(app.got) != n_got:
                    out.fail("callbacks", "iq_reply:%s:reply_inside_send:%s:also_delivered_as_ordinary_entity" % (op[1], sync),
                             {"step": step, "extra": [type(e).__name__ for e in app.got[n_got:]]})
                    return out
            max_outstanding = max(max_outstanding, len([r for r in issued if r["state"] == "outstanding"]))
        elif kind == "reply":
            if not issued:
                continue
            i = op[1] % len(issued)
            op_target[0] = i
            r = issued[i]
            mode = op[2]
            tree = set_id(G.materialize(op[3]), r["id"])
            if r["state"] == "outstanding":
                if r.get("cbs", "both") == "both" or r.get("cbs") == ("ok" if mode == "result" else "err"):
                    # (a reply for which no callback of its kind was registered is consumed without any callback)
                    expected_log.append(("success" if mode == "result" else "error", i))
                r["state"] = "answered"
                r["last_reply"] = tree
                earlier = [j for j, q in enumerate(issued) if q["state"] == "outstanding" and j < i]
                if earlier:
                    out_of_order = True
                n_got = len(app.got)
                try:
                    rig.inject(T.to_node(tree))
                except Exception as e:
                    out.fail("callbacks", "iq_reply:%s:reply:%s:raises:%s" % (r["kind"], mode, type(e).__name__), {"step": step, "error": repr(e)[:300]})
                    return out
                if len(app.got) != n_got:
                    out.fail("callbacks", "iq_reply:%s:reply:%s:also_delivered_as_ordinary_entity" % (r["kind"], mode),
                             {"step": step, "extra": [type(e).__name__ for e in app.got[n_got:]]})
                    return out
                out.label("reply:" + mode)
            else:
                special = True
                out.label("late_duplicate_reply")
                if not ordinary(step, op, tree):
                    return out
        elif kind == "replay":
            cands = [r for r in issued if r["last_reply"] is not None]
            if not cands:
                continue
            r = cands[op[1] % len(cands)]
            op_target[0] = issued.index(r)
            special = True
            out.label("replay")
            if not ordinary(step, op, r["last_reply"]):
                return out
        elif kind == "unknown":
            tree = set_id(G.materialize(op[1]), "never-issued-%d" % step)
            special = True
            out.label("unknown_id")
            if not ordinary(step, op, tree):
                return out
        elif kind == "nonreply":
            if not issued:
                continue
            r = issued[op[1] % len(issued)]
            op_target[0] = issued.index(r)
            which = op[2]
            if which == "receipt":
                tree = ("receipt", {"id": r["id"], "from": "4915199999@s.whatsapp.net", "t": "1500000000"}, None)
            elif which == "ack":
                tree = ("ack", {"id": r["id"], "class": "message", "from": "4915199999@s.whatsapp.net", "t": "1500000000"}, None)
            else:
                tree = ("notification", {"id": r["id"], "from": "4915199999@s.whatsapp.net", "type": "status", "t": "1500000000", "notify": "n"},
                        [("set", {}, b"hello")])
            special = True
            out.label("same_id_" + which)
            if not ordinary(step, op, tree):
                return out
        elif kind == "keepalive":
            # the library's own keep-alive: what its ping thread does (announce the ping to the outstanding-ping queue, send it),
            # answered by the server at once.  It is a request of the library, correlated like any other - and it must leave the
            # application's outstanding requests alone
            from yowsup.layers.protocol_iq import YowIqProtocolLayer
            from yowsup.layers.protocol_iq.protocolentities import PingIqProtocolEntity
            iql = None
            for i in range(1, 6):
                try:
                    layer = rig.stack.getLayer(i)
                except IndexError:
                    break
                for sub_ in getattr(layer, "sublayers", []) or []:
                    if isinstance(sub_, YowIqProtocolLayer):
                        iql = sub_
            ping = PingIqProtocolEntity()
            n_got = len(app.got)
            n_log = len(app.log)
            try:
                iql.waitPong(ping.getId())
                iql.sendIq(ping)
                rig.inject(T.to_node(("iq", {"id": ping.getId(), "type": "result", "from": "s.whatsapp.net"}, None)))
            except Exception as e:
                out.fail("callbacks", "keepalive:raises:%s" % type(e).__name__, {"step": step, "error": repr(e)[:300]})
                return out
            special = True
            out.label("keepalive_ping_answered")
            if len(app.log) != n_log:
                out.fail("callbacks", "keepalive:application_callback_invoked", {"step": step})
                return out
        elif kind == "server_get":
            if op[1] is None or not issued:
                tree = ("iq", {"id": "srv-%d" % step, "type": "get", "from": "s.whatsapp.net", "xmlns": "urn:xmpp:ping"}, None)
                out.label("server_get_fresh_id")
                if not ordinary(step, op, tree):
                    return out
            else:
                r = issued[op[1] % len(issued)]
                op_target[0] = issued.index(r)
                tree = ("iq", {"id": r["id"], "type": "get", "from": "s.whatsapp.net", "xmlns": "urn:xmpp:ping"}, None)
                out.label("server_get_same_id")
                was = r["state"]
                try:
                    rig.inject(T.to_node(tree))
                except Exception as e:
                    out.fail("ordinary", "server_get_same_id:raises:%s" % type(e).__name__, {"step": step})
                    return out
                if was == "outstanding":
                    # the request must still be answerable: checked by a later reply through the model (state unchanged)
                    pass
        elif kind == "msg":
            if not axolotl:
                continue
            from yowsup.layers.protocol_messages.protocolentities import TextMessageProtocolEntity
            target = TARGETS[op[1] % len(TARGETS)]
            m = TextMessageProtocolEntity("internal-%d" % step, to=target)
            messages.append(m.getId())
            out.label("internal:group_send" if target == GROUP else "internal:first_message")
            try:
                app.toLower(m)
            except Exception as e:
                out.fail("internal", "internal:send_raises:%s" % type(e).__name__, {"step": step, "error": repr(e)[:300]})
                return out
            scan_internal()
        elif kind == "count":
            # the server asks for fresh one-time prekeys: the control layer issues a key upload (library-internal request)
            if not axolotl:
                continue
            out.label("internal:key_upload")
            try:
                rig.inject(T.to_node(("notification", {"from": "s.whatsapp.net", "id": "cnt-%d" % step, "type": "encrypt", "t": "1500000000"},
                                      [("count", {"value": "3"}, None)])))
            except Exception as e:
                out.fail("internal", "internal:key_count_notification_raises:%s" % type(e).__name__, {"step": step, "error": repr(e)[:300]})
                return out
            scan_internal()
        elif kind in ("ireply", "ireplay"):
            scan_internal()
            if not internal:
                continue
            req = internal[op[1] % len(internal)]
            if kind == "ireply" and req["state"] == "outstanding":
                mode = op[2]
                reply = craft_internal_reply(req, mode)
                req["state"] = "answered"
                req["last_reply"] = reply
                if mode == "error":
                    internal_error[0] = True
                out.label("internal_reply:" + mode)
                try:
                    rig.inject(T.to_node(reply))
                except Exception as e:
                    # a refused key upload makes the control layer raise by design
                    if not (mode == "error" and "Sent keys were not accepted" in str(e)):
                        out.fail("internal", "internal:reply_%s_raises:%s" % (mode, type(e).__name__), {"step": step, "error": repr(e)[:300]})
                        return out
                rtag, rattrs, rcontent = req["tree"]
                if mode != "error" and rattrs.get("xmlns") == "encrypt" and rattrs.get("type") == "set":
                    # the confirmation belongs to this upload: the one-time keys this very request carried are the ones that count as
                    # published from now on (several uploads may be outstanding, confirmed in any order)
                    ids = [int.from_bytes(f[2], "big") for c in (rcontent or []) if c[0] == "list" for k in (c[2] or []) for f in (k[2] or [])
                           if f[0] == "id" and isinstance(f[2], (bytes, bytearray))]
                    mgr = None
                    for li in (1, 2, 3):
                        mgr = getattr(rig.stack.getLayer(li), "_manager", None) or mgr
                    if mgr is not None and ids:
                        unsent = set(r.getId() for r in mgr.load_unsent_prekeys())
                        left = sorted(set(ids) & unsent)
                        out.label("internal:key_upload_confirmed")
                        if left:
                            out.fail("internal", "internal:key_upload_confirmed_but_its_keys_still_count_as_unpublished",
                                     {"step": step, "request": req["id"], "keys_of_the_request": len(ids), "still_unsent": left[:6]})
                            return out
            elif req["last_reply"] is not None:
                special = True
                out.label("internal_replay")
                before = [message_count(mid) for mid in messages]
                if not ordinary(step, op, req["last_reply"]):
                    return out
                if [message_count(mid) for mid in messages] != before:
                    out.fail("internal", "internal:replayed_result_continues_again", {"step": step})
                    return out
            scan_internal()
        else:
            raise ValueError(kind)
        for mid in messages:
            if message_count(mid) > 1:
                out.fail("internal", "internal:message_transmitted_twice", {"step": step, "count": message_count(mid)})
                return out
        if not compare_log(step, op):
            return out
    # closing phase: answer every outstanding library-internal request with a result until no new one appears
    for _ in range(12):
        scan_internal()
        pend = [r for r in internal if r["state"] == "outstanding"]
        if not pend:
            break
        for req in pend:
            req["state"] = "answered"
            req["last_reply"] = craft_internal_reply(req, "result")
            try:
                rig.inject(T.to_node(req["last_reply"]))
            except Exception as e:
                out.fail("internal", "internal:reply_result_raises:%s" % type(e).__name__, {"error": repr(e)[:300]})
                return out
    for mid in messages:
        c = message_count(mid)
        if c > 1 or (c == 0 and not internal_error[0]):
            out.fail("internal", "internal:message_transmitted_%d_times_after_all_replies" % c, {"message": mid, "internal": [r["tree"][1] for r in internal]})
            return out
    if not compare_log(len(case["ops"]), ["closing"]):
        return out
    ids = [r["id"] for r in issued] + [r["id"] for r in internal]
    if len(set(ids)) != len(ids):
        out.fail("ids", "request_ids_not_distinct", {"ids": ids})
    out.info = {"nt": (max_outstanding >= 2 and out_of_order) or special}
    return out


def nontrivial(case, out):
    return bool(out.info and out.info.get("nt"))


def shrink_candidates(case):
    ops = case["ops"]
    for i in range(len(ops) - 1, -1, -1):
        yield dict(case, ops=ops[:i] + ops[i + 1:])


# ---- generators ---------------------------------------------------------------------------------

def result_shape(kind):
    name = KIND_RESULT[kind]
    return E.by_name(name).shape if name else GENERIC_RESULT


def op_strategy():
    reqs = []
    for kind, res in KINDS:
        rec = E.by_name(kind)
        reqs.append(S.args_strategy(rec.args, rec.kwargs).map(lambda ak, _k=kind: ["req", _k, ak[0], ak[1]]))
    req = st.one_of(*reqs)
    sel = st.integers(0, 7)
    return req, sel


def script_strategy():
    req, sel = op_strategy()

    @st.composite
    def build(draw):
        n = draw(st.integers(2, 14))
        ops = []
        kinds_issued = []
        for _ in range(n):
            choice = draw(st.integers(0, 14)) if kinds_issued else 0
            if choice <= 3 or not kinds_issued:
                op = draw(req)
                if draw(st.integers(0, 3)) == 0:
                    op = [op[0], op[1], op[2], dict(op[3], _cbs=draw(st.sampled_from(["ok", "err", "none"])))]
                kinds_issued.append(op[1])
                if draw(st.integers(0, 4)) == 0:
                    mode = draw(st.sampled_from(["result", "result", "error"]))
                    shape = result_shape(op[1]) if mode == "result" else ERROR_SHAPE
                    op = op + [mode, S.tree_to_json(draw(S.shape_strategy(shape)))]
                ops.append(op)
            elif choice <= 7:
                i = draw(sel) % len(kinds_issued)
                mode = draw(st.sampled_from(["result", "result", "error"]))
                shape = result_shape(kinds_issued[i]) if mode == "result" else ERROR_SHAPE
                ops.append(["reply", i, mode, S.tree_to_json(draw(S.shape_strategy(shape)))])
            elif choice == 8:
                ops.append(["replay", draw(sel)])
            elif choice == 9:
                shape = draw(st.sampled_from([GENERIC_RESULT, ERROR_SHAPE] + [result_shape(k) for k in kinds_issued[:2]]))
                ops.append(["unknown", S.tree_to_json(draw(S.shape_strategy(shape)))])
            elif choice == 10:
                ops.append(["nonreply", draw(sel), draw(st.sampled_from(["receipt", "ack", "notification"]))])
            elif choice == 11:
                ops.append(["server_get", draw(st.one_of(st.none(), sel))])
            elif choice == 12:
                ops.append(draw(st.sampled_from([["msg", 0], ["msg", 1], ["msg", 3], ["count"]])))
            elif choice == 13 and draw(st.booleans()):
                ops.append(["keepalive"])
            elif choice == 13:
                ops.append(["ireply", draw(sel), draw(st.sampled_from(["result", "result", "result", "error"]))])
            else:
                ops.append(["ireplay", draw(sel)])
        return {"sub": "history", "axolotl": draw(st.booleans()), "ops": ops, "iq_handler": draw(st.integers(0, 2)) == 0}
    return build()


def single_kind_strategy(kind):
    """one request of the kind, answered by result / error, then replayed (makes sure every kind x reply type is visited)"""
    rec = E.by_name(kind)

    @st.composite
    def build(draw):
        ak = draw(S.args_strategy(rec.args, rec.kwargs))
        mode = draw(st.sampled_from(["result", "error"]))
        shape = result_shape(kind) if mode == "result" else ERROR_SHAPE
        reply = S.tree_to_json(draw(S.shape_strategy(shape)))
        if draw(st.integers(0, 3)) == 0:
            return {"sub": "history", "axolotl": draw(st.booleans()),
                    "ops": [["req", kind, ak[0], ak[1], mode, reply], ["replay", 0], ["reply", 0, mode, reply]]}
        return {"sub": "history", "axolotl": draw(st.booleans()),
                "ops": [["req", kind, ak[0], ak[1]], ["reply", 0, mode, reply], ["replay", 0]]}
    return build()


def _enum_argument_forms():
    """requests whose content may be given as text or as bytes (a group subject, a status), each form answered by a result and by
    an error"""
    err = ("iq", {"type": "error", "id": "x", "from": "s.whatsapp.net"}, [("error", {"code": "403", "text": "forbidden"}, None)])
    res = ("iq", {"type": "result", "id": "x", "from": "s.whatsapp.net"}, None)
    forms = [("SubjectGroupsIqProtocolEntity", ["4915112345-1500000000@g.us", "new subject"]),
             ("SubjectGroupsIqProtocolEntity", ["4915112345-1500000000@g.us", {"b": b"new subject".hex()}]),
             ("SetStatusIqProtocolEntity", ["away"]), ("SetStatusIqProtocolEntity", [{"b": b"away".hex()}])]
    for kind, args in forms:
        for mode, reply in (("result", res), ("error", err)):
            for axolotl in (False, True):
                yield {"sub": "history", "axolotl": axolotl, "ops": [["req", kind, args, {}], ["reply", 0, mode, S.tree_to_json(reply)], ["replay", 0]]}


def _enum_many_outstanding():
    """far more requests outstanding at once than any bound a layer might put on its bookkeeping: 130 of one kind (and 130 of two
    kinds mixed), every one answered afterwards, oldest first"""
    res = S.tree_to_json(("iq", {"type": "result", "id": "x", "from": "s.whatsapp.net"}, None))
    seen = S.tree_to_json(("iq", {"type": "result", "id": "x", "from": "4915112345@s.whatsapp.net"}, [("query", {"seconds": "5"}, None)]))
    for kinds in (["PingIqProtocolEntity"], ["LastseenIqProtocolEntity"], ["PingIqProtocolEntity", "LastseenIqProtocolEntity"]):
        ops = []
        for i in range(130):
            k = kinds[i % len(kinds)]
            ops.append(["req", k, [] if k == "PingIqProtocolEntity" else ["4915112345@s.whatsapp.net"], {}])
        for i in range(130):
            ops.append(["reply", i, "result", res if kinds[i % len(kinds)] == "PingIqProtocolEntity" else seen])
        yield {"sub": "history", "axolotl": False, "ops": ops}


def internal_strategy():
    sel = st.integers(0, 7)
    op = st.one_of(st.tuples(st.just("msg"), sel).map(list), st.tuples(st.just("msg"), sel).map(list), st.just(["count"]),
                   st.tuples(st.just("ireply"), sel, st.sampled_from(["result", "result", "result", "error"])).map(list),
                   st.tuples(st.just("ireplay"), sel).map(list))
    return st.lists(op, min_size=2, max_size=10).map(lambda ops: {"sub": "history", "axolotl": True, "ops": ops})


def media_strategy():
    return st.builds(lambda mode, mt, content, url, code, text, ax: {"sub": "media", "mode": mode, "mediatype": mt, "content": content.hex(), "url": url,
                                                                    "code": code, "text": text, "axolotl": ax},
                     st.sampled_from(["duplicate", "error"]), st.sampled_from(["image", "video", "audio", "document"]),
                     st.binary(min_size=1, max_size=64), st.sampled_from(["https://mmg.whatsapp.net/d/f/abc.enc", "https://mms.example/u?x=1&y=2"]),
                     st.sampled_from(["401", "404", "500"]), st.sampled_from(["not-authorized", "item-not-found", "internal-server-error"]),
                     st.booleans())


def _enum_keepalive():
    """application pings outstanding while the library's own keep-alive ping is answered, for every order of the replies"""
    res = {"t": "iq", "a": [["id", "x"], ["type", "result"], ["from", "s.whatsapp.net"]], "c": None}
    err = {"t": "iq", "a": [["id", "x"], ["type", "error"], ["from", "s.whatsapp.net"]], "c": [{"t": "error", "a": [["code", "500"], ["text", "internal-server-error"]], "c": None}]}
    for axolotl in (False, True):
        yield {"sub": "history", "axolotl": axolotl, "ops": [["req", "PingIqProtocolEntity", [], {}], ["req", "PingIqProtocolEntity", [], {}], ["keepalive"],
                                                           ["reply", 0, "result", res], ["reply", 1, "error", err], ["replay", 0]]}
        yield {"sub": "history", "axolotl": axolotl, "ops": [["req", "PingIqProtocolEntity", [], {}], ["reply", 0, "result", res], ["keepalive"],
                                                           ["req", "LastseenIqProtocolEntity", ["4915112345@s.whatsapp.net"], {}], ["keepalive"],
                                                           ["reply", 1, "error", err]]}


def _enum_uploads_outstanding():
    """two and three key uploads outstanding at once, confirmed in every order (and one refused)"""
    import itertools
    for n in (2, 3):
        for order in itertools.permutations(range(n)):
            yield {"sub": "history", "axolotl": True, "ops": [["count"]] * n + [["ireply", i, "result"] for i in order]}
    yield {"sub": "history", "axolotl": True, "ops": [["count"], ["count"], ["ireply", 1, "error"], ["ireply", 0, "result"]]}


def plan(tier):
    quick = tier == "quick"
    strategies = [("histories", script_strategy(), 40 if quick else 3000), ("media_requests", media_strategy(), 3 if quick else 100),
                  ("internal_requests", internal_strategy(), 12 if quick else 800)]
    for kind, res in KINDS:
        strategies.append(("kind:" + kind, single_kind_strategy(kind), 2 if quick else 40))
    return {
        "shards": 16,
        "enumerations": [("keepalive_between_application_requests", _enum_keepalive), ("text_and_bytes_forms_of_request_content", _enum_argument_forms),
                         ("many_requests_outstanding", _enum_many_outstanding), ("key_uploads_outstanding", _enum_uploads_outstanding)],
        "strategies": strategies,
        "shrink": "hypothesis",
        "budget_s": 200 if quick else 1800,
        "collect_all": True,
    }

RULE += (' Also: text and bytes forms of request content x result / error (enumerated); 130 requests outstanding at once, all answered afterwards.')
RULE += (" A confirmed key upload (library-internal request) must have published the one-time keys that very request carried, also with several uploads outstanding and confirmed in any order.")
