"""C07 - mandatory acknowledgements are sent exactly once and match the stanza.

Stimuli are injected below the assembled protocol layer set (all 16 module selections, with and without the encryption
layers); the oracle inspects the stanzas the layer set sends down in response.
"""
import sqlite3
from .. import compat  # noqa: F401
from ..core import Outcome
from ..gen import entities as E
from ..gen import shapes as S
from ..gen import stanzas as G
from ..kit import trees as T
from ..kit.protokit import ProtoRig
from .c06 import ALL_CONFIGS
from hypothesis import strategies as st

from yowsup.layers.protocol_messages.proto.e2e_pb2 import Message

ID = "C07"
LEVEL = "exploration"
RULE = ("stimuli: every notification shape of the catalogue (picture set/delete, status, contacts add/remove/update/sync, group "
        "create/add/remove/subject, encrypt key-count/identity-change) plus notifications of unknown type (with optional participant "
        "and an arbitrary child), call stanzas of kind offer / transport / relaylatency / reject / terminate / none, server pings, "
        "text-type messages whose payload is a revoke, an image under type text, empty or made of unknown fields (1:1 and group; in groups "
        "also merged with a sender key, as a re-sent copy is), "
        "media-type messages with an unknown media type (media module present), and the picture notification that is neither set "
        "nor delete (outside the guarantee, only labelled); encrypt key-count notifications also with an injected key-store fault (storeSignedPreKey / storePreKey / loadSignedPreKeys raise sqlite3.OperationalError: the refresh fails, the acknowledgement is still due once); each generated stimulus runs in all 32 configurations. Non-trivial = "
        "participant present, or unknown type, or a configuration with a module left out. Every (stimulus, configuration) pair is "
        "one evaluation.")
ASSUMPTIONS = [
    "other stanzas sent down while handling the stimulus (key upload, key fetch) are allowed",
    "with the encryption layers a connected key manager from a registered template profile is provided",
]

SERVER = "s.whatsapp.net"


def notification_records():
    return [r for r in E.RECV if isinstance(r.shape.tag, str) and r.shape.tag == "notification"]


def payload(kind, text):
    m = Message()
    if kind in ("revoke", "revoke_default_type_omitted"):
        m.protocol_message.key.remote_jid = "4915112345@s.whatsapp.net"
        m.protocol_message.key.from_me = True
        m.protocol_message.key.id = text or "ABCD"
        if kind == "revoke":
            m.protocol_message.type = 0       # (REVOKE is the default: a peer may leave the field out)
        return m.SerializeToString()
    if kind == "image_as_text":
        m.image_message.url = "https://mmg.whatsapp.net/x"
        m.image_message.mimetype = "image/jpeg"
        m.image_message.file_sha256 = b"\x01" * 32
        m.image_message.file_length = 10
        m.image_message.width = 1
        m.image_message.height = 1
        m.image_message.media_key = b"\x02" * 32
        return m.SerializeToString()
    if kind == "empty":
        return b""
    if kind == "unknown_fields":
        # field 40 (length-delimited) is not in the schema: e.g. a reaction
        body = (text or "x").encode("utf-8")[:50]
        return bytes([(40 << 3 | 2) & 0x7F | 0x80, (40 << 3 | 2) >> 7, len(body)]) + body
    if kind.endswith("+skdm"):
        # what a group member gets when the sender answers its retry request: the sender key merged with the original content
        inner = Message()
        inner.ParseFromString(payload(kind[:-5], text))
        inner.sender_key_distribution_message.group_id = "4915100000021-1500000001@g.us"
        inner.sender_key_distribution_message.axolotl_sender_key_distribution_message = b"\x33" * 40
        return inner.SerializeToString()
    if kind == "location":
        m.location_message.degrees_latitude = 1.5
        m.location_message.degrees_longitude = 2.5
        return m.SerializeToString()
    raise ValueError(kind)


SUPPORTED_MEDIATYPES = ("image", "sticker", "audio", "ptt", "video", "gif", "location", "contact", "document", "url")
# media types the library has no entity for: names seen in the wild, fragments and near-misses of the supported names, arbitrary words
UNKNOWN_MEDIATYPE = S.Kind("UNKNOWN_MEDIATYPE", st.one_of(
    st.sampled_from(["livelocation", "contact_array", "product", "poll", "vcard", "list", "order"]),
    st.sampled_from(SUPPORTED_MEDIATYPES).flatmap(lambda w: st.tuples(st.integers(0, len(w) - 1), st.integers(1, len(w))).map(
        lambda ij, _w=w: _w[ij[0]:ij[0] + ij[1]])),
    st.sampled_from(SUPPORTED_MEDIATYPES).flatmap(lambda w: st.sampled_from([w + "s", w.upper(), "x" + w, w + "_v2", w[::-1]])),
    st.text(alphabet="abcdefghijklmnopqrstuvwxyz_", min_size=1, max_size=8),
).filter(lambda w: w and w not in SUPPORTED_MEDIATYPES))


def run_e2e(case):
    """runs in a process of its own (vlib/props/c07_e2e.py): full client stacks with real sessions against the server double"""
    import os
    import sys
    import json
    import subprocess
    from ..core import HarnessError
    from ..kit import env as envkit
    out = Outcome()
    verif_dir = os.path.dirname(os.path.dirname(os.path.dirname(os.path.abspath(__file__))))
    r = subprocess.run([sys.executable, "-m", "vlib.props.c07_e2e", json.dumps(case)], cwd=verif_dir, stdout=subprocess.PIPE,
                       stderr=subprocess.PIPE, timeout=600, env=dict(os.environ, PYTHONDONTWRITEBYTECODE="1", TMPDIR=envkit.scratch_root()))
    line = [l for l in r.stdout.decode("utf-8", "replace").splitlines() if l.startswith("OUTCOME ")]
    if r.returncode != 0 or not line:
        raise HarnessError("e2e_unpresentable child failed rc=%s: %s" % (r.returncode, r.stderr.decode("utf-8", "replace")[-600:]))
    d = json.loads(line[-1][len("OUTCOME "):])
    out.label(*d["labels"])
    for v in d["violations"]:
        out.fail(v["kind"], v["key"], v["detail"])
    out.info = d.get("info")
    return out


E2E_KINDS = ["revoke", "revoke_default_type_omitted", "unknown_fields", "image_as_text", "location", "text"]


def _enum_e2e():
    for group in (False, True):
        for established in (False, True):
            yield {"sub": "e2e_unpresentable", "kind": "e2e", "group": group, "established": established, "third": group and established,
                   "kinds": ["revoke", "text", "unknown_fields"]}


def run_case(case):
    if case.get("sub") == "e2e_unpresentable":
        return run_e2e(case)
    out = Outcome()
    configs = case.get("configs") or ALL_CONFIGS
    kind = case["kind"]
    tree = G.materialize(case["tree"])
    tag, attrs, content = tree
    out.label("kind=" + kind)
    participant = attrs.get("participant")
    if participant:
        out.label("participant")
    evals = nt = 0
    for cfg in configs:
        flags, axolotl = cfg[:4], bool(cfg[4])
        if kind == "media_unknown" and not flags[1]:
            continue
        single = dict(case, configs=[cfg])
        rig = ProtoRig(flags, axolotl)
        raised = None
        try:
            node = T.to_node(tree)
            skip = 0
            if case.get("prelude"):
                # the stack has been in use: it has received (and presented) ordinary messages before the stimulus arrives
                from yowsup.layers.protocol_messages.proto.e2e_pb2 import Message as _M
                for k_, what in enumerate(case["prelude"]):
                    pm = _M()
                    if what == "text":
                        pm.conversation = "earlier text %d" % k_
                    else:
                        pm.extended_text_message.text = "earlier link %d" % k_
                        pm.extended_text_message.matched_text = "https://example.org"
                    rig.inject(T.to_node(("message", {"id": "prelude-%d" % k_, "from": "4915100000099@s.whatsapp.net", "t": "1500000000",
                                                      "type": "text", "notify": "n"},
                                          [("proto", {}, pm.SerializeToString())])))
                skip = len(rig.bottom.sent)
                out.label("after_earlier_messages")
            if kind == "ping" and case.get("collide"):
                # the server's ping carries the id of a request of this client that is still unanswered
                pending_id, what = outstanding_request(rig, case["collide"], axolotl)
                out.label("ping_id_of_pending_" + what)
                node = T.to_node((tag, dict(attrs, id=pending_id), content))
                tree = (tag, dict(attrs, id=pending_id), content)
                skip = len(rig.bottom.sent)
            fault = None
            if case.get("store_fault") and axolotl:
                # the key refresh an encrypt/count notification triggers fails in the key store (disk full): the notification
                # has been received all the same and is acknowledged once
                fault = sqlite3.OperationalError("database or disk is full")
                store = rig.stack.getProp("profile").axolotl_manager._store

                def failing(*a, _f=fault, **k):
                    raise _f
                setattr(store, case["store_fault"], failing)
                out.label("key_store_fault=" + case["store_fault"])
            try:
                rig.inject(node)
            except Exception as e:
                raised = e if e is not fault else None
                if e is fault:
                    out.label("key_refresh_failed")
            sent = [s for s in rig.bottom.sent][skip:]
            sent2 = tree2 = None
            if case.get("again") and raised is None and fault is None and kind != "picture_bad":
                # the same kind of stanza from the same sender once more, while whatever the client asked the server because of
                # the first one (a key request, say) is still unanswered: it is a stanza of its own and acknowledged as such
                # (again="same_id": the server delivers the stanza once more under its id - it never saw the first acknowledgement)
                tree2 = (tag, dict(tree[1], id=str(tree[1].get("id")) + ("" if case["again"] == "same_id" else "b")), content)
                n_before = len(rig.bottom.sent)
                try:
                    rig.inject(T.to_node(tree2))
                except Exception as e:
                    raised = e
                sent2 = [s for s in rig.bottom.sent][n_before:]
                out.label("same_kind_again_before_any_answer", "again=" + ("same_id" if case["again"] == "same_id" else "new_id"))
        finally:
            rig.close()
        evals += 1
        if participant or kind in ("notification_unknown",) or not all(flags):
            nt += 1
        if kind == "picture_bad":
            out.label("picture_bad_raises" if raised else "picture_bad_quiet")
            continue
        if raised is not None:
            out.fail("ack", "%s:handler_raises:%s" % (kind_key(kind, case), type(raised).__name__), {"error": repr(raised)[:300], "config": cfg},
                     case=single)
            return out
        problem = check(kind, tree, sent)
        if problem:
            out.fail("ack", "%s:%s" % (kind_key(kind, case), problem[0]), {"config": cfg, "detail": problem[1],
                                                                       "sent_down": [describe(s) for s in sent][:6]}, case=single)
            return out
        if tree2 is not None:
            problem = check(kind, tree2, sent2)
            if problem:
                out.fail("ack", "%s:second_of_the_kind:%s" % (kind_key(kind, case), problem[0]),
                         {"config": cfg, "detail": problem[1], "sent_down": [describe(s) for s in sent2][:6]}, case=single)
                return out
    out.evals = max(1, evals)
    out.nontrivial_n = nt
    return out


def outstanding_request(rig, how, axolotl):
    """leave one request of the client unanswered and return its id: the application's own ping, or (with the encryption
    layers) the key upload the library starts on the server's key-count notification"""
    from yowsup.layers.protocol_iq.protocolentities import PingIqProtocolEntity
    if how == "key_upload" and axolotl:
        before = len(rig.bottom.sent)
        rig.inject(T.to_node(("notification", {"from": SERVER, "id": "9911", "type": "encrypt", "t": "1500000000"},
                              [("count", {"value": "3"}, None)])))
        ups = [s for s in rig.bottom.sent[before:] if s.tag == "iq" and s["type"] == "set" and s["xmlns"] == "encrypt"]
        if len(ups) == 1:
            return ups[0]["id"], "key_upload"
    ping = PingIqProtocolEntity()
    rig.send(ping)
    return ping.getId(), "app_ping"


def kind_key(kind, case):
    return kind + (":" + case["name"] if case.get("name") else "")


def describe(node):
    try:
        return "<%s %s>" % (node.tag, " ".join("%s=%s" % kv for kv in sorted(node.attributes.items())))
    except Exception:
        return repr(node)[:80]


def check(kind, tree, sent):
    tag, attrs, content = tree
    if kind.startswith("notification"):
        acks = [s for s in sent if s.tag == "ack"]
        if len(acks) != 1:
            return ("ack_count_%d" % len(acks), "expected exactly one ack")
        a = acks[0]
        exp = {"class": "notification", "id": attrs["id"], "type": attrs["type"], "to": attrs["from"]}
        if attrs.get("participant"):
            exp["participant"] = attrs["participant"]
        for k, v in exp.items():
            if a[k] != v:
                return ("ack_%s_mismatch" % k, "ack %s=%r expected %r" % (k, a[k], v))
        if "participant" not in exp and a["participant"] is not None:
            return ("ack_participant_unexpected", a["participant"])
        if [s for s in sent if s.tag == "receipt"]:
            return ("unexpected_receipt", "a notification is acknowledged with an ack only")
        return None
    if kind == "call":
        offer = None
        for c in (content or []):
            if c[0] == "offer":
                offer = c
        receipts = [s for s in sent if s.tag == "receipt"]
        acks = [s for s in sent if s.tag == "ack"]
        if offer is not None:
            if len(receipts) != 1 or acks:
                return ("offer_receipt_count_%d_acks_%d" % (len(receipts), len(acks)), "expected exactly one receipt and no ack")
            r = receipts[0]
            if r["id"] != attrs["id"] or r["to"] != attrs["from"]:
                return ("offer_receipt_mismatch", describe(r))
            o = r.getChild("offer")
            if o is None or o["call-id"] != offer[1].get("call-id"):
                return ("offer_receipt_call_id", describe(o) if o is not None else "no offer child")
        else:
            if len(acks) != 1 or receipts:
                return ("call_ack_count_%d_receipts_%d" % (len(acks), len(receipts)), "expected exactly one ack and no receipt")
            a = acks[0]
            if a["class"] != "call" or a["id"] != attrs["id"] or a["to"] != attrs["from"]:
                return ("call_ack_mismatch", describe(a))
        return None
    if kind == "ping":
        pongs = [s for s in sent if s.tag == "iq" and s["type"] == "result"]
        if len(pongs) != 1:
            return ("pong_count_%d" % len(pongs), "expected exactly one pong")
        if pongs[0]["id"] != attrs["id"]:
            return ("pong_id_mismatch", describe(pongs[0]))
        if pongs[0]["to"] != SERVER:
            return ("pong_to_mismatch", describe(pongs[0]))
        return None
    if kind in ("message_unpresentable", "media_unknown"):
        receipts = [s for s in sent if s.tag == "receipt"]
        if len(receipts) != 1:
            return ("receipt_count_%d" % len(receipts), "expected exactly one receipt")
        r = receipts[0]
        if r["id"] != attrs["id"] or r["to"] != attrs["from"]:
            return ("receipt_mismatch", describe(r))
        if attrs.get("participant") and r["participant"] != attrs["participant"]:
            return ("receipt_participant_mismatch", describe(r))
        if not attrs.get("participant") and r["participant"] is not None:
            return ("receipt_participant_unexpected", describe(r))
        return None
    raise ValueError(kind)


def nontrivial(case, out):
    return True


# ---- generators -------------------------------------------------------------------------------

def _msg_attrs(group):
    a = {"id": S.ID, "t": S.TS, "notify": S.OPT(S.TEXT), "offline": S.OPT(S.WORD("0", "1"))}
    if group:
        a["from"] = S.GJID
        a["participant"] = S.JID
    else:
        a["from"] = S.JID
    return a


def _enum_mediatype_fragments():
    """every fragment (substring) of every supported media type name that is not itself a supported name, as the media type of a
    message whose payload the library cannot present: exactly one receipt"""
    seen = set()
    for w in SUPPORTED_MEDIATYPES:
        for i in range(len(w)):
            for j in range(i + 1, len(w) + 1):
                frag = w[i:j]
                if frag in SUPPORTED_MEDIATYPES or frag in seen:
                    continue
                seen.add(frag)
                group = len(seen) % 2 == 0
                attrs = [["id", "frag-%d" % len(seen)], ["t", "1500000000"], ["type", "media"], ["notify", "n"]]
                attrs += [["from", "4915100000021-1500000001@g.us"], ["participant", "4915100000022@s.whatsapp.net"]] if group \
                    else [["from", "4915100000022@s.whatsapp.net"]]
                yield {"sub": "ack", "kind": "media_unknown",
                       "tree": {"t": "message", "a": attrs, "c": [{"t": "proto", "a": [["mediatype", frag]], "c": {"hex": payload("location", "").hex()}}]}}


def plan(tier):
    quick = tier == "quick"
    n = 1 if quick else 15
    strategies = []
    for r in notification_records():
        strategies.append(("notification:" + r.name,
                           S.shape_strategy(r.shape).map(lambda t, _n=r.name: {"sub": "ack", "kind": "notification", "name": _n,
                                                                                "tree": S.tree_to_json(t)}), n))
    count = E.by_name("RequestKeysEncryptNotification")
    for method in ("storeSignedPreKey", "storePreKey", "loadSignedPreKeys"):
        strategies.append(("notification_count_with_failing_" + method,
                           S.shape_strategy(count.shape).map(lambda t, _m=method: {"sub": "ack", "kind": "notification", "store_fault": _m,
                                                                                   "name": "RequestKeysEncryptNotification",
                                                                                   "tree": S.tree_to_json(t)}), n))
    unknown_type = S.Kind("UNKNOWN_TYPE", st.one_of(st.sampled_from(["mediaretry", "server_sync", "account_sync", "devices", "psa", "disappearing_mode",
                                                                     "privacy_token", "link_code_companion_reg", "business", "pay", "web", "features"]),
                                                    S.TEXT.strategy))
    # (what such a notification carries is opaque: also blobs well above the size the library abbreviates in its log lines)
    blob = S.Kind("NOTIFICATION_BLOB", st.one_of(st.binary(min_size=1, max_size=64), st.sampled_from([499, 500, 501, 512, 1024, 3000]).map(
        lambda n: bytes((i * 13 + 5) & 0xFF for i in range(n)))), is_bytes=True)
    unk = S.N("notification", {"id": S.ID, "from": S.AJID, "type": unknown_type, "t": S.TS, "notify": S.OPT(S.TEXT),
                               "participant": S.OPT(S.JID), "offline": S.OPT(S.WORD("0", "1"))},
              children=[S.CH(S.N(S.WORD("update", "item", "sync", "devices", "x"), {"k": S.OPT(S.TEXT)}), 0, 1),
                        S.CH(S.N(S.WORD("blob", "cert", "data"), {}, data=blob), 0, 1)])
    strategies.append(("notification_unknown", S.shape_strategy(unk).map(lambda t: {"sub": "ack", "kind": "notification_unknown",
                                                                                   "tree": S.tree_to_json(t)}), 4 * n))
    # a recognised type with a child the library has no entity for (the number-change notice <modify>, <hash>, nothing at all)
    odd = S.N("notification", {"id": S.ID, "from": S.AJID, "type": S.WORD("contacts", "w:gp2", "encrypt", "account_sync"), "t": S.TS,
                               "notify": S.OPT(S.TEXT), "participant": S.OPT(S.JID), "offline": S.OPT(S.WORD("0", "1"))},
              children=[S.CH(S.N(S.WORD("modify", "hash", "other", "x"), {"old": S.OPT(S.JID), "new": S.OPT(S.JID), "k": S.OPT(S.TEXT)}), 0, 1)])
    strategies.append(("notification_known_type_unknown_child",
                       S.shape_strategy(odd).map(lambda t: {"sub": "ack", "kind": "notification_unknown", "tree": S.tree_to_json(t)}), 4 * n))
    call = E.by_name("CallProtocolEntity")
    strategies.append(("call", S.shape_strategy(call.shape).map(lambda t: {"sub": "ack", "kind": "call", "tree": S.tree_to_json(t)}), 4 * n))
    # a call stanza may carry children the library has no name for, before or behind the one that says what it is about
    call_kinds = S.WORD("offer", "offer", "transport", "relaylatency", "reject", "terminate")
    other = S.N(S.WORD("group_info", "enc", "net", "x"), {"k": S.OPT(S.TEXT)})
    call_more = S.N("call", {"from": S.JID, "id": S.ID, "t": S.TS, "offline": S.WORD("0", "1"), "notify": S.OPT(S.TEXT), "retry": S.OPT(S.COUNT), "e": S.OPT(S.NUM)},
                    children=[S.CH(other, 0, 2), S.CH(S.N(call_kinds, {"call-id": S.ID}), 1, 1), S.CH(other, 0, 1)])
    strategies.append(("call_with_unnamed_siblings", S.shape_strategy(call_more).map(lambda t: {"sub": "ack", "kind": "call", "tree": S.tree_to_json(t)}), 4 * n))
    ping = S.N("iq", {"id": S.ID, "type": S.CONST("get"), "from": S.CONST(SERVER), "xmlns": S.CONST("urn:xmpp:ping")})
    strategies.append(("ping", S.shape_strategy(ping).map(lambda t: {"sub": "ack", "kind": "ping", "tree": S.tree_to_json(t)}), 2 * n))
    for how in ("app_ping", "key_upload"):
        strategies.append(("ping_with_id_of_pending_" + how,
                           S.shape_strategy(ping).map(lambda t, _h=how: {"sub": "ack", "kind": "ping", "collide": _h, "tree": S.tree_to_json(t)}), n))
    for group in (False, True):
        for pk in ("revoke", "revoke_default_type_omitted", "image_as_text", "empty", "unknown_fields") + \
                (("revoke+skdm", "image_as_text+skdm", "unknown_fields+skdm") if group else ()):
            # (newer content kinds arrive under stanza types of their own, or with none: what counts is the payload)
            attrs = dict(_msg_attrs(group), type=S.OPT(S.WORD("text", "text", "text", "reaction", "poll", "pay", "newsletter")))
            blob = S.Kind("PAYLOAD_" + pk, S.TEXT.strategy.map(lambda s, _pk=pk: payload(_pk, s)), is_bytes=True)
            shape = S.N("message", attrs, children=[S.N("proto", {}, data=blob)])
            strategies.append(("message_%s_%s" % (pk, "group" if group else "direct"),
                               S.shape_strategy(shape).map(lambda t: {"sub": "ack", "kind": "message_unpresentable", "tree": S.tree_to_json(t)}), n))
            strategies.append(("message_%s_%s_after_earlier_messages" % (pk, "group" if group else "direct"),
                               st.tuples(S.shape_strategy(shape), st.lists(st.sampled_from(["text", "extended"]), min_size=1, max_size=3)).map(
                                   lambda tp: {"sub": "ack", "kind": "message_unpresentable", "tree": S.tree_to_json(tp[0]), "prelude": tp[1]}), n))
        attrs = dict(_msg_attrs(group), type=S.CONST("media"))
        for pk in ("location", "unknown_fields") + (("location+skdm", "unknown_fields+skdm") if group else ()):
            blob = S.Kind("PAYLOAD_media_" + pk, S.TEXT.strategy.map(lambda s, _pk=pk: payload(_pk, s)), is_bytes=True)
            shape = S.N("message", attrs, children=[S.N("proto", {"mediatype": UNKNOWN_MEDIATYPE}, data=blob)])
            strategies.append(("media_unknown_%s_%s" % (pk, "group" if group else "direct"),
                               S.shape_strategy(shape).map(lambda t: {"sub": "ack", "kind": "media_unknown", "tree": S.tree_to_json(t)}), n))
    bad = S.N("notification", {"id": S.ID, "from": S.JID, "type": S.CONST("picture"), "t": S.TS, "notify": S.OPT(S.TEXT)},
              children=[S.CH(S.N(S.WORD("request", "other")), 0, 1)])
    strategies.append(("picture_bad", S.shape_strategy(bad).map(lambda t: {"sub": "ack", "kind": "picture_bad", "tree": S.tree_to_json(t)}), n))
    strategies.append(("e2e_unpresentable",
                       st.builds(lambda g, e, t, ks: {"sub": "e2e_unpresentable", "kind": "e2e", "group": g, "established": e, "third": t, "kinds": ks},
                                 st.booleans(), st.booleans(), st.booleans(), st.lists(st.sampled_from(E2E_KINDS), min_size=1, max_size=4)), 2 * n))
    for name, strat, k in list(strategies):
        if name.split(":")[0].split("_")[0] in ("notification", "call", "message", "media") and "failing" not in name:
            strategies.append((name + ":again", strat.map(lambda c: dict(c, again=True)), k))
            if name.split(":")[0].split("_")[0] in ("notification", "call"):
                strategies.append((name + ":redelivered", strat.map(lambda c: dict(c, again="same_id")), k))
    return {
        "shards": 16,
        "enumerations": [("unknown_mediatype_fragments", _enum_mediatype_fragments), ("e2e_unpresentable_basic", _enum_e2e)],
        "exhaustive": ["unknown_mediatype_fragments"],
        "strategies": strategies,
        "shrink": "hypothesis",
        "budget_s": 200 if quick else 1800,
        "collect_all": True,
    }

RULE += (' Also: unpresentable content under other stanza types (reaction, poll, pay, newsletter, none); unknown-type notifications carrying blobs of up to 3000 bytes; unpresentable content arriving encrypted (own process, real sessions: direct / group, first contact / after a conversation).')
RULE += (" Every notification, call and unpresentable-message stimulus is also delivered a second time (new id, same sender) before anything the first one made the client ask the server has been answered; each is acknowledged on its own.")
RULE += (" Call stanzas also with children of unknown kinds before / behind the child that names the call.")
RULE += (" Notifications and calls are also redelivered under the same id (the first acknowledgement got lost): acknowledged again.")
