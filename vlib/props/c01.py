"""C01 - stanza codec round trip: decode(encode(tree)) == tree (strict comparator), through the bare
encoder/decoder and through two YowCoderLayer instances wired back to back."""
from .. import compat  # noqa: F401
from ..core import Outcome, HarnessError
from ..gen import stanzas as G
from ..kit import trees as T
from ..kit.stackkit import sandwich
from ..ref import codec as R

from yowsup.layers.coder import YowCoderLayer
from yowsup.layers.coder.encoder import WriteEncoder
from yowsup.layers.coder.decoder import ReadDecoder
from yowsup.layers.coder.tokendictionary import TokenDictionary

ID = "C01"
LEVEL = "exploration"
RULE = ("enumerated every run: each of the 1257 usable dictionary words as tag/attribute key/attribute value/content, "
        "packed strings of every length 1..255 in both alphabets, and a fixed list of boundary trees (content and "
        "string lengths around 256 / 64 Ki / 1 Mi, 127-300 attributes, 254-1000 children, large nodes top-level, "
        "nested and followed by a sibling); generated: recursive trees (depth <= 4, 0-6 attributes, content none / "
        "bytes / children) over six string classes. Non-trivial = the tree needs at least one of: secondary-dictionary "
        "token, packed string, JID, 20- or 31-bit length, 16-bit list header, nesting depth >= 2, a sibling after a "
        "binary node. Distinct = distinct canonical JSON of the case.")
ASSUMPTIONS = [
    "strings are non-empty Latin-1, do not end in '@' and are not the two reserved stream words (quantifier)",
    "a node has bytes content, or children, or neither (the format carries one of them)",
]

_td = TokenDictionary()
_enc = WriteEncoder(_td)
_dec = ReadDecoder(_td)


def lib_encode(tree):
    return bytes(bytearray(WriteEncoder(_td).protocolTreeNodeToBytes(T.to_node(tree))))


def lib_decode(frame):
    return T.from_node(ReadDecoder(_td).getProtocolTreeNode(bytearray(frame)))


def selftest():
    p = R.selftest()
    if p:
        raise HarnessError("reference codec self-test failed: %s" % "; ".join(p))


def _through_layers(tree):
    """send through coder layer A, feed the bytes to coder layer B's receive"""
    stack_a, bottom_a, top_a = sandwich((YowCoderLayer,))
    stack_b, bottom_b, top_b = sandwich((YowCoderLayer,))
    top_a.toLower(T.to_node(tree))
    if len(bottom_a.sent) != 1:
        return None, "layer emitted %d frames" % len(bottom_a.sent)
    bottom_b.inject(bottom_a.sent[0])
    if len(top_b.got) != 1:
        return None, "receiving layer delivered %d nodes" % len(top_b.got)
    return T.from_node(top_b.got[0]), None


_CODEC_FUNCS = []


def _case_size(case):
    """bytes of strings and content in the case's tree (the codec's loops are linear in it)"""
    def size(t):
        tag, attrs, content = t
        n = len(tag) + sum(len(k) + len(v) for k, v in attrs.items())
        if isinstance(content, (bytes, bytearray)):
            n += len(content)
        elif isinstance(content, list):
            n += sum(size(c) for c in content)
        return n + 8
    try:
        return size(G.materialize(case["tree"])) if "tree" in case else 0
    except Exception:
        return 0


def run_case(case):
    """the codec's loops run under a deterministic iteration budget: a decoder or encoder that stops making progress ends the
    case (and is reported) instead of the run"""
    from ..kit.stackkit import loop_budget, LoopBudgetExceeded, functions_of
    if not _CODEC_FUNCS:
        import yowsup.layers.coder.decoder as _d
        import yowsup.layers.coder.encoder as _e
        _CODEC_FUNCS.extend(functions_of(_d, _e))
    try:
        with loop_budget(_CODEC_FUNCS, 20000000 + 400 * _case_size(case)):
            return _run_case(case)
    except LoopBudgetExceeded as e:
        out = Outcome()
        out.fail("roundtrip", "codec_loop_makes_no_progress", {"error": str(e)})
        return out


def _run_case(case):
    out = Outcome()
    tree = G.materialize(case["tree"])
    feats = G.features(tree)
    for f in sorted(feats):
        out.label(f)
    out.info = {"nt": bool(feats & G.NONTRIVIAL_FEATURES)}
    name = case.get("name")
    try:
        frame = lib_encode(tree)
    except Exception as e:
        out.fail("roundtrip", "roundtrip:encode_raises:%s" % type(e).__name__, {"error": repr(e), "name": name})
        return out
    try:
        back = lib_decode(frame)
    except Exception as e:
        out.fail("roundtrip", "roundtrip:decode_raises:%s" % type(e).__name__,
                 {"error": repr(e), "name": name, "frame_len": len(frame), "frame_head": frame[:48].hex()})
        return out
    d = T.diff(tree, back)
    if d:
        out.fail("roundtrip", "roundtrip:differs", {"diff": d, "name": name, "frame_len": len(frame)})
        return out
    if len(frame) <= 70000:
        try:
            back2, err = _through_layers(tree)
        except Exception as e:
            out.fail("layers", "layers:raises:%s" % type(e).__name__, {"error": repr(e), "name": name})
            return out
        if err:
            out.fail("layers", "layers:count", {"error": err})
        else:
            d = T.diff(tree, back2)
            if d:
                out.fail("layers", "layers:differs", {"diff": d})
    return out


def nontrivial(case, out):
    return bool(out.info and out.info["nt"])


def _enum_words():
    for spec in G.word_sweep():
        yield {"sub": "tree", "tree": spec}


def _enum_packed():
    for spec in G.packed_sweep():
        yield {"sub": "tree", "tree": spec}


def _enum_boundary(tier):
    def factory():
        for b in G.boundary_trees(tier):
            yield {"sub": "tree", "name": b["name"], "tree": b["tree"]}
    return factory


def plan(tier):
    quick = tier == "quick"
    return {
        "shards": 16,
        "enumerations": [
            ("boundary_trees", _enum_boundary(tier)),
            ("dictionary_words", _enum_words),
            ("packed_lengths", _enum_packed),
        ],
        "exhaustive": ["dictionary_words", "packed_lengths"],
        "strategies": [
            ("trees", G.tree_strategy(tier).map(lambda t: {"sub": "tree", "tree": t}), 200 if quick else 5000),
        ],
        "shrink": "hypothesis",
        "budget_s": 150 if quick else 1500,
    }

RULE += (' Boundary trees also include chains of single children 40 / 120 / 300 levels deep; codec objects are created per case.')
RULE += (" Content sizes include 8 MiB and above (every bit of the 31-bit length form set by some size) in both tiers.")
