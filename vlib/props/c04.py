"""C04 - encrypted transport: the handshake succeeds for every login variant and chunking, frames flow intact and in order.

The real network/segments/noise/coder/logger layers run under the deterministic scheduler against the Noise responder
double (XX, IK, IK with a stale key -> XXfallback).  The server's bytes are cut at generated positions, server frames may
be coalesced with the handshake reply, the history may contain attempts that are cut off before/during/after the handshake.
"""
from .. import compat  # noqa: F401
from ..core import Outcome
from ..kit import transport as TR
from ..kit import sched as S
from ..kit.noise_server import NoiseServer
from ..ref import codec as R
from hypothesis import strategies as st

from yowsup.config.v1.config import Config
from yowsup.env import YowsupEnv
from yowsup.layers.noise.layer import YowNoiseLayer
from yowsup.layers.network.layer import YowNetworkLayer
from yowsup.structs import ProtocolTreeNode
from consonance.structs.keypair import KeyPair
from consonance.structs.publickey import PublicKey
from dissononce.dh.x25519.x25519 import X25519DH

ID = "C04"
LEVEL = "exploration"
RULE = ("generated: variant in {XX without stored server key, IK with the right key, IK with a stale key}, edge routing info on/off, "
        "phone / push name / passive flag, configuration object in memory or a profile directory on disk (loaded and written by YowProfile), chunk sizes for every server byte string (incl. 1-byte chunks), 0-3 server stanzas coalesced "
        "with the handshake reply, 0-4 stanzas in each direction afterwards (optionally with one attempt to send a stanza that is just too large for a frame in between), a schedule of up to 200 choices for the interleaving of "
        "handshake worker and network thread, a history prefix of 0-2 attempts cut off before / during (after the client hello) / "
        "after the handshake (closed by the peer, or closed on request of the layer above from inside the delivery of a stanza that shares "
        "its read with the beginning of a further frame) followed by a reconnect, or an attempt whose server reply fails authentication with 1-3 further frames behind it in the same read, the attempts of the prefix optionally made with another passive flag / push name than the login under test; optionally a server reply that is not the authentic one for the login under test (a flipped, truncated or emptied field, a handshake message without server hello, garbage); optionally a server that answers the client's last handshake message at once and a layer above that fails on the n-th stanza arriving with the handshake (complete one-preemption sweeps for both). Non-trivial = a handshake message "
        "split into >= 2 chunks, or a frame coalesced with the handshake reply, or a reconnect in the history. "
        "Distinct = distinct canonical JSON.")
ASSUMPTIONS = [
    "the Noise responder double (dissononce primitives) stands for the WhatsApp server; certificates are not validated by either side",
    "interleavings at lock/queue operations and function calls of the anchored files under the GIL",
]

_dh = X25519DH()


def chunker_of(sizes):
    def f(b):
        if not sizes:
            return [b]
        out = []
        i = 0
        k = 0
        while i < len(b):
            n = max(1, sizes[k % len(sizes)])
            out.append(b[i:i + n])
            i += n
            k += 1
        return out
    return f


def stanza(i, direction):
    return ("iq" if i % 2 else "receipt", {"id": "%s-%d" % (direction, i), "type": "get" if i % 2 else "read",
                                           "pad": "x" * (1 + 37 * i % 300)}, None)


def _slow_delivery(case, out):
    """a delivery that outlasts its connection: the stanza that arrived with the handshake reply is still being handled by the
    layer above (on the handshake thread) while the connection is lost, a new one is established and the next login completes with
    stanzas queued behind its reply.  Stanzas are handled one at a time and in order - the old connection's, then the new one's"""
    server = NoiseServer()
    cfg = Config(phone="4915112345", cc="49", client_static_keypair=KeyPair.generate(), server_static_public=PublicKey(bytes(server.s.public.data)))
    rig = TR.Rig(choices=case.get("choices", ()), config=cfg, server=server, preempt=case.get("preempt"))
    try:
        top = rig.top
        durations = {"F0": case.get("old", 5.0), "G1": case.get("new", 10.0)}
        done = []
        in_progress = [0]
        overlap = []
        plain = top.receive

        def receive(node):
            ident = node["id"] if isinstance(node, ProtocolTreeNode) else None
            in_progress[0] += 1
            if in_progress[0] > 1:
                overlap.append(ident)
            try:
                if ident in durations:
                    rig.sched.sleep(durations[ident])
                plain(node)
                done.append(ident)
            finally:
                in_progress[0] -= 1
        top.receive = receive
        out.label("slow_delivery_across_a_reconnect")
        def wait_until(cond):
            # (time passes only when nothing can run: a thread that waits for the slow handler to finish gets there in the end)
            for _ in range(80):
                if cond():
                    return True
                rig.sched.advance(1.0)
                rig.run()
            return cond()
        for conn, frames in ((1, ["F0"]), (2, ["G1", "G2", "G3"][:1 + case.get("n", 2)])):
            rig.post("connect")
            rig.run()
            hello = [rig.take_client_bytes()]

            def hello_written():
                hello[0] += rig.take_client_bytes()
                return len(hello[0]) > 4
            wait_until(hello_written)
            try:
                server.feed(hello[0])
            except TR.ProtocolViolation as e:
                out.fail("handshake", "slow_delivery:server_rejects_client_bytes", {"connection": conn, "problem": str(e)})
                return out
            if server.state != "transport":
                out.fail("handshake", "slow_delivery:handshake_incomplete", {"connection": conn, "server_state": server.state, "stuck": rig.stuck_tasks()})
                return out
            reply = bytes(server.take_out())
            for ident in frames:
                server.send_frame(R.encode(("receipt", {"id": ident, "type": "read"}, None)))
            rig.deliver(reply + bytes(server.take_out()))
            rig.run()
            if conn == 1:
                # the connection is lost while F0 is still being handled; the main thread delivers the announcement
                if rig.current is not None and rig.current.up:
                    rig.current.inbox.put(("close",))
                rig.run()
                for _ in range(4):
                    if rig.detached_pending() == 0:
                        break
                    rig.post("loop")
                    rig.run()
                server.reset()
        expected = ["F0", "G1", "G2", "G3"][:2 + case.get("n", 2)]
        wait_until(lambda: len(done) >= len(expected) and not rig.sched.sleeping())
        stuck = rig.stuck_tasks()
        if stuck or rig.sched.sleeping():
            out.fail("hang", "slow_delivery:task_blocked_forever", {"blocked": stuck, "sleeping": rig.sched.sleeping()})
            return out
        if overlap:
            out.fail("order", "slow_delivery:two_stanzas_handled_at_the_same_time", {"second": overlap[:3], "finished_in_order": done})
            return out
        if done != expected:
            out.fail("order", "slow_delivery:stanzas_handled_out_of_order_or_lost", {"handled": done, "expected": expected})
            return out
        held = [repr(l) for l in S.held_locks()]
        if held:
            out.fail("hang", "slow_delivery:lock_still_held", {"locks": held[:3]})
        out.info = {"nt": True}
        return out
    finally:
        rig.close()


def run_case(case):
    if case.get("sub") == "slow_delivery":
        return _slow_delivery(case, Outcome())
    out = Outcome()
    server = NoiseServer()
    variant = case["variant"]
    phone = case.get("phone", "4915112345")
    kw = dict(phone=phone, cc=phone[:2], client_static_keypair=KeyPair.generate())
    if case.get("pushname"):
        kw["pushname"] = case["pushname"]
    if case.get("edge"):
        kw["edge_routing_info"] = bytes.fromhex(case["edge"])
    for attr in ("mcc", "mnc", "fdid"):
        # the network codes and the device id of the account are set independently of one another; an unset code is presented as 000
        if case.get(attr):
            kw[attr] = case[attr]
    if variant == "IK":
        kw["server_static_public"] = PublicKey(bytes(server.s.public.data))
    elif variant == "IK_stale":
        kw["server_static_public"] = PublicKey(bytes(_dh.generate_keypair().public.data))
    cfg = Config(**kw)
    home = None
    if case.get("real_profile"):
        # the account's configuration lives in a profile directory on disk and is loaded / written by YowProfile itself
        from ..kit import env as envkit
        from yowsup.config.manager import ConfigManager
        from yowsup.profile.profile import YowProfile
        home = envkit.fresh_home("c04")
        ConfigManager().save(phone, cfg)
        profile = YowProfile(phone)
        cfg = profile.config
        rig = TR.Rig(choices=case.get("choices", ()), profile=profile, write_config="real", server=server, preempt=case.get("preempt"))
        out.label("profile_on_disk")
    else:
        rig = TR.Rig(choices=case.get("choices", ()), config=cfg, server=server, preempt=case.get("preempt"))
    rig.top.passive = bool(case.get("passive"))
    try:
        return _run(case, out, rig, server, cfg, variant, phone)
    finally:
        rig.close()
        if home:
            from ..kit import env as envkit
            envkit.drop_home(home)


def _run(case, out, rig, server, cfg, variant, phone):
    chunker = chunker_of(case.get("chunks", []))
    out.label("variant=" + variant, "edge" if case.get("edge") else "no_edge")
    if case.get("chunks"):
        out.label("chunked")
    nt = False
    stored_before = bytes(cfg.server_static_public.data) if cfg.server_static_public else None

    def quiescent_ok(phase):
        stuck = rig.stuck_tasks()
        if stuck:
            out.fail("hang", "%s:task_blocked_forever" % phase, {"blocked": stuck})
            return False
        if rig.sched.overrun:
            out.fail("hang", "%s:no_progress" % phase, {})
            return False
        errs = [(n, repr(e)[:200]) for n, e in rig.task_errors() if not isinstance(e, TR.UpperLayerFailed)] + \
               [("net", repr(e)[:200]) for e in rig.net_errors if not isinstance(e, TR.UpperLayerFailed)]
        if errs:
            out.fail("hang", "%s:task_died" % phase, {"errors": errs})
            return False
        return True

    # the earlier attempts of the history may have been made with other per-login settings (the key-upload sequence logs in
    # passively, then reconnects actively on the same stack; the application may rename itself between logins)
    earlier = case.get("earlier") if case.get("prefix") else None
    if earlier:
        rig.top.passive = bool(earlier.get("passive"))
        cfg.pushname = earlier.get("pushname")
        out.label("settings_changed_between_logins")

    # ---- history prefix: attempts that are cut off
    for k, cut in enumerate(case.get("prefix", [])):
        nt = True
        out.label("cut_" + cut)
        if cut == "before":
            rig.connect_outcomes.append("refused")
            rig.post("connect")
            rig.run()
        elif cut == "closed_at_once":
            # the connection is closed by the peer the moment it is up, and the application asks for the next one straight away:
            # the login thread of the dead attempt may not even have started when the next attempt begins
            rig.connect_outcomes.append("ok_then_close")
            rig.post("connect")
            rig.post("loop")      # (the main thread delivers the deferred announcement once the connection is over, as always)
        elif cut == "during":
            rig.post("connect")
            rig.run()                    # client hello is out, the handshake worker waits for the server
            rig.take_client_bytes()      # the server never answers
            if rig.current is not None and rig.current.up:
                rig.current.inbox.put(("close",))
            rig.run()
        elif cut == "during_partial":
            rig.post("connect")
            rig.run()
            try:
                server.feed(rig.take_client_bytes())
            except TR.ProtocolViolation as e:
                out.fail("handshake", "prefix:server_rejects_client_bytes", {"problem": str(e)})
                return out
            o = server.take_out()
            if o:
                rig.deliver(o[:max(1, len(o) // 2)])     # half of the server hello, then the connection dies
                rig.run()
            if rig.current is not None and rig.current.up:
                rig.current.inbox.put(("close",))
            rig.run()
        elif cut == "rejected_trailing":
            # the server's reply fails authentication and the same read carries one more frame behind it; the attempt is
            # reported as failed, and nothing of it may be left over for the next attempt
            rig.post("connect")
            rig.run()
            server.corrupt_hello = True
            try:
                server.feed(rig.take_client_bytes())
            except TR.ProtocolViolation as e:
                out.fail("handshake", "prefix:server_rejects_client_bytes", {"problem": str(e)})
                return out
            finally:
                server.corrupt_hello = False
            n_extra = 1 + (case.get("after_server", 0) + k) % 3
            o = server.take_out() + b"".join(bytes([0, 0, 8 + i]) + bytes([0xc0 + i]) * (8 + i) for i in range(n_extra))
            rig.deliver(o)
            rig.run()
            if rig.current is not None and rig.current.up:
                rig.current.inbox.put(("close",))
            rig.run()
        elif cut == "after":
            probs = rig.login(chunker)
            if probs or server.state != "transport":
                out.fail("handshake", "prefix:handshake_failed", {"problems": [str(p) for p in probs], "state": server.state,
                                                                  "stuck": rig.stuck_tasks()})
                return out
            if rig.current is not None and rig.current.up:
                rig.current.inbox.put(("close",))
            rig.run()
        elif cut == "after_inside_delivery":
            # logged in; one read carries a stanza on which the layer above asks for a disconnect (as the auth layer does on
            # <failure>) followed by the first bytes of a further frame that is never completed
            probs = rig.login(chunker)
            if probs or server.state != "transport":
                out.fail("handshake", "prefix:handshake_failed", {"problems": [str(p) for p in probs], "state": server.state,
                                                                  "stuck": rig.stuck_tasks()})
                return out
            rig.top.disconnect_on_tag = "failure"
            server.send_frame(R.encode(("failure", {"reason": "401"}, None)))
            server.out += (b"\x00\x00\x20" + b"\xab" * 32)[:1 + (case.get("after_client", 0) * 3 + k) % 9]
            rig.deliver(server.take_out())
            rig.run()
            rig.top.disconnect_on_tag = None
            if rig.current is not None and rig.current.up:
                out.fail("handshake", "prefix:disconnect_request_ignored", {})
                return out
        rig.post("loop")
        rig.run()
        server.reset()
        # the handshake worker of a cut-off attempt may still wait for its server here; it has to be gone once the next
        # attempt has started (checked after the login under test)

    # ---- the login under test
    if earlier:
        rig.top.passive = bool(case.get("passive"))
        cfg.pushname = case.get("pushname")
    stored_at_login = bytes(cfg.server_static_public.data) if cfg.server_static_public else None
    server.corrupt_hello = case.get("corrupt") or False
    n_coalesced = case.get("coalesced", 0) if not case.get("corrupt") else 0
    config_writes_before = len(rig.config_writes)
    events_before = len(rig.top.events)
    got_before = len(rig.top.got)
    rig.post("connect")
    rig.run()
    b = rig.take_client_bytes()
    try:
        server.feed(b)
    except TR.ProtocolViolation as e:
        out.fail("handshake", "login:server_rejects_client_bytes", {"problem": str(e), "head": b[:12].hex()})
        return out
    if case.get("edge") and server.edge != bytes.fromhex(case["edge"]):
        out.fail("handshake", "login:edge_routing_info_differs", {"got": server.edge.hex() if server.edge else None})
        return out
    if not case.get("edge") and server.edge is not None:
        out.fail("handshake", "login:unexpected_edge_header", {})
        return out
    server_sent = []
    if case.get("eager") and n_coalesced and server.state == "finish":
        # first contact / fallback: the server can only send stanzas once it has read the client's last handshake message - it
        # does so at once, so that they may reach the client at the very moment its handshake completes
        for i in range(n_coalesced):
            server_sent.append(stanza(i, "s"))
        rig.eager_frames = [R.encode(t) for t in server_sent]
        if case.get("upper_raises") and n_coalesced >= case["upper_raises"]:
            rig.top.raise_on_nth = case["upper_raises"]
            rig.top._n_since = 0
            out.label("layer_above_fails_on_coalesced_stanza")
        out.label("server_answers_the_last_handshake_message_at_once")
        nt = True
    if case.get("upper_raises") and n_coalesced >= case["upper_raises"] and server.state == "transport":
        # the layer above fails on one of the stanzas that arrive with the handshake reply: that is that stanza's failure, the
        # login itself - and what it has to store - is not affected
        rig.top.raise_on_nth = case["upper_raises"]
        rig.top._n_since = 0
        out.label("layer_above_fails_on_coalesced_stanza")
    wire_bytes = None
    if n_coalesced and server.state == "transport":
        for i in range(n_coalesced):
            t = stanza(i, "s")
            server_sent.append(t)
            if case.get("wire") and n_coalesced >= 2 and i == n_coalesced - 1:
                # the last of them is still on the wire: a task of its own puts it into the socket whenever the scheduler lets
                # it - before, while or after the handshake thread hands the others upward
                held = server.take_out()
                server.send_frame(R.encode(t))
                wire_bytes = server.take_out()
                server.out += held
            else:
                server.send_frame(R.encode(t))
        nt = True
        out.label("coalesced")
    o = server.take_out()
    if case.get("corrupt") and case.get("behind") and getattr(server, "last_damage_certain", True):
        # the server does not wait for the client's verdict on its reply: further frames follow right behind the reply that will not
        # authenticate (what they hold cannot matter - no session was established).  The failure is reported all the same.  (Only
        # when the damage certainly changed the reply: behind an authentic reply such frames would be traffic that does not decrypt)
        import hashlib as _h
        for k in range(case["behind"]):
            junk = _h.shake_256(b"behind-%d" % k).digest(24 + 17 * k)
            o += len(junk).to_bytes(3, "big") + junk
        out.label("frames_right_behind_the_failing_reply")
    chunks = chunker(o)
    if len(chunks) >= 2:
        nt = True
    if wire_bytes is not None:
        # everything before it is in the socket already (in its chunks); the scheduler decides when the last stanza follows
        for ch in chunks:
            rig.deliver(ch)
        rig.sched.spawn("wire", lambda: rig.deliver(wire_bytes))
        out.label("last_coalesced_stanza_delivered_by_a_task_of_its_own")
        rig.run()
        chunks = []
    for ch in chunks:
        rig.deliver(ch)
        rig.run()
    probs = rig.shuttle(chunker)
    probs = list(rig.eager_problems) + list(probs)
    if rig.eager_frames is not None:
        # the handshake did not get as far as the client's last message (a corrupted reply): nothing was sent eagerly
        rig.eager_frames = None
        if not rig.eager_sent:
            server_sent = []
    if case.get("corrupt"):
        out.label("corrupt_reply", "corrupt=" + str(case["corrupt"]))
        # a reply that fails authentication must surface as a login failure, never hang
        if not quiescent_ok("corrupt"):
            return out
        new_events = rig.top.events[events_before:]
        frames = rig.top.got[got_before:]
        failure = [f for f in frames if isinstance(f, ProtocolTreeNode) and f.tag == "failure"]
        if not getattr(server, "last_damage_certain", True) and server.state == "transport" and not failure \
                and YowNoiseLayer.EVENT_HANDSHAKE_FAILED not in new_events:
            # the damage hit a part of the message's framing that carries nothing: the reply was the authentic one after all
            out.label("damage_without_effect")
            out.info = {"nt": False}
            return out
        if YowNoiseLayer.EVENT_HANDSHAKE_FAILED not in new_events or not failure:
            out.fail("handshake", "corrupt:failure_not_reported", {"events": [e.split(".")[-1] for e in new_events],
                                                                 "got": [getattr(f, "tag", type(f).__name__) for f in frames]})
            return out
        # the failed attempt's connection ends (the server closes it), the announcement is delivered, and the next attempt - whose
        # server reply is the authentic one - establishes the session: nothing of the failed attempt is left in its way
        if rig.current is not None and rig.current.up:
            rig.current.inbox.put(("close",))
        rig.run()
        for _ in range(4):
            if rig.detached_pending() == 0:
                break
            rig.post("loop")
            rig.run()
        rig.take_client_bytes()
        server.corrupt_hello = False
        server.reset()
        probs = rig.login(chunker)
        if probs or server.state != "transport":
            out.fail("handshake", "corrupt:login_after_the_failed_one_incomplete",
                     {"problems": [str(p)[:200] for p in probs], "server_state": server.state, "stuck": rig.stuck_tasks(), "damage": str(case["corrupt"])})
            return out
        out.label("login_after_a_failed_handshake")
        out.info = {"nt": True}
        return out
    if probs:
        out.fail("handshake", "login:server_rejects_client_bytes", {"problem": str(probs[0])})
        return out
    if server.state != "transport":
        out.fail("handshake", "login:handshake_incomplete", {"server_state": server.state, "stuck": rig.stuck_tasks(),
                                                             "events": [e.split(".")[-1] for e in rig.top.events[events_before:]]})
        return out
    if YowNoiseLayer.EVENT_HANDSHAKE_FAILED in rig.top.events[events_before:]:
        out.fail("handshake", "login:client_reports_failure", {"variant": variant, "prefix": case.get("prefix")})
        return out
    expect_variant = "XX" if stored_at_login is None else ("IK" if stored_at_login == bytes(server.s.public.data) else "XXfallback")
    if server.variant != expect_variant:
        out.fail("handshake", "login:wrong_variant", {"got": server.variant, "expected": expect_variant})
        return out
    # what the client presented
    p = server.parsed_payload()
    env = YowsupEnv.getCurrent()
    exp_push = case.get("pushname") or YowNoiseLayer.DEFAULT_PUSHNAME
    ver = [int(x) for x in env.getVersion().split(".")]
    got_ver = [p.user_agent.app_version.primary, p.user_agent.app_version.secondary, p.user_agent.app_version.tertiary,
               p.user_agent.app_version.quaternary]
    checks = [("username", p.username, int(phone)), ("passive", p.passive, bool(case.get("passive"))),
              ("push_name", p.push_name, exp_push), ("os_version", p.user_agent.os_version, env.getOSVersion()),
              ("manufacturer", p.user_agent.manufacturer, env.getManufacturer()), ("device", p.user_agent.device, env.getDeviceName()),
              ("app_version", got_ver[:len(ver)], ver),
              ("mcc", p.user_agent.mcc, case.get("mcc") or "000"), ("mnc", p.user_agent.mnc, case.get("mnc") or "000"),
              ("phone_id", p.user_agent.phone_id, case.get("fdid") or "")]
    for name, got, exp in checks:
        if got != exp:
            out.fail("handshake", "login:client_payload_%s" % name, {"got": repr(got), "expected": repr(exp)})
            return out
    # the server key is stored exactly when it differs from the stored one
    new_writes = rig.config_writes[config_writes_before:]
    server_key = bytes(server.s.public.data)
    if stored_at_login != server_key:
        if new_writes != [server_key]:
            out.fail("config", "config:changed_server_key_not_stored_once", {"writes": len(new_writes), "variant": variant})
            return out
    elif new_writes:
        out.fail("config", "config:rewritten_although_key_unchanged", {"writes": len(new_writes)})
        return out
    if case.get("real_profile"):
        # what a later process finds in the profile: the server's key, and the account's own key pair untouched
        from yowsup.profile.profile import YowProfile
        try:
            disk = YowProfile(phone).config
        except Exception as e:
            out.fail("config", "config:profile_does_not_load_after_login:%s" % type(e).__name__, {"error": repr(e)[:200]})
            return out
        got_key = bytes(disk.server_static_public.data) if disk is not None and disk.server_static_public else None
        if got_key != server_key:
            out.fail("config", "config:server_key_in_profile_differs", {"stored": got_key.hex() if got_key else None, "variant": variant})
            return out
        kp = disk.client_static_keypair
        if kp is None or bytes(kp.private.data) != bytes(cfg.client_static_keypair.private.data) \
                or bytes(kp.public.data) != bytes(cfg.client_static_keypair.public.data):
            out.fail("config", "config:client_key_pair_in_profile_changed", {})
            return out
    # ---- traffic afterwards, both directions, in order
    n_up = case.get("after_server", 0)
    if "layer_above_fails_on_coalesced_stanza" in out.labels:
        # the stanzas queued behind the one that failed are handed upward with the next read
        n_up = max(1, n_up)
    n_down = case.get("after_client", 0)
    client_sent = []

    refused = []

    def sender():
        for i in range(n_down):
            if i == 1 and case.get("too_large"):
                # between two stanzas the application tries one that cannot be framed (2^24 - 16 bytes of plaintext is the
                # smallest such size): it must be refused without disturbing the stanzas that follow
                try:
                    rig.stack.getLayer(3).toLower(bytearray(case["too_large"]))
                    refused.append("accepted")
                except Exception as e:
                    refused.append(type(e).__name__)
            t = stanza(i, "c")
            client_sent.append(t)
            rig.top.toLower(ProtocolTreeNode(t[0], dict(t[1])))
    if n_down:
        rig.sched.spawn("sender", sender)
    big = case.get("big")
    for i in range(n_up):
        t = stanza(100 + i, "s")
        if big and i == big[0] % n_up:
            # a stanza far larger than one read from the socket (a media thumbnail, a long group list)
            t = (t[0], t[1], bytes((i * 13 + k * 7) & 0xFF for k in range(251)) * (big[1] // 251 + 1))
            t = (t[0], t[1], t[2][:big[1]])
            out.label("server_stanza_of_%s" % (">=64KiB" if big[1] >= 65536 else "<64KiB"))
        server_sent.append(t)
        server.send_frame(R.encode(t))
    probs = rig.shuttle(chunker)
    if probs:
        out.fail("order", "transport:server_cannot_decrypt", {"problem": str(probs[0]), "refused_send": refused})
        return out
    if not quiescent_ok("transport"):
        return out
    if refused:
        out.label("oversized_send_between_stanzas")
        if refused != ["ValueError"]:
            out.fail("order", "transport:oversized_stanza_not_refused", {"result": refused})
            return out
    got_up = [(n.tag, dict(n.attributes), n.getData()) for n in rig.top.got[got_before:] if isinstance(n, ProtocolTreeNode)]
    if got_up != server_sent:
        out.fail("order", "transport:incoming_stanzas_differ", {"got": [g[1].get("id") for g in got_up],
                                                                "sent": [s[1].get("id") for s in server_sent]})
        return out
    try:
        got_down = [R.decode(f) for f in server.frames]
    except R.FormatError as e:
        out.fail("order", "transport:client_frame_not_a_stanza", {"error": str(e)})
        return out
    if got_down != client_sent:
        out.fail("order", "transport:outgoing_stanzas_differ", {"got": [g[1].get("id") for g in got_down],
                                                                "sent": [s[1].get("id") for s in client_sent]})
        return out
    held = [repr(l) for l in S.held_locks()]
    if held:
        out.fail("hang", "transport:lock_still_held", {"locks": held[:3]})
    out.info = {"nt": nt}
    return out


def nontrivial(case, out):
    return bool(out.info and out.info.get("nt"))


def shrink_candidates(case):
    if case.get("preempt") and len(case["preempt"]) > 1:
        for i in range(len(case["preempt"])):
            yield dict(case, preempt=case["preempt"][:i] + case["preempt"][i + 1:])
    if case.get("choices"):
        yield dict(case, choices=[])
        yield dict(case, choices=case["choices"][:len(case["choices"]) // 2])
    if case.get("chunks"):
        yield dict(case, chunks=[])
    for k in ("after_server", "after_client", "coalesced"):
        if case.get(k):
            yield dict(case, **{k: 0})
    if case.get("prefix"):
        yield dict(case, prefix=case["prefix"][1:])
        yield dict(case, prefix=case["prefix"][:-1])
    if case.get("edge"):
        yield dict(case, edge=None)


_generated_damage = st.one_of(
    st.builds(lambda f, p, m: "%s_flip@%d@%d" % (f, p, m), st.sampled_from(["ephemeral", "static", "payload", "wire", "wire"]), st.integers(0, 400), st.integers(0, 254)),
    st.builds(lambda f, n: "%s_cut@%d" % (f, n), st.sampled_from(["ephemeral", "static", "payload", "wire", "wire"]), st.integers(0, 400)),
    st.builds(lambda f, n: "%s_long@%d" % (f, n), st.sampled_from(["ephemeral", "static", "payload", "wire"]), st.integers(0, 39)))


def case_strategy():
    @st.composite
    def build(draw):
        n = draw(st.sampled_from([0, 0, 20, 200]))
        c = {
            "sub": "login",
            "variant": draw(st.sampled_from(["XX", "IK", "IK_stale"])),
            "phone": draw(st.text(alphabet="123456789", min_size=1, max_size=1)) + draw(st.text(alphabet="0123456789", min_size=5, max_size=14)),
            "passive": draw(st.booleans()),
            "pushname": draw(st.one_of(st.none(), st.text(min_size=1, max_size=12))),
            "edge": draw(st.one_of(st.none(), st.binary(min_size=1, max_size=40).map(lambda b: b.hex()))),
            "behind": draw(st.sampled_from([0, 0, 1, 2, 3])),
            "mcc": draw(st.one_of(st.none(), st.text(alphabet="0123456789", min_size=3, max_size=3))),
            "mnc": draw(st.one_of(st.none(), st.text(alphabet="0123456789", min_size=2, max_size=3))),
            "fdid": draw(st.one_of(st.none(), st.uuids().map(str))),
            "chunks": draw(st.one_of(st.just([]), st.just([1]), st.lists(st.integers(1, 90), min_size=1, max_size=6))),
            "coalesced": draw(st.integers(0, 3)),
            "after_server": draw(st.integers(0, 4)),
            "after_client": draw(st.integers(0, 4)),
            "prefix": draw(st.lists(st.sampled_from(["before", "during", "during_partial", "after", "after_inside_delivery", "rejected_trailing", "closed_at_once", "closed_at_once"]), min_size=0, max_size=2)),
            "corrupt": draw(st.one_of(st.sampled_from([False] * 12 + [True, True] + DAMAGE), st.sampled_from([False] * 3), _generated_damage)),
            "upper_raises": draw(st.sampled_from([0, 0, 0, 1, 1, 2, 3])),
            "eager": draw(st.booleans()),
            "wire": draw(st.booleans()),
            "earlier": draw(st.one_of(st.none(), st.fixed_dictionaries({"passive": st.booleans(),
                                                                        "pushname": st.one_of(st.none(), st.text(min_size=1, max_size=12))}))),
            "real_profile": draw(st.sampled_from([False, False, True])),
            "too_large": draw(st.sampled_from([0, 0, 0, 0, 2 ** 24 - 16, 2 ** 24 - 15, 2 ** 24])),
            "big": draw(st.one_of(st.none(), st.none(), st.tuples(st.integers(0, 3), st.sampled_from([5000, 65000, 65536, 70000, 200000])).map(list))),
            "choices": draw(st.lists(st.integers(0, 5), min_size=n, max_size=n)),
        }
        if n == 0 and draw(st.booleans()):
            # context-bounded schedule: up to three preemption points
            c["preempt"] = draw(st.lists(st.tuples(st.integers(0, 400), st.integers(0, 3)).map(list), min_size=1, max_size=3))
        if c["big"]:
            # read sizes of real sockets (the dispatchers read 1024 bytes at a time), not byte by byte
            c["chunks"] = draw(st.lists(st.sampled_from([512, 1024, 1024, 4096, 16384, 65535, 65536, 100000]), min_size=1, max_size=4))
            c["after_server"] = max(1, c["after_server"])
        return c
    return build()


DAMAGE = ["ephemeral_flip", "ephemeral_short", "ephemeral_empty", "static_flip", "static_short", "static_empty", "payload_flip", "payload_short",
          "payload_empty", "no_server_hello", "garbage"]


def _enum_basic():
    for variant in ("XX", "IK"):
        for mcc, mnc, fdid in (("262", None, None), (None, "07", None), ("310", "260", "3c1f9c8e-5d0a-4b8f-9a57-0d6c4f0f7b11"),
                               (None, None, "3c1f9c8e-5d0a-4b8f-9a57-0d6c4f0f7b11")):
            yield {"sub": "login", "variant": variant, "phone": "4915112345", "passive": False, "pushname": None, "edge": None,
                   "chunks": [], "coalesced": 0, "after_server": 1, "after_client": 1, "prefix": [], "corrupt": False, "choices": [],
                   "mcc": mcc, "mnc": mnc, "fdid": fdid}
        for size in (65000, 70000):
            for chunks in ([], [1024], [65536, 7]):
                yield {"sub": "login", "variant": variant, "phone": "4915112345", "passive": False, "pushname": None, "edge": None,
                       "chunks": chunks, "coalesced": 0, "after_server": 3, "after_client": 1, "prefix": [], "corrupt": False, "choices": [],
                       "big": [1, size]}
    for variant in ("XX", "IK", "IK_stale"):
        for chunks in ([], [1], [7, 40]):
            for prefix in ([], ["before"], ["during"], ["during_partial"], ["after"], ["after_inside_delivery"], ["rejected_trailing"]):
                yield {"sub": "login", "variant": variant, "phone": "4915112345", "passive": variant == "XX", "pushname": None, "edge": None,
                       "chunks": chunks, "coalesced": 2, "after_server": 2, "after_client": 2, "prefix": prefix, "corrupt": False, "choices": []}
        for prefix in (["after"], ["during"], ["rejected_trailing"]):
            yield {"sub": "login", "variant": variant, "phone": "4915112345", "passive": False, "pushname": "second name", "edge": None,
                   "chunks": [], "coalesced": 1, "after_server": 1, "after_client": 1, "prefix": prefix, "corrupt": False, "choices": [],
                   "earlier": {"passive": True, "pushname": None}}
        yield {"sub": "login", "variant": variant, "phone": "12025550100", "passive": False, "pushname": "Zoë", "edge": "0802100118",
               "chunks": [3], "coalesced": 0, "after_server": 1, "after_client": 1, "prefix": [], "corrupt": True, "choices": []}
        for k in (1, 2):
            yield {"sub": "login", "variant": variant, "phone": "4915112345", "passive": False, "pushname": None, "edge": None, "chunks": [],
                   "coalesced": 2, "after_server": 2, "after_client": 2, "prefix": [], "corrupt": False, "choices": [], "upper_raises": k}
        for how in DAMAGE:
            yield {"sub": "login", "variant": variant, "phone": "12025550100", "passive": False, "pushname": None, "edge": None,
                   "chunks": [], "coalesced": 0, "after_server": 1, "after_client": 1, "prefix": [], "corrupt": how, "choices": []}
            yield {"sub": "login", "variant": variant, "phone": "12025550100", "passive": False, "pushname": None, "edge": None,
                   "chunks": [], "coalesced": 0, "after_server": 1, "after_client": 1, "prefix": [], "corrupt": how, "choices": [],
                   "behind": 1 + len(str(how)) % 2}
        for size in (2 ** 24 - 16, 2 ** 24):
            yield {"sub": "login", "variant": variant, "phone": "4915112345", "passive": False, "pushname": None, "edge": None, "chunks": [],
                   "coalesced": 0, "after_server": 1, "after_client": 3, "prefix": [], "corrupt": False, "choices": [], "too_large": size}


def _enum_eager_sweep(limit):
    """first contact and fallback with a server that answers the client's last handshake message at once (two stanzas), one
    preemption at every yield point: the stanzas may reach the client before, while or after its handshake completes; in half
    of the cases the layer above fails on the first of them"""
    def factory():
        for variant in ("XX", "IK_stale"):
            for raises in (0, 1):
                for k in range(limit):
                    for sel in (0, 1):
                        yield {"sub": "login", "variant": variant, "phone": "4915112345", "passive": False, "pushname": None, "edge": None,
                               "chunks": [], "coalesced": 2, "after_server": 1, "after_client": 1, "prefix": [], "corrupt": False,
                               "choices": [], "preempt": [[k, sel]], "eager": True, "upper_raises": raises}
    return factory


def _enum_wire_sweep(limit):
    """resumed login, the reply's read carries the first of two stanzas, the second is put into the socket by a task of its own:
    one preemption at every yield point, any of the other ready tasks taking over"""
    def factory():
        for k in range(limit):
            for sel in (0, 1, 2):
                yield {"sub": "login", "variant": "IK", "phone": "4915112345", "passive": False, "pushname": None, "edge": None,
                       "chunks": [], "coalesced": 2, "after_server": 1, "after_client": 0, "prefix": [], "corrupt": False,
                       "choices": [], "preempt": [[k, sel]], "wire": True}
    return factory


def _enum_closed_at_once_sweep(limit):
    """an attempt whose connection the peer closes the moment it is up, followed straight away by the login under test: one
    preemption at every yield point - in particular the first attempt's login thread gets to run at every later moment"""
    def factory():
        for variant in ("XX", "IK"):
            base = {"sub": "login", "variant": variant, "phone": "4915112345", "passive": False, "pushname": None, "edge": None,
                    "chunks": [], "coalesced": 0, "after_server": 1, "after_client": 1, "prefix": ["closed_at_once"], "corrupt": False, "choices": []}
            yield dict(base)
            for k in range(limit):
                for sel in (0, 1, 2, 3):
                    yield dict(base, preempt=[[k, sel]])
    return factory


def _enum_slow_delivery():
    for old, new in ((5.0, 10.0), (10.0, 2.0), (1.0, 1.0), (20.0, 0.0)):
        for n in (1, 2):
            yield {"sub": "slow_delivery", "old": old, "new": new, "n": n, "choices": []}


def slow_delivery_strategy():
    return st.builds(lambda o, n, k, pre: {"sub": "slow_delivery", "old": o, "new": n, "n": k, "choices": [], "preempt": pre},
                     st.sampled_from([0.0, 1.0, 4.0, 5.0, 10.0, 20.0]), st.sampled_from([0.0, 1.0, 2.0, 7.0, 10.0]), st.integers(0, 2),
                     st.lists(st.tuples(st.integers(0, 900), st.integers(0, 3)).map(list), min_size=0, max_size=3))


def _enum_preemption_sweep(limit):
    """context bound 1, complete: one preemption at every yield point of the login (either other ready task), with server frames
    arriving in the same read as the handshake reply"""
    def factory():
        for variant in ("IK", "XX"):
            for k in range(limit):
                for sel in (0, 1):
                    yield {"sub": "login", "variant": variant, "phone": "4915112345", "passive": False, "pushname": None, "edge": None,
                           "chunks": [], "coalesced": 2, "after_server": 0, "after_client": 0, "prefix": [], "corrupt": False,
                           "choices": [], "preempt": [[k, sel]]}
    return factory


def plan(tier):
    quick = tier == "quick"
    return {
        "shards": 16,
        "enumerations": [("basic_matrix", _enum_basic), ("single_preemption_sweep", _enum_preemption_sweep(260 if quick else 700)),
                         ("eager_server_sweep", _enum_eager_sweep(260 if quick else 700)),
                         ("wire_task_sweep", _enum_wire_sweep(260 if quick else 700)),
                         ("closed_at_once_sweep", _enum_closed_at_once_sweep(200 if quick else 600)),
                         ("slow_delivery_across_a_reconnect", _enum_slow_delivery)],
        "strategies": [("logins", case_strategy(), 60 if quick else 4000), ("slow_delivery", slow_delivery_strategy(), 20 if quick else 1500)],
        "shrink": "ddmin",
        "budget_s": 150 if quick else 1500,
    }

RULE += (' Also: a server stanza of 5000..200000 bytes delivered in socket-sized reads; handshake-reply damage generated as (field, position, bit pattern), truncation or extension of a field or of the serialised message; after every reported handshake failure a further login must succeed; cut kind closed_at_once (the peer closes the connection the moment it is up, the next login follows at once) with a complete single-preemption sweep; slow_delivery: a stanza that arrived with the handshake reply is still being handled by the layer above (virtual time) while the connection is lost and the next login completes with stanzas queued behind its reply - stanzas are handled one at a time and in order.')
RULE += (" The client attributes presented include the account's network codes (mcc, mnc) and device id, each set or unset independently.")
RULE += (" A reply that fails authentication may have further frames right behind it in the same delivery (behind).")
