"""C19 - account configuration: serialisation round trip over both formats and the three load paths, and
crash atomicity of saving a profile's configuration (crash-point recorder, DESIGN.md 4.7)."""
import os

from .. import compat  # noqa: F401
from ..core import Outcome
from ..kit import env as envkit
from ..kit.crash import CrashRecorder
from hypothesis import strategies as st

from yowsup.config.manager import ConfigManager
from yowsup.config.v1.config import Config
from yowsup.common.tools import StorageTools
from consonance.structs.keypair import KeyPair
from consonance.structs.publickey import PublicKey

ID = "C19"
LEVEL = "fault_enumeration"
RULE = ("round trip: generated configurations over every subset of the 15 optional fields (JSON: arbitrary unicode text, "
        "ints or strings for the code fields; key=value: strings without '#', ';', line breaks or surrounding blanks), random "
        "64-byte key pair / 32-byte server key / 0-64-byte binary ids, saved through ConfigManager.save (by profile name - also a "
        "never-used profile -, to a path with extension, to a path without extension, to config.<ext> inside the profile "
        "directory) and loaded through ConfigManager.load by that path or by profile name. Crash: a save of configuration B over "
        "an existing profile holding A is executed under the crash-point recorder; every distinct on-disk state observed at a "
        "C-call boundary is loaded by profile name and must equal A or B; in that state a further save (A again, or a third generated configuration) must then be what the profile loads. Profile API: the configuration is loaded through "
        "YowProfile(name).config, changed through the field setters, written with YowProfile.write_config under the recorder and "
        "loaded by a fresh YowProfile (what the noise layer does when the server key changes). Non-trivial = at least 3 optional fields, or a "
        "non-ASCII value, or a crash case (each crash state counts as one evaluation). Distinct = distinct canonical JSON.")
ASSUMPTIONS = [
    "crash model: process death (kill -9) at C-level call boundaries; no torn single write() and no power loss",
    "saving by profile name is only exercised with the default JSON format: every caller in the repository does so, and the "
    "profile file name is fixed to config.json (key=value content under that name is outside the callers' domain)",
    "the deprecated password field is not generated",
]

TEXT_FIELDS = ["login", "pushname", "fdid", "chat_dns_domain"]
CODE_FIELDS = ["cc", "mcc", "mnc", "sim_mcc", "sim_mnc"]
BIN_FIELDS = ["id", "expid", "edge_routing_info"]
ALL_FIELDS = ["phone"] + CODE_FIELDS + TEXT_FIELDS + BIN_FIELDS + ["client_static_keypair", "server_static_public"]


def build_config(fields):
    kw = {}
    for k, v in fields.items():
        if k in BIN_FIELDS:
            kw[k] = bytes.fromhex(v)
        elif k == "client_static_keypair":
            kw[k] = KeyPair.from_bytes(bytes.fromhex(v))
        elif k == "server_static_public":
            kw[k] = PublicKey(bytes.fromhex(v))
        else:
            kw[k] = v
    return Config(**kw)


def field_value(cfg, k):
    v = getattr(cfg, k)
    if v is None:
        return None
    if k == "client_static_keypair":
        return ("keypair", bytes(v.private.data), bytes(v.public.data))
    if k == "server_static_public":
        return ("public", bytes(v.data))
    if k in BIN_FIELDS:
        return ("bin", bytes(v)) if isinstance(v, (bytes, bytearray)) else ("notbytes", repr(v))
    return v


def config_diff(a, b):
    """None when field-by-field equal"""
    if b is None:
        return "loaded configuration is None"
    if not isinstance(b, Config):
        return "loaded object is %s" % type(b).__name__
    for k in ALL_FIELDS:
        va, vb = field_value(a, k), field_value(b, k)
        if va != vb or type(va) is not type(vb):
            return "field %s: %r != %r" % (k, _short(vb), _short(va))
    return None


def _short(v):
    r = repr(v)
    return r if len(r) < 120 else r[:120] + "..."


def _exc(e):
    return "%s: %s" % (type(e).__name__, str(e)[:200])


def _other_filesystem(home):
    """a directory on another filesystem than the profile's, or None when this machine offers none"""
    for cand in ("/dev/shm", "/run/shm"):
        try:
            if os.path.isdir(cand) and os.access(cand, os.W_OK) and os.stat(cand).st_dev != os.stat(home).st_dev:
                return cand
        except OSError:
            pass
    return None


def run_case(case):
    import tempfile
    out = Outcome()
    home = envkit.fresh_home("c19")
    cwd = os.getcwd()
    os.chdir(home)
    # where temporary files go is the user's environment, not the library's choice: on many systems the temp directory is a memory
    # filesystem while the configuration lives on disk (tmp_elsewhere), on others both are one filesystem
    tmp_before, env_before, tmp_dir = tempfile.tempdir, os.environ.get("TMPDIR"), None
    if case.get("tmp_elsewhere"):
        other = _other_filesystem(home)
        if other:
            tmp_dir = tempfile.mkdtemp(prefix="verif_c19_", dir=other)
            tempfile.tempdir = tmp_dir
            os.environ["TMPDIR"] = tmp_dir
            out.label("temp_directory_on_another_filesystem")
        else:
            out.label("no_other_filesystem_on_this_machine")
    try:
        if case["sub"] == "rt":
            _roundtrip(case, out, home)
        elif case["sub"] == "crash":
            _crash(case, out, home)
        elif case["sub"] == "profile_api":
            _profile_api(case, out, home)
        else:
            raise ValueError(case["sub"])
    finally:
        os.chdir(cwd)
        envkit.drop_home(home)
        if tmp_dir:
            import shutil
            tempfile.tempdir = tmp_before
            if env_before is None:
                os.environ.pop("TMPDIR", None)
            else:
                os.environ["TMPDIR"] = env_before
            shutil.rmtree(tmp_dir, ignore_errors=True)
    return out


def _nontrivial_fields(fields):
    n_opt = len([k for k in fields if k != "phone"])
    non_ascii = any(isinstance(v, str) and not v.isascii() for k, v in fields.items()
                    if k in TEXT_FIELDS or k in CODE_FIELDS or k == "phone")
    return n_opt >= 3 or non_ascii


def _roundtrip(case, out, home):
    fields = case["fields"]
    fmt = case["fmt"]
    how = case["how"]
    profile = case.get("profile", "acct1")
    out.label("fmt=" + fmt, "how=" + how, "fields=%s" % ("0-2" if len(fields) <= 2 else "3-7" if len(fields) <= 7 else "8+"))
    out.info = {"nt": _nontrivial_fields(fields)}
    cfg = build_config(fields)
    cm = ConfigManager()
    stype = ConfigManager.TYPE_JSON if fmt == "json" else ConfigManager.TYPE_KEYVAL
    ext = "json" if fmt == "json" else "yo"
    key = "%s:%s" % (fmt, how)
    try:
        if how == "profile":
            out.label("fresh_profile")
            cm.save(profile, cfg, stype)
            target = profile
        elif how == "dest_ext":
            target = os.path.join(home, "exported." + ext)
            cm.save(profile, cfg, stype, dest=target)
        elif how == "dest_noext":
            target = os.path.join(home, "exportedcfg")
            cm.save(profile, cfg, stype, dest=target)
        elif how == "profile_file":
            d = StorageTools.getStorageForProfile(profile)
            os.makedirs(d, exist_ok=True)
            cm.save(profile, cfg, stype, dest=os.path.join(d, "config." + ext))
            target = profile
        else:
            raise ValueError(how)
    except Exception as e:
        out.fail("save", "save_raises:%s:%s" % (key, type(e).__name__), {"error": _exc(e), "fields": sorted(fields)})
        return
    for variant in (("load", False),) + ((("load_profile_only", True),) if target == profile else ()):
        try:
            back = ConfigManager().load(target, profile_only=variant[1]) if variant[1] else ConfigManager().load(target)
        except Exception as e:
            out.fail("load", "load_raises:%s:%s" % (key, type(e).__name__), {"error": _exc(e), "variant": variant[0]})
            return
        d = config_diff(cfg, back)
        if d:
            out.fail("roundtrip", "roundtrip_differs:%s" % key, {"diff": d, "variant": variant[0]})
            return
    # a later save under the profile name (what the library does when the server key changes) must be what the profile loads next
    if how in ("profile", "profile_file") and case.get("fields2") is not None:
        cfg2 = build_config(case["fields2"])
        # who makes the second save: the same manager object, or another one (every YowProfile has its own; another process)
        cm2 = ConfigManager() if case.get("other_writer") else cm
        if case.get("fail_first"):
            # the first attempt fails with an I/O error while the file is being written; it is then simply tried again
            real_fsync = os.fsync
            state = {"n": 0}

            def failing_fsync(fd):
                state["n"] += 1
                if state["n"] == 1:
                    raise OSError(28, "No space left on device")
                return real_fsync(fd)
            os.fsync = failing_fsync
            try:
                cm2.save(profile, cfg2)
                out.label("first_attempt_did_not_sync")
            except OSError:
                out.label("save_failed_then_retried")
            except Exception as e:
                out.fail("save", "second_save_raises:%s:%s" % (key, type(e).__name__), {"error": _exc(e)})
                return
            finally:
                os.fsync = real_fsync
            # after the attempt that failed the profile still loads - as the previous configuration or as the new one
            try:
                mid = ConfigManager().load(profile)
            except Exception as e:
                out.fail("load", "load_raises_after_a_failed_save:%s:%s" % (key, type(e).__name__), {"error": _exc(e)})
                return
            if mid is None or (config_diff(cfg, mid) and config_diff(cfg2, mid)):
                out.fail("roundtrip", "configuration_%s_after_a_failed_save:%s" % ("lost" if mid is None else "neither_previous_nor_new", key), {})
                return
        try:
            cm2.save(profile, cfg2)
            back2 = ConfigManager().load(profile)
        except Exception as e:
            out.fail("save", "second_save_raises:%s:%s" % (key, type(e).__name__), {"error": _exc(e)})
            return
        out.label("second_save_by_profile_name" + ("_by_another_manager" if cm2 is not cm else ""))
        d = config_diff(cfg2, back2)
        if d:
            stale = config_diff(cfg, back2) is None
            out.fail("roundtrip", "second_save_not_loaded:%s%s" % (key, ":stale_first_file_loaded" if stale else ""), {"diff": d})
            return
        if case.get("again") and how == "profile":
            # ... and the first writer saving its configuration once more makes that the profile's configuration again
            try:
                cm.save(profile, cfg, stype)
                back3 = ConfigManager().load(profile)
            except Exception as e:
                out.fail("save", "third_save_raises:%s:%s" % (key, type(e).__name__), {"error": _exc(e)})
                return
            out.label("first_configuration_saved_again")
            d = config_diff(cfg, back3)
            if d:
                out.fail("roundtrip", "save_of_an_earlier_configuration_not_loaded:%s" % key, {"diff": d, "other_writer": bool(case.get("other_writer"))})
                return
    # serialising the loaded configuration again gives the same text (stability of the representation)
    try:
        s1 = cm.config_to_str(cfg, stype)
        s2 = cm.config_to_str(back, stype)
        if s1 != s2:
            out.fail("roundtrip", "reserialisation_differs:%s" % fmt, {"a": s1[:300], "b": s2[:300]})
    except Exception as e:
        out.fail("roundtrip", "reserialise_raises:%s" % type(e).__name__, {"error": _exc(e)})


def _crash(case, out, home):
    profile = case.get("profile", "acct1")
    old = build_config(case["old"])
    new = build_config(case["new"])
    out.label("crash")
    cm = ConfigManager()
    try:
        cm.save(profile, old)
    except Exception as e:
        out.fail("save", "save_raises:json:profile:%s" % type(e).__name__, {"error": _exc(e)})
        return
    first = ConfigManager().load(profile)
    d = config_diff(old, first)
    if d:
        out.fail("roundtrip", "roundtrip_differs:json:profile", {"diff": d})
        return
    snaproot = os.path.join(home, "..", "snaps_" + os.path.basename(home))
    os.makedirs(snaproot, exist_ok=True)
    rec = CrashRecorder(home, snaproot)
    try:
        res, exc = rec.run(lambda: cm.save(profile, new))
        if exc is not None:
            out.fail("save", "save_raises:json:profile:%s" % type(exc).__name__, {"error": _exc(exc)})
            return
        states = 0
        saw_old = saw_new = 0
        for tag, path, fp in rec.snaps:
            os.environ["XDG_CONFIG_HOME"] = path
            os.environ["HOME"] = path
            states += 1
            try:
                got = ConfigManager().load(profile)
            except Exception as e:
                out.fail("crash", "crash:profile_does_not_load", {"at": tag, "state": states, "error": _exc(e),
                                                                 "files": [f for f, h in fp]})
                break
            d_old = config_diff(old, got)
            d_new = config_diff(new, got)
            if d_old and d_new:
                out.fail("crash", "crash:neither_previous_nor_new", {"at": tag, "state": states, "vs_old": d_old, "vs_new": d_new,
                                                                    "files": [f for f, h in fp]})
                break
            saw_old += d_old is None
            saw_new += d_new is None
            # the restarted process goes on using the profile: what it saves next (here: the previous configuration again, or
            # a third one) is what the profile then holds, whatever the interrupted save left lying around
            after = build_config(case["after"]) if case.get("after") is not None else old
            try:
                ConfigManager().save(profile, after)
                got2 = ConfigManager().load(profile)
            except Exception as e:
                out.fail("crash", "crash:save_after_restart_fails:%s" % type(e).__name__, {"at": tag, "state": states, "error": _exc(e),
                                                                                         "files": [f for f, h in fp]})
                break
            d_after = config_diff(after, got2)
            if d_after:
                out.fail("crash", "crash:save_after_restart_not_effective", {"at": tag, "state": states, "diff": d_after})
                break
            out.label("save_after_restart")
        os.environ["XDG_CONFIG_HOME"] = home
        os.environ["HOME"] = home
        final = ConfigManager().load(profile)
        d = config_diff(new, final)
        if d:
            out.fail("roundtrip", "save_over_existing_not_effective", {"diff": d})
        out.evals = max(1, states)
        out.info = {"nt": True, "states": states, "events": rec.events}
        out.label("crash_states=%s" % ("1" if states <= 1 else "2" if states == 2 else "3+"))
    finally:
        rec.cleanup()
        import shutil
        shutil.rmtree(snaproot, ignore_errors=True)


def _profile_api(case, out, home):
    """the way the stack itself uses the configuration: loaded through YowProfile(name).config, changed through the field setters
    (the noise layer stores a changed server key like this during login), written back through YowProfile.write_config - under the
    crash-point recorder - and loaded by a fresh YowProfile"""
    from yowsup.profile.profile import YowProfile
    profile = case.get("profile", "acct1")
    old = build_config(case["old"])
    out.label("profile_api")
    out.info = {"nt": True}
    try:
        ConfigManager().save(profile, old)
        p = YowProfile(profile)
        c = p.config
    except Exception as e:
        out.fail("load", "profile_api:load_raises:%s" % type(e).__name__, {"error": _exc(e)})
        return
    d = config_diff(old, c)
    if d:
        out.fail("roundtrip", "profile_api:loaded_config_differs", {"diff": d})
        return
    exp_user = old.login or old.phone or profile
    if p.username != exp_user:
        out.fail("roundtrip", "profile_api:username_differs", {"got": repr(p.username), "expected": repr(exp_user)})
        return
    merged = dict(case["old"])
    merged.update(case["edits"])
    expected = build_config(merged)
    edits_obj = build_config(case["edits"])
    try:
        for k in case["edits"]:
            setattr(c, k, getattr(edits_obj, k))
    except Exception as e:
        out.fail("save", "profile_api:setter_raises:%s" % type(e).__name__, {"error": _exc(e)})
        return
    snaproot = os.path.join(home, "..", "snaps_" + os.path.basename(home))
    os.makedirs(snaproot, exist_ok=True)
    rec = CrashRecorder(home, snaproot)
    try:
        res, exc = rec.run(lambda: p.write_config(c))
        if exc is not None:
            out.fail("save", "profile_api:write_config_raises:%s" % type(exc).__name__, {"error": _exc(exc)})
            return
        states = 0
        for tag, path, fp in rec.snaps:
            os.environ["XDG_CONFIG_HOME"] = path
            os.environ["HOME"] = path
            states += 1
            try:
                got = YowProfile(profile).config
            except Exception as e:
                out.fail("crash", "crash:profile_does_not_load", {"at": tag, "state": states, "error": _exc(e), "files": [f for f, h in fp]})
                break
            if config_diff(old, got) and config_diff(expected, got):
                out.fail("crash", "crash:neither_previous_nor_new", {"at": tag, "state": states, "vs_new": config_diff(expected, got)})
                break
        os.environ["XDG_CONFIG_HOME"] = home
        os.environ["HOME"] = home
        if out.violations:
            return
        try:
            final = YowProfile(profile).config
        except Exception as e:
            out.fail("load", "profile_api:reload_raises:%s" % type(e).__name__, {"error": _exc(e)})
            return
        d = config_diff(expected, final)
        if d:
            out.fail("roundtrip", "profile_api:written_config_differs", {"diff": d, "edited": sorted(case["edits"])})
        out.evals = max(1, states)
    finally:
        rec.cleanup()
        import shutil
        shutil.rmtree(snaproot, ignore_errors=True)


def nontrivial(case, out):
    return bool(out.info and out.info.get("nt"))


# ----------------------------------------------------------------------------------------------
# generators

def _kv_clean(s):
    s = "".join(ch for ch in s if ch not in "#;\n\r")
    return s.strip()


_uni_plain = st.text(max_size=24)
_uni = st.one_of(st.text(max_size=24), st.text(max_size=24),
                 # any Python string, including lone surrogates (what a surrogateescape-decoded command line argument holds)
                 st.text(alphabet=st.characters(exclude_categories=()), max_size=12))
_ascii_txt = st.one_of(
    st.text(alphabet="abcdefghijklmnopqrstuvwxyzABCDEFGHIJKLMNOPQRSTUVWXYZ0123456789 ._-+/=:@!\"'\\{}[],", max_size=24),
    st.text(alphabet="abcdefghijklmnopqrstuvwxyzABCDEFGHIJKLMNOPQRSTUVWXYZ0123456789 ._-+/=:@!\"'\\{}[],", max_size=24),
    # a long value now and then: the serialised file grows past 1 KiB / 4 KiB (format detection and writing work on the whole file)
    st.builds(lambda unit, n: (unit * n)[:n], st.sampled_from(["push name ", "x", "Zo\u00eb \u263a ", "a=b;c#d "]), st.sampled_from([300, 1100, 5000])))
_digits = st.text(alphabet="0123456789", min_size=1, max_size=15)


def fields_strategy(fmt):
    if fmt == "json":
        text = st.one_of(_uni, _ascii_txt)
        code = st.one_of(_digits, st.integers(0, 999), _uni)
        phone = st.one_of(_digits, st.integers(1, 10 ** 15))
    else:
        # (a key=value file is plain text: it has no way to write a lone surrogate, so those stay with the JSON format)
        text = st.one_of(_uni_plain, _ascii_txt).map(_kv_clean)
        code = st.one_of(_digits, _uni_plain.map(_kv_clean))
        phone = _digits
    binv = st.binary(min_size=0, max_size=64).map(lambda b: b.hex())
    spec = {"phone": phone}
    for k in CODE_FIELDS:
        spec[k] = code
    for k in TEXT_FIELDS:
        spec[k] = text
    for k in BIN_FIELDS:
        spec[k] = binv
    spec["client_static_keypair"] = st.binary(min_size=64, max_size=64).map(lambda b: b.hex())
    spec["server_static_public"] = st.binary(min_size=32, max_size=32).map(lambda b: b.hex())

    @st.composite
    def build(draw):
        mode = draw(st.integers(0, 9))
        if mode == 0:
            chosen = list(ALL_FIELDS)
        elif mode == 1:
            chosen = ["phone", "cc", "client_static_keypair"]
        else:
            chosen = [k for k in ALL_FIELDS if draw(st.booleans())]
        return {k: draw(spec[k]) for k in chosen}
    return build()


_profile = st.one_of(st.text(alphabet="abcdefghijklmnopqrstuvwxyz0123456789", min_size=1, max_size=12), _digits)


def rt_strategy():
    def extras(c, bits):
        if c.get("fields2") is not None:
            if bits & 1:
                c["other_writer"] = True
            if bits & 2:
                c["again"] = True
            if bits & 4:
                c["fail_first"] = True
        return c
    json_case = st.builds(lambda f, how, p, f2: {"sub": "rt", "fmt": "json", "how": how, "fields": f, "profile": p, "fields2": f2},
                          fields_strategy("json"), st.sampled_from(["profile", "profile", "dest_ext", "dest_noext", "profile_file"]),
                          _profile, st.one_of(st.none(), fields_strategy("json")))
    kv_case = st.builds(lambda f, how, p, f2: {"sub": "rt", "fmt": "keyval", "how": how, "fields": f, "profile": p, "fields2": f2},
                        fields_strategy("keyval"), st.sampled_from(["profile", "dest_ext", "dest_noext", "profile_file"]), _profile,
                        st.one_of(st.none(), fields_strategy("json")))
    return st.tuples(st.one_of(json_case, kv_case), st.integers(0, 7)).map(lambda t: extras(t[0], t[1]))


def crash_strategy():
    return st.builds(lambda a, b, p, c, t: dict({"sub": "crash", "old": a, "new": b, "profile": p, "after": c}, **({"tmp_elsewhere": True} if t else {})),
                     fields_strategy("json"), fields_strategy("json"), _profile, st.one_of(st.none(), fields_strategy("json")), st.booleans())


def profile_api_strategy():
    return st.builds(lambda a, b, p: {"sub": "profile_api", "old": a, "edits": b, "profile": p},
                     fields_strategy("json"), fields_strategy("json"), _profile)


def _enum_basic():
    kp = ("11" * 32) + ("22" * 32)
    base = {"phone": "4915112345678", "cc": "49", "client_static_keypair": kp}
    full = dict(base, mcc="262", mnc="07", sim_mcc="262", sim_mnc="07", login="4915112345678", pushname="Zoë ☺", fdid="a-b-c",
                chat_dns_domain="fb", id="00" * 20, expid="ab" * 16, edge_routing_info="0802100118", server_static_public="33" * 32)
    for fields in ({}, base, full):
        for fmt, hows in (("json", ["profile", "dest_ext", "dest_noext", "profile_file"]),
                          ("keyval", ["profile", "dest_ext", "dest_noext", "profile_file"])):
            for how in hows:
                yield {"sub": "rt", "fmt": fmt, "how": how, "fields": fields, "profile": "acct1"}
    for bits in range(8):
        yield dict({"sub": "rt", "fmt": "json", "how": "profile", "fields": base, "profile": "acct1", "fields2": full},
                   **dict(([("other_writer", True)] if bits & 1 else []) + ([("again", True)] if bits & 2 else []) + ([("fail_first", True)] if bits & 4 else [])))
    yield {"sub": "crash", "old": base, "new": full, "profile": "acct1"}
    yield {"sub": "crash", "old": base, "new": full, "profile": "acct1", "tmp_elsewhere": True}
    yield {"sub": "crash", "old": full, "new": base, "profile": "acct1", "tmp_elsewhere": True}
    yield {"sub": "crash", "old": full, "new": dict(full, pushname="a much longer push name " * 4), "after": base, "profile": "acct1"}
    yield {"sub": "profile_api", "old": base, "edits": {"server_static_public": "55" * 32}, "profile": "4915112345678"}
    yield {"sub": "profile_api", "old": full, "edits": {"server_static_public": "66" * 32, "pushname": "new name", "edge_routing_info": "0a0b"},
           "profile": "acct2"}
    yield {"sub": "crash", "old": full, "new": dict(full, server_static_public="44" * 32), "profile": "4915112345678"}


def plan(tier):
    quick = tier == "quick"
    return {
        "shards": 16,
        "enumerations": [("basic_matrix", _enum_basic)],
        "strategies": [
            ("roundtrip", rt_strategy(), 190 if quick else 6000),
            ("crash", crash_strategy(), 20 if quick else 600),
            ("profile_api", profile_api_strategy(), 20 if quick else 600),
        ],
        "shrink": "hypothesis",
        "budget_s": 150 if quick else 1500,
    }

RULE += (' Also: the second save made by another manager object, the first configuration saved again afterwards, a first attempt failing with an I/O error at fsync (the profile must load as the previous or the new configuration in between) and retried.')
RULE += (" Crash cases also run with the temporary directory (TMPDIR) on another filesystem than the profile (a memory filesystem), where this machine has one.")
