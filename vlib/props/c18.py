"""C18 - stack assembly and event propagation for every composition.

Oracle: a small reference interpreter of the documented semantics (DESIGN.md C18): positions bottom-up, a
position is one layer or a parallel group of members in declaration order.
"""
import queue

from .. import compat  # noqa: F401
from ..core import Outcome
from hypothesis import strategies as st

from yowsup.layers import YowLayer, YowParallelLayer, YowLayerEvent, YowLayerInterface, EventCallback
from yowsup.stacks import YowStack, YowStackBuilder
import yowsup.stacks.yowstack as ystack_mod

from yowsup.layers.noise.layer import YowNoiseLayer
from yowsup.layers.noise.layer_noise_segments import YowNoiseSegmentsLayer
from yowsup.layers.auth import YowAuthenticationProtocolLayer
from yowsup.layers.coder import YowCoderLayer
from yowsup.layers.logger import YowLoggerLayer
from yowsup.layers.network import YowNetworkLayer
from yowsup.layers.protocol_messages import YowMessagesProtocolLayer
from yowsup.layers.protocol_media import YowMediaProtocolLayer
from yowsup.layers.protocol_acks import YowAckProtocolLayer
from yowsup.layers.protocol_receipts import YowReceiptProtocolLayer
from yowsup.layers.protocol_groups import YowGroupsProtocolLayer
from yowsup.layers.protocol_presence import YowPresenceProtocolLayer
from yowsup.layers.protocol_ib import YowIbProtocolLayer
from yowsup.layers.protocol_notifications import YowNotificationsProtocolLayer
from yowsup.layers.protocol_iq import YowIqProtocolLayer
from yowsup.layers.protocol_contacts import YowContactsIqProtocolLayer
from yowsup.layers.protocol_chatstate import YowChatstateProtocolLayer
from yowsup.layers.protocol_privacy import YowPrivacyProtocolLayer
from yowsup.layers.protocol_profiles import YowProfilesProtocolLayer
from yowsup.layers.protocol_calls import YowCallsProtocolLayer
from yowsup.layers.axolotl import AxolotlSendLayer, AxolotlControlLayer, AxolotlReceivelayer

ID = "C18"
LEVEL = "exploration"
RULE = ("generated stack shapes of depth 1-6: each position a recorder layer class, a recorder instance, an explicit "
        "YowParallelLayer of 1-4 recorder classes or a plain tuple (implicit group); both order conventions; built through the "
        "YowStack constructor or a generated YowStackBuilder script (push/pop); recorders pass, drop or duplicate data or keep the base class's pass-through send/receive, optionally "
        "consume the event (by overriding onEvent or through @EventCallback), optionally expose an interface and optionally derive "
        "from the class of an earlier recorder (lookups are by exact class); one data "
        "transfer in each direction and one event per case with emitter = any layer, any group member or the stack object, "
        "direction emit/broadcast, detached or not. Enumerated: the 16 flag combinations of getDefaultLayers/getProtocolLayers and "
        "the 64 combinations of getDefaultStack (32 flag combinations x extra top layer), and 256 pairs of default stacks assembled one "
        "after the other (16 x 16 flag combinations, through getDefaultStack / getDefaultLayers / the builder) with a property set on each, an event sent up "
        "and one broadcast down in each of the two afterwards. Non-trivial = a group of >= 2 members "
        "with the emitter or a consumer not at an end of the stack, or a detached event; helper combinations are non-trivial "
        "when not all-default. Distinct = distinct canonical JSON.")
ASSUMPTIONS = [
    "siblings of an emitting group member are unconstrained (the statement is silent) except that nobody sees an event twice",
    "data order between branches of a parallel group is compared as multisets per layer (the statement fixes layer order, not "
    "the interleaving of branches)",
    "the stack's loop is run with time.sleep of yowsup.stacks.yowstack rebound to a hook that ends the loop when the deferred "
    "queue is empty",
]

EV = "org.verif.ev"
LOG = []
CURRENT = [None]     # the stack under test: a recorder that is not part of it logs under another name


def _who(layer, name):
    try:
        mine = CURRENT[0] is None or layer.getStack() is CURRENT[0]
    except Exception:
        mine = True
    return name if mine else name + "@earlier_stack"


class _StopLoop(BaseException):
    pass


class _Refused(Exception):
    pass


REFUSE_NEXT_SEND = [None]   # name of the recorder whose next send() raises


# ----------------------------------------------------------------------------------------------
# recorder layers

def make_recorder(spec, base=None):
    """base: the class of an earlier recorder this one derives from (the library's own layers are related by inheritance
    too: every protocol layer derives from YowProtocolLayer, the encryption layers from a common base); every method is
    defined afresh, so a derived recorder behaves exactly as its description says"""
    name = spec["n"]
    mode = spec.get("mode", "pass")
    consume = bool(spec.get("consume"))
    iface = bool(spec.get("iface"))
    hook = spec.get("hook", "override")

    def _fwd(self, fn, d):
        if mode == "drop":
            return
        fn(d + [name])
        if mode == "dup":
            fn(d + [name + "'"])

    def send(self, d):
        if REFUSE_NEXT_SEND[0] == name:
            # this layer cannot take what it was handed (an unencodable value, a connection that is not ready)
            REFUSE_NEXT_SEND[0] = None
            raise _Refused(name)
        LOG.append(("send", _who(self, name), tuple(d)))
        _fwd(self, self.toLower, d)

    def receive(self, d):
        LOG.append(("recv", _who(self, name), tuple(d)))
        _fwd(self, self.toUpper, d)

    def __init__(self):
        YowLayer.__init__(self)
        if iface:
            self.interface = YowLayerInterface(self)

    ns = {"__init__": __init__, "send": send, "receive": receive, "__str__": lambda self: name, "NAME": name}
    if mode == "inherit":
        # a layer that keeps the base class's pass-through send/receive (it sees events, but data crosses it unrecorded and unchanged)
        ns["send"] = YowLayer.send
        ns["receive"] = YowLayer.receive
    if hook == "callback":
        @EventCallback(EV)
        def on_ev(self, ev):
            LOG.append(("ev", _who(self, name)))
            return consume
        ns["on_ev"] = on_ev
    else:
        def onEvent(self, ev):
            LOG.append(("ev", _who(self, name)))
            return consume and ev.getName() == EV
        ns["onEvent"] = onEvent
    if base is not None and hook == "callback":
        ns["onEvent"] = YowLayer.onEvent
    return type("Rec_" + name, (base or YowLayer,), ns)


def make_classes(items):
    flat = []
    classes = []
    for it in items:
        row = []
        for m in it["members"]:
            base = None
            if m.get("sub_of") is not None and flat:
                base = flat[m["sub_of"] % len(flat)]
            c = make_recorder(m, base)
            flat.append(c)
            row.append(c)
        classes.append(row)
    return classes


# ----------------------------------------------------------------------------------------------
# reference interpreter

def model_positions(items):
    return [[m for m in it["members"]] for it in items]


def model_event(positions, emitter, direction):
    """sequence of layer names that must see the event among the layers strictly beyond the emitter"""
    if emitter == "stack":
        p = -1 if direction == "emit" else len(positions)
    else:
        p = emitter[0]
    order = range(p + 1, len(positions)) if direction == "emit" else range(p - 1, -1, -1)
    seen = []
    for pos in order:
        consumed = False
        for m in positions[pos]:
            seen.append(m["n"])
            if m.get("consume"):
                consumed = True
                break
        if consumed:
            break
    return seen


def model_data(positions, direction):
    """per-layer multiset of received data + what leaves the far end"""
    per_layer = {}
    far = []

    def out_of(m, d):
        mode = m.get("mode", "pass")
        if mode == "inherit":
            return [d]
        if mode == "drop":
            return []
        if mode == "dup":
            return [d + (m["n"],), d + (m["n"] + "'",)]
        return [d + (m["n"],)]

    order = list(range(len(positions) - 1, -1, -1)) if direction == "send" else list(range(len(positions)))

    def step(i, d):
        if i >= len(order):
            far.append(d)
            return
        for m in positions[order[i]]:
            if m.get("mode") != "inherit":
                per_layer.setdefault(m["n"], []).append(d)
            for o in out_of(m, d):
                step(i + 1, o)
    step(0, ())
    return per_layer, far


# ----------------------------------------------------------------------------------------------

def _clear(cls):
    q = cls._YowStack__detachedQueue
    while True:
        try:
            q.get(False)
        except queue.Empty:
            return


class Sink(YowLayer):
    """extra bottom/top capture layers are NOT part of the generated shape; the far end is observed through the
    outermost recorders' outputs instead (a recorder at the end of the stack forwards into nothing)."""


def build_stack(case, classes):
    items = case["items"]
    objs = []
    for it, cls_list in zip(items, classes):
        k = it["k"]
        if k == "cls":
            objs.append(cls_list[0])
        elif k == "inst":
            objs.append(cls_list[0]())
        elif k == "par":
            objs.append(YowParallelLayer(tuple(cls_list)))
        elif k == "tuple":
            objs.append(tuple(cls_list))
        else:
            raise ValueError(k)
    StackCls = type("ShapeStack", (YowStack,), {"_YowStack__detachedQueue": queue.Queue()})
    how = case.get("build", "ctor")
    if how == "ctor":
        if case.get("order", "bottom_up") == "bottom_up":
            stack = StackCls(tuple(objs), reversed=False)
        else:
            stack = StackCls(tuple(objs[::-1]), reversed=True)
        return stack, objs, StackCls
    # builder script: push every item bottom-up, with generated push+pop detours
    b = YowStackBuilder()
    detours = case.get("detours", [])
    for i, o in enumerate(objs):
        for d in detours:
            if d % (len(objs) + 1) == i:
                b.push(Sink)
                b.pop()
        b.push(o)
    for d in detours:
        if d % (len(objs) + 1) == len(objs):
            b.push(Sink).push(Sink).pop().pop()
    stack = b.build()
    return stack, objs, YowStack


def drain_loop(stack, StackCls):
    q = StackCls._YowStack__detachedQueue

    class _T(object):
        @staticmethod
        def sleep(x):
            if q.empty():
                raise _StopLoop()
    real = ystack_mod.time
    ystack_mod.time = _T
    try:
        stack.loop()
    except _StopLoop:
        pass
    finally:
        ystack_mod.time = real


def _all_layer_objects(stack, n):
    objs = []
    for i in range(n):
        layer = stack.getLayer(i)
        objs.append(layer)
        objs.extend(getattr(layer, "sublayers", None) or [])
    return objs


def layer_at(stack, objs, items, ref):
    pos, mem = ref
    layer = stack.getLayer(pos)
    if items[pos]["k"] in ("par", "tuple"):
        return layer.sublayers[mem % len(layer.sublayers)]
    return layer


class _SelfDeadlock(Exception):
    pass


class _CheckedLock(object):
    """a lock like threading.Lock that says so when the thread that holds it asks for it again (with the real lock: forever)"""

    def __init__(self):
        import threading
        self._l = threading.Lock()
        self._owner = None

    def acquire(self, blocking=True, timeout=-1):
        import threading
        if self._owner == threading.get_ident() and blocking and timeout == -1:
            raise _SelfDeadlock("the thread that holds this lock waits for it")
        r = self._l.acquire(blocking, timeout)
        if r:
            self._owner = threading.get_ident()
        return r

    def release(self):
        self._owner = None
        self._l.release()

    def locked(self):
        return self._l.locked()

    def __enter__(self):
        self.acquire()
        return self

    def __exit__(self, *a):
        self.release()


def _responder(case, out):
    """a layer that answers from inside receive() - the acknowledgement / pong pattern every protocol layer uses: the item goes on
    upward, the answer goes down through the layers below, in order, and the stack's receive() returns"""
    import threading
    import types
    import yowsup.layers as layers_mod
    seen = []

    def mk(name, respond=False, forward=True):
        def send(self, data):
            seen.append(("down", name, data))
            self.toLower(data)

        def receive(self, data):
            seen.append(("up", name, data))
            if respond and not str(data).startswith("answer"):
                for k in range(case.get("answers", 1)):
                    self.toLower("answer%d-to-%s" % (k, data))
            if forward:
                self.toUpper(data)
        return type(name, (YowLayer,), {"send": send, "receive": receive})

    class Bottom(YowLayer):
        def send(self, data):
            seen.append(("wire", "bottom", data))

        def receive(self, data):
            self.toUpper(data)

    class Top(YowLayer):
        def receive(self, data):
            seen.append(("app", "top", data))
            if case["where"] == "top":
                self.toLower("answer0-to-%s" % data)

        def send(self, data):
            self.toLower(data)
    n_below, n_above = case.get("below", 1), case.get("above", 1)
    below = [mk("B%d" % i) for i in range(n_below)]
    above = [mk("A%d" % i) for i in range(n_above)]
    where = case["where"]
    out.label("responder=" + where, "build=" + case["build"])
    out.info = {"nt": True}
    shim = types.SimpleNamespace(**{k: getattr(threading, k) for k in dir(threading) if not k.startswith("__")})
    shim.Lock = _CheckedLock
    real = layers_mod.threading
    layers_mod.threading = shim
    try:
        mid = [] if where == "top" else [mk("R", respond=True)] if where == "middle" else \
            [YowParallelLayer((mk("R", respond=True), mk("S", forward=False)))] if where == "group_member" else [mk("R", respond=True), mk("R2", respond=True)]
        order = [Bottom] + below + mid + above + [Top]
        try:
            if case["build"] == "builder":
                b = YowStackBuilder()
                for c in order:
                    b.push(c)
                stack = b.build()
            elif case["build"] == "tuple_top_first":
                stack = YowStack(tuple(reversed(order)))
            else:
                stack = YowStack(tuple(order), reversed=False)
        except Exception as e:
            out.fail("assembly", "responder:assembly_raises:%s" % type(e).__name__, {"error": repr(e)[:300]})
            return out
        for item in ["item%d" % i for i in range(case.get("items", 1))]:
            del seen[:]
            try:
                stack.receive(item)
            except _SelfDeadlock:
                out.fail("flow", "responder:%s:answer_from_inside_receive_waits_for_a_lock_its_own_thread_holds" % where,
                         {"seen": [list(map(str, x)) for x in seen][:12]})
                return out
            except Exception as e:
                out.fail("flow", "responder:%s:raises:%s" % (where, type(e).__name__), {"error": repr(e)[:300]})
                return out
            if [x for x in seen if x[0] == "app"] != [("app", "top", item)]:
                out.fail("flow", "responder:%s:item_not_delivered_once_to_the_top" % where, {"seen": [list(map(str, x)) for x in seen][:12]})
                return out
            n_resp = {"top": 1, "middle": 1, "group_member": 1, "two": 2}[where] * (1 if where == "top" else case.get("answers", 1))
            wire = [x[2] for x in seen if x[0] == "wire"]
            if len(wire) != n_resp or any(not str(w).startswith("answer") or not str(w).endswith(item) for w in wire):
                out.fail("flow", "responder:%s:answers_on_the_wire" % where, {"expected": n_resp, "wire": [str(w) for w in wire][:6]})
                return out
            # every answer passed the layers below the responder, top-down
            for w in set(wire):
                path = [x[1] for x in seen if x[0] == "down" and x[2] == w and x[1].startswith("B")]
                want = ["B%d" % i for i in reversed(range(n_below))]
                if path[:len(want)] != want and path != want * (len(path) // max(1, len(want))):
                    out.fail("flow", "responder:%s:answer_skipped_or_reordered_layers_below" % where, {"path": path, "expected": want})
                    return out
    finally:
        layers_mod.threading = real
    return out


def run_case(case):
    out = Outcome()
    if case["sub"] == "helpers":
        return _helpers(case, out)
    if case["sub"] == "responder":
        return _responder(case, out)
    items = case["items"]
    positions = model_positions(items)
    classes = make_classes(items)
    flat_members = [m for it in items for m in it["members"]]
    out_related = any(m.get("sub_of") is not None for m in flat_members[1:])
    del LOG[:]
    _clear(YowStack)
    try:
        if case.get("earlier_stack"):
            # another stack has been assembled from the very same layer classes before (an application with two accounts, a stack
            # that was rebuilt): it stays alive, the one under test is the later one
            earlier = build_stack(case, classes)
            out.label("same_classes_assembled_before")
        stack, objs, StackCls = build_stack(case, classes)
        CURRENT[0] = stack
    except Exception as e:
        out.fail("assembly", "assembly:raises:%s" % type(e).__name__, {"error": repr(e)[:300]})
        return out
    has_group = any(len(p) >= 2 for p in positions)
    out.label("build=" + case.get("build", "ctor"), "order=" + case.get("order", "bottom_up"),
              "depth=%d" % len(items), "group" if has_group else "flat")
    if out_related:
        out.label("related_classes")
    for it in items:
        out.label("item=" + it["k"])
    # --- assembly: the given layers in the given order
    for i, (it, cls_list) in enumerate(zip(items, classes)):
        try:
            layer = stack.getLayer(i)
        except Exception as e:
            out.fail("assembly", "assembly:layer_missing", {"index": i, "error": repr(e)})
            return out
        if it["k"] in ("par", "tuple"):
            subs = getattr(layer, "sublayers", None)
            if not isinstance(layer, YowParallelLayer) or [type(s) for s in subs] != cls_list:
                out.fail("assembly", "assembly:group_differs", {"index": i, "got": str(layer)})
                return out
            if it["k"] == "par" and layer is not objs[i]:
                out.fail("assembly", "assembly:instance_not_kept", {"index": i})
                return out
        else:
            if type(layer) is not cls_list[0]:
                out.fail("assembly", "assembly:layer_differs", {"index": i, "got": type(layer).__name__, "expected": cls_list[0].__name__})
                return out
            if it["k"] == "inst" and layer is not objs[i]:
                out.fail("assembly", "assembly:instance_not_kept", {"index": i})
                return out
    try:
        stack.getLayer(len(items))
        out.fail("assembly", "assembly:extra_layer", {"index": len(items)})
        return out
    except IndexError:
        pass
    # --- interfaces by class
    for i, (it, cls_list) in enumerate(zip(items, classes)):
        for j, (m, c) in enumerate(zip(it["members"], cls_list)):
            inst = layer_at(stack, objs, items, (i, j))
            for via in ("stack", "layer"):
                try:
                    got = stack.getLayerInterface(c) if via == "stack" else layer_at(stack, objs, items, (0, 0)).getLayerInterface(c)
                except Exception as e:
                    out.fail("interface", "interface:raises:%s" % type(e).__name__, {"layer": m["n"], "error": repr(e)[:200]})
                    return out
                if m.get("iface"):
                    if got is None or getattr(got, "_layer", None) is not inst:
                        out.fail("interface", "interface:not_found_by_class", {"layer": m["n"], "in_group": len(it["members"]) > 1,
                                                                               "kind": it["k"], "via": via})
                        return out
                elif got is not None:
                    out.fail("interface", "interface:unexpected", {"layer": m["n"]})
                    return out
    # --- a send that one of the layers refuses is reported to the sender - and the stack goes on handing data down afterwards
    flat = [m for p in positions for m in p if m.get("mode", "pass") != "inherit"]
    if case.get("refused_send") is not None and flat:
        victim = flat[case["refused_send"] % len(flat)]["n"]
        REFUSE_NEXT_SEND[0] = victim
        try:
            stack.send([])
            reached = REFUSE_NEXT_SEND[0] is None
        except _Refused:
            reached = True
        except Exception as e:
            out.fail("data", "data:refused_send:raises:%s" % type(e).__name__, {"error": repr(e)[:200]})
            return out
        finally:
            REFUSE_NEXT_SEND[0] = None
        if reached:
            out.label("send_refused_by_a_layer")
            held = []
            for obj in _all_layer_objects(stack, len(items)):
                lk = getattr(obj, "lock", None)
                if lk is not None and hasattr(lk, "locked") and lk.locked():
                    held.append(str(obj))
            if held:
                # (a held send lock means the next send through that layer waits for ever: reported without waiting for it)
                out.fail("data", "data:send_after_a_refused_send_would_block", {"refused_by": victim, "locks_still_held_by": held[:4]})
                return out
    # --- data, both directions
    for direction in ("send", "recv"):
        del LOG[:]
        try:
            if direction == "send":
                stack.send([])
            else:
                stack.receive([])
        except Exception as e:
            out.fail("data", "data:raises:%s" % type(e).__name__, {"direction": direction, "error": repr(e)[:300]})
            return out
        per_layer, far = model_data(positions, direction)
        got = {}
        for kind, name, d in LOG:
            if kind != direction:
                out.fail("data", "data:wrong_direction", {"direction": direction, "layer": name, "saw": kind})
                return out
            got.setdefault(name, []).append(d)
        for name in set(per_layer) | set(got):
            if sorted(got.get(name, [])) != sorted(per_layer.get(name, [])):
                out.fail("data", "data:layer_input_differs",
                         {"direction": direction, "layer": name, "got": sorted(got.get(name, []))[:6],
                          "expected": sorted(per_layer.get(name, []))[:6]})
                return out
        # without groups the order is fully determined
        if not has_group:
            seq = [name for kind, name, d in LOG]
            exp = []
            for p in (reversed(positions) if direction == "send" else positions):
                exp.append(p[0]["n"])
            # with drop/dup layers the sequence is not a simple list; compare only for all-pass stacks
            if all(p[0].get("mode", "pass") == "pass" for p in positions) and seq != exp:
                out.fail("data", "data:order", {"direction": direction, "got": seq, "expected": exp})
                return out
    # --- event
    evs = case["event"]
    direction = evs["dir"]
    detached = bool(evs.get("detached"))
    emitter = evs["from"]
    if emitter != "stack":
        emitter = [emitter[0] % len(items), emitter[1]]
        emitter[1] = emitter[1] % len(items[emitter[0]]["members"])
    expected = model_event(positions, emitter, direction)
    out.label("event=" + direction, "detached" if detached else "immediate",
              "emitter=stack" if emitter == "stack" else ("emitter=member" if len(items[emitter[0]]["members"]) > 1 else "emitter=layer"))
    if any(m.get("consume") for p in positions for m in p):
        out.label("consumer")
    del LOG[:]
    ev = YowLayerEvent(EV, detached=True) if detached else YowLayerEvent(EV)
    try:
        if emitter == "stack":
            (stack.emitEvent if direction == "emit" else stack.broadcastEvent)(ev)
        else:
            src = layer_at(stack, objs, items, emitter)
            (src.emitEvent if direction == "emit" else src.broadcastEvent)(ev)
    except Exception as e:
        out.fail("event", "event:raises:%s" % type(e).__name__, {"error": repr(e)[:300]})
        return out
    beyond = set()
    if emitter == "stack":
        rng = range(len(positions))
    else:
        rng = range(emitter[0] + 1, len(positions)) if direction == "emit" else range(0, emitter[0])
    for p in rng:
        for m in positions[p]:
            beyond.add(m["n"])
    # "deferred" = the tail of the walk happens only when the loop runs.  How many neighbours are reached
    # immediately is an implementation detail (one for a layer, two for the stack object); what is required is
    # that an event whose walk spans at least three positions has not reached the last of them before the loop.
    walk = [p for p in (rng if direction == "emit" else reversed(list(rng)))]
    reach = []
    for p in walk:
        reach.append(p)
        if any(m.get("consume") for m in positions[p]):
            break
    last_pos = set(m["n"] for m in positions[reach[-1]]) if len(reach) >= 3 else set()

    def observed():
        return [name for kind, name in [(x[0], x[1]) for x in LOG] if kind == "ev"]
    if detached:
        before = [n for n in observed() if n in beyond]
        late = [n for n in before if n in last_pos]
        if before != expected[:len(before)]:
            out.fail("event", "event:propagation_differs", {"observed_before_loop": before, "expected": expected})
            return out
        if late:
            out.fail("event", "event:deferred_part_delivered_before_loop", {"seen_before_loop": before, "expected_total": expected})
            return out
        try:
            drain_loop(stack, StackCls)
        except Exception as e:
            out.fail("event", "event:loop_raises:%s" % type(e).__name__, {"error": repr(e)[:300]})
            return out
    obs = observed()
    counts = {}
    for n in obs:
        counts[n] = counts.get(n, 0) + 1
    twice = sorted(n for n, c in counts.items() if c > 1)
    if twice:
        out.fail("event", "event:seen_twice", {"layers": twice, "observed": obs})
        return out
    got = [n for n in obs if n in beyond]
    if got != expected:
        out.fail("event", "event:propagation_differs", {"observed_beyond_emitter": got, "expected": expected,
                                                        "direction": direction, "detached": detached})
        return out
    if not StackCls._YowStack__detachedQueue.empty():
        out.fail("event", "event:deferred_left_after_loop", {})
    # nontrivial rule
    nt = detached
    for i, p in enumerate(positions):
        if len(p) >= 2:
            inner = 0 < i < len(positions) - 1
            if emitter != "stack" and emitter[0] == i and inner:
                nt = True
            if any(m.get("consume") for m in p) and inner:
                nt = True
            if emitter != "stack" and emitter[0] != i and any(m.get("consume") for q in positions[1:-1] for m in q):
                nt = True
    out.info = {"nt": nt}
    return out


# ----------------------------------------------------------------------------------------------
# default helpers

CORE = [YowNetworkLayer, YowNoiseSegmentsLayer, YowNoiseLayer, YowCoderLayer, YowLoggerLayer]
BASIC = {YowAuthenticationProtocolLayer, YowMessagesProtocolLayer, YowReceiptProtocolLayer, YowAckProtocolLayer,
         YowPresenceProtocolLayer, YowIbProtocolLayer, YowIqProtocolLayer, YowNotificationsProtocolLayer,
         YowContactsIqProtocolLayer, YowChatstateProtocolLayer, YowCallsProtocolLayer}
OPTIONAL = {"groups": YowGroupsProtocolLayer, "media": YowMediaProtocolLayer, "privacy": YowPrivacyProtocolLayer,
            "profiles": YowProfilesProtocolLayer}


class ExtraTop(YowLayer):
    def __init__(self):
        super(ExtraTop, self).__init__()
        self.seen = []

    def onEvent(self, ev):
        self.seen.append(ev.getName())
        return False


def _layers_of(stack):
    layers = []
    i = 0
    while True:
        try:
            layers.append(stack.getLayer(i))
        except IndexError:
            return layers
        i += 1


def _build_default(how, flags):
    if how == "default_stack":
        return YowStackBuilder.getDefaultStack(layer=ExtraTop, axolotl=True, **flags)
    if how == "default_layers":
        return YowStack(YowStackBuilder.getDefaultLayers(**flags) + (ExtraTop,), reversed=False)
    return YowStackBuilder().pushDefaultLayers().push(ExtraTop).build()


def _two_stacks(case, out):
    """a stack keeps working after further stacks have been assembled in the same process"""
    f1 = {k: bool(case["flags"].get(k, True)) for k in OPTIONAL}
    f2 = {k: bool(case["flags2"].get(k, True)) for k in OPTIONAL}
    out.label("helper=two_stacks", "first=" + case["how"], "second=" + case["how2"])
    out.info = {"nt": True}
    try:
        a = _build_default(case["how"], f1)
        b = _build_default(case["how2"], f2)
        stacks = {"first": a, "second": b}
        seen_below = {}
        for name, stk in stacks.items():
            layers = _layers_of(stk)
            _check_default_layout(out, layers, {k: True for k in OPTIONAL} if (case["how"] if name == "first" else case["how2"]) == "builder"
                                  else (f1 if name == "first" else f2), "two_stacks:" + name, extra=True)
            if out.violations:
                return out
            members = []
            for l in layers:
                members.append(l)
                members.extend(getattr(l, "sublayers", ()))
            for l in members:
                if l.getStack() is not stk:
                    out.fail("helpers", "helpers:two_stacks:layer_of_%s_stack_belongs_to_another_stack" % name, {"layer": str(l)})
                    return out
            rec = []
            seen_below[name] = rec
            net = layers[0]
            orig = net.onEvent
            net.onEvent = (lambda ev, _r=rec, _o=orig: (_r.append(ev.getName()), _o(ev))[1])
        # each stack has its own properties: what one stack (or a layer of it) sets is not seen by the other
        a.setProp("org.verif.prop", "first")
        if b.getProp("org.verif.prop") is not None or _layers_of(b)[2].getProp("org.verif.prop") is not None:
            out.fail("helpers", "helpers:two_stacks:property_set_on_one_stack_visible_in_the_other", {"value": repr(b.getProp("org.verif.prop"))})
            return out
        _layers_of(b)[3].setProp("org.verif.prop2", "second")
        if a.getProp("org.verif.prop2") is not None or a.getProp("org.verif.prop") != "first":
            out.fail("helpers", "helpers:two_stacks:property_set_on_one_stack_visible_in_the_other", {"value": repr(a.getProp("org.verif.prop2"))})
            return out
        for name, stk in stacks.items():
            other = "second" if name == "first" else "first"
            top, otop = _layers_of(stk)[-1], _layers_of(stacks[other])[-1]
            del top.seen[:], otop.seen[:]
            _layers_of(stk)[0].emitEvent(YowLayerEvent(EV + "." + name + ".up"))
            if top.seen != [EV + "." + name + ".up"] or otop.seen:
                out.fail("helpers", "helpers:two_stacks:event_from_bottom_of_%s_stack" % name,
                         {"top_of_its_stack_saw": list(top.seen), "top_of_the_other_stack_saw": list(otop.seen)})
                return out
            del seen_below["first"][:], seen_below["second"][:]
            top.broadcastEvent(YowLayerEvent(EV + "." + name + ".down"))
            if seen_below[name] != [EV + "." + name + ".down"] or seen_below[other]:
                out.fail("helpers", "helpers:two_stacks:broadcast_from_top_of_%s_stack" % name,
                         {"bottom_of_its_stack_saw": list(seen_below[name]), "bottom_of_the_other_stack_saw": list(seen_below[other])})
                return out
    except Exception as e:
        out.fail("helpers", "helpers:two_stacks:raises:%s" % type(e).__name__, {"error": repr(e)[:300]})
    return out


def _expect_protocol(flags):
    return BASIC | {OPTIONAL[k] for k in OPTIONAL if flags.get(k, True)}


def _check_default_layout(out, layers, flags, what, extra=False):
    """layers: list of layer instances or classes bottom-up"""
    def cls_of(x):
        return x if isinstance(x, type) else type(x)
    n_expected = 8 + (1 if extra else 0)
    if len(layers) != n_expected:
        out.fail("helpers", "helpers:%s:layer_count" % what, {"got": len(layers), "expected": n_expected, "flags": flags})
        return
    if [cls_of(x) for x in layers[:5]] != CORE:
        out.fail("helpers", "helpers:%s:core_layers" % what, {"got": [cls_of(x).__name__ for x in layers[:5]]})
        return
    if cls_of(layers[5]) is not AxolotlControlLayer:
        out.fail("helpers", "helpers:%s:control_layer" % what, {"got": cls_of(layers[5]).__name__})
        return
    sr = layers[6]
    if not isinstance(sr, YowParallelLayer) or set(type(s) for s in sr.sublayers) != {AxolotlSendLayer, AxolotlReceivelayer} \
            or len(sr.sublayers) != 2:
        out.fail("helpers", "helpers:%s:encryption_group" % what, {"got": str(sr)})
        return
    pl = layers[7]
    if not isinstance(pl, YowParallelLayer):
        out.fail("helpers", "helpers:%s:protocol_group" % what, {"got": str(pl)})
        return
    got = [type(s) for s in pl.sublayers]
    exp = _expect_protocol(flags)
    if set(got) != exp or len(got) != len(exp):
        out.fail("helpers", "helpers:%s:protocol_modules" % what,
                 {"flags": flags, "missing": sorted(c.__name__ for c in exp - set(got)),
                  "unexpected": sorted(c.__name__ for c in set(got) - exp), "duplicates": len(got) - len(set(got))})
        return
    if extra and cls_of(layers[8]) is not ExtraTop:
        out.fail("helpers", "helpers:%s:extra_layer" % what, {"got": cls_of(layers[8]).__name__})


POSITIONAL = ["groups", "media", "privacy", "profiles"]     # the order in which the helpers take the module switches


def _helpers(case, out):
    if case["which"] == "two_stacks":
        return _two_stacks(case, out)
    flags = {k: bool(case["flags"].get(k, True)) for k in OPTIONAL}
    which = case["which"]
    out.label("helper=" + which, "call=" + case.get("call", "keywords"))
    out.info = {"nt": not all(flags.values()) or bool(case.get("axolotl")) or bool(case.get("extra"))}
    try:
        if which == "protocol":
            got = YowStackBuilder.getProtocolLayers(*[flags[k] for k in POSITIONAL]) if case.get("call") == "positional" \
                else YowStackBuilder.getProtocolLayers(**flags)
            exp = _expect_protocol(flags)
            if set(got) != exp or len(got) != len(exp):
                out.fail("helpers", "helpers:protocol:modules", {"flags": flags, "got": [c.__name__ for c in got]})
        elif which == "layers":
            got = list(YowStackBuilder.getDefaultLayers(*[flags[k] for k in POSITIONAL]) if case.get("call") == "positional"
                       else YowStackBuilder.getDefaultLayers(**flags))
            _check_default_layout(out, got, flags, "default_layers")
        elif which == "core":
            got = list(YowStackBuilder.getCoreLayers())
            if got != CORE:
                out.fail("helpers", "helpers:core", {"got": [c.__name__ for c in got]})
        elif which == "stack":
            kw = dict(flags)
            kw["axolotl"] = bool(case.get("axolotl"))
            if case.get("extra"):
                kw["layer"] = ExtraTop
            if case.get("call") == "positional":
                # the helper's documented parameter order: the extra layer, the encryption switch, then the four modules
                stack = YowStackBuilder.getDefaultStack(kw.get("layer"), kw["axolotl"], *[flags[k] for k in POSITIONAL])
            else:
                stack = YowStackBuilder.getDefaultStack(**kw)
            layers = []
            i = 0
            while True:
                try:
                    layers.append(stack.getLayer(i))
                except IndexError:
                    break
                i += 1
            _check_default_layout(out, layers, flags, "default_stack", extra=bool(case.get("extra")))
            if not out.violations:
                for c in _expect_protocol(flags):
                    pass
                # a working stack: events and interface lookup do not raise
                stack.getLayerInterface(YowNetworkLayer)
        elif which == "builder_default":
            # the builder is told its layers one by one: whatever was pushed before the default layers stays below them
            below = [type("Below%d" % i, (YowLayer,), {}) for i in range(case.get("below", 0))]
            b = YowStackBuilder()
            for cls_ in below:
                b.push(cls_)
            if case.get("push_pop"):
                b.push(ExtraTop).pop()
            stack = b.pushDefaultLayers().push(ExtraTop).build()
            layers = []
            i = 0
            while True:
                try:
                    layers.append(stack.getLayer(i))
                except IndexError:
                    break
                i += 1
            if [type(l) for l in layers[:len(below)]] != below:
                out.fail("helpers", "helpers:builder_default:layers_pushed_before_the_defaults_missing",
                         {"expected_below": len(below), "got": [type(l).__name__ for l in layers[:4]]})
            else:
                out.label("pushed_before_defaults=%d" % len(below))
                _check_default_layout(out, layers[len(below):], {k: True for k in OPTIONAL}, "builder_default", extra=True)
        else:
            raise ValueError(which)
    except Exception as e:
        out.fail("helpers", "helpers:%s:raises:%s" % (which, type(e).__name__), {"error": repr(e)[:300], "flags": flags,
                                                                                   "axolotl": case.get("axolotl"), "extra": case.get("extra")})
    return out


def nontrivial(case, out):
    return bool(out.info and out.info.get("nt"))


def _enum_helpers():
    import itertools
    yield {"sub": "helpers", "which": "core", "flags": {}}
    yield {"sub": "helpers", "which": "builder_default", "flags": {}}
    for below in (1, 2):
        for pp in (False, True):
            yield {"sub": "helpers", "which": "builder_default", "flags": {}, "below": below, "push_pop": pp}
    for bits in itertools.product([True, False], repeat=4):
        flags = dict(zip(["groups", "media", "privacy", "profiles"], bits))
        yield {"sub": "helpers", "which": "protocol", "flags": flags}
        yield {"sub": "helpers", "which": "layers", "flags": flags}
        yield {"sub": "helpers", "which": "protocol", "flags": flags, "call": "positional"}
        yield {"sub": "helpers", "which": "layers", "flags": flags, "call": "positional"}
        for axolotl in (False, True):
            for extra in (False, True):
                yield {"sub": "helpers", "which": "stack", "flags": flags, "axolotl": axolotl, "extra": extra}
                yield {"sub": "helpers", "which": "stack", "flags": flags, "axolotl": axolotl, "extra": extra, "call": "positional"}
    hows = ["default_stack", "default_layers", "builder"]
    n = 0
    for bits in itertools.product([True, False], repeat=4):
        for bits2 in itertools.product([True, False], repeat=4):
            n += 1
            yield {"sub": "helpers", "which": "two_stacks", "flags": dict(zip(["groups", "media", "privacy", "profiles"], bits)),
                   "flags2": dict(zip(["groups", "media", "privacy", "profiles"], bits2)), "how": hows[n % 3], "how2": hows[(n // 3) % 3]}


def shape_strategy():
    @st.composite
    def build(draw):
        depth = draw(st.integers(1, 6))
        items = []
        counter = [0]

        def member():
            counter[0] += 1
            return {"n": "L%d" % counter[0],
                    "mode": draw(st.sampled_from(["pass", "pass", "pass", "pass", "drop", "dup", "inherit", "inherit"])),
                    "consume": draw(st.sampled_from([False, False, False, True])),
                    "iface": draw(st.booleans()),
                    "hook": draw(st.sampled_from(["override", "override", "callback"])),
                    "sub_of": draw(st.sampled_from([None, None, 0, 1, 2, 3, 5, 7]))}
        for _ in range(depth):
            k = draw(st.sampled_from(["cls", "cls", "inst", "par", "par", "tuple"]))
            n = 1 if k in ("cls", "inst") else draw(st.integers(1, 4))
            items.append({"k": k, "members": [member() for _ in range(n)]})
        emitter = draw(st.one_of(st.just("stack"), st.tuples(st.integers(0, 5), st.integers(0, 3)).map(list),
                                 st.tuples(st.integers(0, 5), st.integers(0, 3)).map(list)))
        ev = {"dir": draw(st.sampled_from(["emit", "broadcast"])), "from": emitter, "detached": draw(st.booleans())}
        how = draw(st.sampled_from(["ctor", "ctor", "builder"]))
        case = {"sub": "shape", "items": items, "event": ev, "build": how}
        if draw(st.integers(0, 3)) == 0:
            case["earlier_stack"] = True
        if draw(st.integers(0, 2)) == 0:
            case["refused_send"] = draw(st.integers(0, 20))
        if how == "ctor":
            case["order"] = draw(st.sampled_from(["bottom_up", "top_down"]))
        else:
            case["detours"] = draw(st.lists(st.integers(0, 6), max_size=3))
        return case
    return build()


def plan(tier):
    quick = tier == "quick"
    return {
        "shards": 16,
        "enumerations": [("default_helpers", _enum_helpers),
                         ("responder_layers", lambda: iter([{"sub": "responder", "where": w, "build": b, "below": nb, "above": na, "answers": k, "items": 2}
                                                            for w in ("top", "middle", "group_member", "two") for b in ("builder", "tuple_top_first", "bottom_first")
                                                            for nb in (0, 1, 3) for na in (0, 2) for k in (1, 2)]))],
        "exhaustive": ["default_helpers"],
        "strategies": [("shapes", shape_strategy(), 250 if quick else 10000)],
        "shrink": "hypothesis",
        "budget_s": 150 if quick else 1500,
    }

RULE += (" Also: a send that one layer refuses (raises), after which no layer's send lock may still be held; an earlier stack assembled from the same layer classes.")
RULE += (" The default helpers are called with keywords and with positional arguments in their documented order (call=positional).")
RULE += (" Also stacks with a layer (middle layer, top layer, member of a parallel group, two layers) that answers downward from inside receive(); the layers' locks are replaced by locks that report a thread waiting for a lock it holds itself.")
