"""C07, sub-case e2e_unpresentable: executed as a process of its own (python -m vlib.props.c07_e2e '<case json>'), prints one line
"OUTCOME <json>".  See c07.run_e2e.

Real client stacks (default layers incl. the encryption layers, accounts kit) against the server double: a contact sends content
the library cannot present - directly or to a group, as the first message of the conversation (prekey message) or after the two
have talked (the group message then carries the sender key in a `msg` part next to the `skmsg` part) - and the recipient answers
each with exactly one receipt naming the message, the sender (the group) and the participant."""
import sys
import json

from .. import compat  # noqa: F401
from ..core import Outcome


class _Raw(object):
    """an entity whose stanza is given: what an application (or a newer client) sends when it composes the payload itself"""

    def __init__(self, node):
        self.node = node

    def getTag(self):
        return "message"

    def getType(self):
        return self.node["type"]

    def getId(self):
        return self.node["id"]

    def toProtocolTreeNode(self):
        return self.node


def run(case):
    from . import c17, c07
    from ..kit import accounts as A
    from yowsup.structs import ProtocolTreeNode
    from yowsup.layers.protocol_messages.protocolentities import TextMessageProtocolEntity
    out = Outcome()
    n_acc = 3 if case.get("third") else 2
    w = c17.World17({"accounts": n_acc, "autotrust": [True]})
    try:
        P, X = w.jids[0], w.jids[1]
        group = bool(case.get("group"))
        out.label("e2e_unpresentable", "e2e:" + ("group" if group else "direct"), "e2e:" + ("after_conversation" if case.get("established") else "first_contact"))

        def send(s, e):
            if not w.clients[s].connected():
                w.clients[s].connect()
                A.settle(w.server, w.clients)
            err = w.clients[s].send(e)
            if err is not None:
                raise RuntimeError("send raised %r" % (err,))
            if not A.settle(w.server, w.clients):
                out.fail("hang", "e2e_unpresentable:queues_do_not_drain", {})

        if case.get("established"):
            # the two have exchanged messages: their pairwise session is acknowledged, later key material travels as `msg`
            a = TextMessageProtocolEntity("hello", to=X)
            send(P, a)
            b = TextMessageProtocolEntity("hello yourself", to=P)
            send(X, b)
            got = [m for m in w.clients[X].app_got if m.getTag() == "message" and m.getId() == a.getId()]
            if len(got) != 1:
                raise RuntimeError("setup conversation not delivered")
        if out.violations:
            return out
        to = c17.GROUP if group else X
        ids = []
        for i, kind in enumerate(case["kinds"]):
            mid = "UNPRESENTABLE%02d%s" % (i, case.get("idtail", ""))
            ids.append(mid)
            if kind == "text":
                e = TextMessageProtocolEntity("presentable %d" % i, to=to)
                ids[-1] = e.getId()
                send(P, e)
            else:
                node = ProtocolTreeNode("message", {"to": to, "type": "text", "id": mid},
                                        [ProtocolTreeNode("proto", {}, None, c07.payload(kind, "t%d" % i))])
                send(P, _Raw(node))
            if out.violations:
                return out
        for jid in w.jids:
            if w.clients[jid].errors:
                out.fail("receipt", "e2e_unpresentable:client_error:%s" % w.clients[jid].errors[0][0],
                         {"jid": jid, "error": [str(x)[:300] for x in w.clients[jid].errors[0][:2]]})
                return out
        recipients = [j for j in w.jids if j != P] if group else [X]
        for mid, kind in zip(ids, case["kinds"]):
            for r in recipients:
                rc = [n for (jid, n) in w.server.log if jid == r and n.tag == "receipt" and n["id"] == mid and n["type"] != "retry"]
                shown = [m for m in w.clients[r].app_got if m.getTag() == "message" and m.getId() == mid]
                if kind == "text":
                    if len(shown) != 1:
                        out.fail("receipt", "e2e_unpresentable:presentable_message_shown_%d_times" % len(shown), {"recipient": r})
                        return out
                    continue
                if len(rc) != 1:
                    out.fail("receipt", "e2e_unpresentable:receipt_count_%d" % len(rc),
                             {"recipient": r, "kind": kind, "group": group, "established": bool(case.get("established")),
                              "enc_parts": [[c["type"] for c in n.getAllChildren("enc")] for (jid, n) in w.server.log if jid == P and n.tag == "message" and n["id"] == mid]})
                    return out
                n = rc[0]
                exp_to, exp_part = (c17.GROUP, P) if group else (P, None)
                if n["to"] != exp_to or n["participant"] != exp_part:
                    out.fail("receipt", "e2e_unpresentable:receipt_addressed_wrongly", {"to": n["to"], "participant": n["participant"], "expected": [exp_to, exp_part]})
                    return out
        out.info = {"nt": True}
        return out
    finally:
        w.close()


if __name__ == "__main__":
    o = run(json.loads(sys.argv[1]))
    sys.stdout.write("\nOUTCOME " + json.dumps({"labels": o.labels, "violations": [v.to_json() for v in o.violations], "info": o.info}) + "\n")
    sys.stdout.flush()
    from ..kit import env as envkit
    envkit.cleanup()
    import os
    os._exit(0)
