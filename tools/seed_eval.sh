#!/bin/bash
# tools/seed_eval.sh <ID> [worktree] [checks...]  - confirm a seeded change and run the checks against it.
#   1. the repository's tests still pass with the change (in the scratch worktree)
#   2. the demonstration fails with the change and passes without it
#   3. the change is applied to /repo, the given checks (default: the property's own) run with outputs redirected, the
#      change is undone straight afterwards
#   SEED_NAME=<dir name> stores a further change for the same property under seeded/<dir name>/ (default: <ID>)
# Results are appended to seeded/<ID>/meta.json by tools/seed_record.py
set -u
ID=$1; WT=${2:-/tmp/seed_$ID}; shift; shift || true
CHECKS=${@:-$ID}
VERIF=$(cd "$(dirname "$0")/.." && pwd)
NAME=${SEED_NAME:-$ID}
OUT=$VERIF/seeded/$NAME; mkdir -p $OUT
cd $WT || exit 2
git diff -- yowsup > $OUT/patch.diff
[ -s $OUT/patch.diff ] || { echo "no diff in $WT"; exit 2; }
cp seed_demo.py $OUT/demo.py 2>/dev/null
cp seed_meta.json $OUT/agent_meta.json 2>/dev/null
echo "== tests with change"; T=$(PYTHONPATH=$WT /venv/bin/python -m pytest -q -p no:cacheprovider --continue-on-collection-errors 2>&1 | tail -1); echo "$T"
echo "== demo with change"; PYTHONPATH=$WT timeout 600 /venv/bin/python seed_demo.py >/tmp/seed_demo_with.log 2>&1; DW=$?; echo "rc=$DW"; tail -3 /tmp/seed_demo_with.log
git checkout -- yowsup   # (not git stash: the stash is shared between worktrees)
echo "== demo without change"; PYTHONPATH=$WT timeout 600 /venv/bin/python seed_demo.py >/tmp/seed_demo_without.log 2>&1; DO=$?; echo "rc=$DO"; tail -2 /tmp/seed_demo_without.log
git apply $OUT/patch.diff
cd $VERIF
git -C /repo apply $OUT/patch.diff || { echo "patch does not apply to /repo"; exit 2; }
RES=""
for c in $CHECKS; do
  echo "== check $c against the change"
  VERIF_OUT_DIR=/tmp/seed_out_$ID ./check $c > /tmp/seed_check_$c.log 2>&1; RC=$?
  grep -E "VIOLATION|violated|HARNESS" /tmp/seed_check_$c.log | head -4; tail -1 /tmp/seed_check_$c.log
  RES="$RES $c:$RC"
done
git -C /repo checkout -- . ; git -C /repo status --short | head -3
rm -rf /tmp/seed_out_$ID
echo "SUMMARY id=$ID tests='$T' demo_with=$DW demo_without=$DO checks=$RES"
