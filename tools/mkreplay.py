#!/venv/bin/python
"""tools/mkreplay.py <ID> <name> '<case json>'  -> replays/regress/<ID>/<name>.json (hand-picked or fixed-defect canary)"""
import os, sys, json
VERIF = os.path.dirname(os.path.dirname(os.path.abspath(__file__)))
pid, name, case = sys.argv[1].upper(), sys.argv[2], json.loads(sys.argv[3])
note = sys.argv[4] if len(sys.argv) > 4 else ""
d = os.path.join(VERIF, "replays", "regress", pid)
os.makedirs(d, exist_ok=True)
with open(os.path.join(d, name + ".json"), "w") as f:
    json.dump({"property": pid, "case": case, "note": note}, f, indent=1)
    f.write("\n")
print(os.path.join(d, name + ".json"))
