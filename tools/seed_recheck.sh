#!/bin/bash
# tools/seed_recheck.sh [seeded dir names...]   (default: all)      env: SEEDS="1 2 3" (default "1")
# Regression of the checks' sensitivity: applies each recorded change to a scratch worktree of /repo (removed afterwards),
# runs the checks that reported it when it was recorded (YOWSUP_REPO points the harness at the scratch tree) at each
# VERIF_SEED, and prints one line per (change, check, seed): detected / MISSED.  Nothing is written to evidence/ or replays/.
cd "$(dirname "$0")/.."
NAMES=${@:-$(ls seeded)}
SEEDS=${SEEDS:-1}
T=$(mktemp -d /tmp/recheck_tree_XXXX); rmdir $T
git -C /repo worktree add --detach $T HEAD >/dev/null 2>&1 || { echo "cannot create scratch worktree"; exit 2; }
trap 'git -C /repo worktree remove --force $T >/dev/null 2>&1; rm -rf $T.out' EXIT
for n in $NAMES; do
  d=seeded/$n
  [ -f $d/patch.diff ] || continue
  sup=$(/venv/bin/python -c "import json;print(json.load(open('$d/meta.json')).get('superseded_by_fix',''))")
  [ -n "$sup" ] && { echo "$n: superseded by repository fix $sup (the change no longer breaks the property), skipped"; continue; }
  checks=$(/venv/bin/python -c "import json;m=json.load(open('$d/meta.json'));print(' '.join(k for k,v in m['checks_against_change'].items() if v=='VIOLATION reported'))")
  git -C $T apply "$PWD/$d/patch.diff" 2>/dev/null || { echo "$n: patch does not apply any more"; continue; }
  for c in $checks; do
    for s in $SEEDS; do
      YOWSUP_REPO=$T VERIF_SEED=$s VERIF_OUT_DIR=$T.out ./check $c >$T.log 2>&1; rc=$?
      if [ $rc -eq 1 ]; then echo "$n $c seed=$s detected"; else echo "$n $c seed=$s MISSED (rc=$rc)"; fi
    done
  done
  git -C $T checkout -- .
done
rm -f $T.log
