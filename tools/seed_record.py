#!/venv/bin/python
"""tools/seed_record.py <ID> <tests line> <demo_with rc> <demo_without rc> <checks 'C01:1 C02:0'> [note]  -> seeded/<ID>/meta.json"""
import json, os, sys
VERIF = os.path.dirname(os.path.dirname(os.path.abspath(__file__)))
pid, tests, dw, do, checks = sys.argv[1:6]
note = sys.argv[6] if len(sys.argv) > 6 else ""
d = os.path.join(VERIF, "seeded", os.environ.get("SEED_NAME") or pid)
agent = {}
p = os.path.join(d, "agent_meta.json")
if os.path.exists(p):
    try:
        agent = json.load(open(p))
    except Exception:
        agent = {"raw": open(p).read()[:2000]}
meta = {"property": pid, "breaks": agent.get("summary"), "needs": agent.get("needs"), "files": agent.get("files"),
        "confirmed": {"repository_tests_with_change": tests, "demo_exit_with_change": int(dw), "demo_exit_without_change": int(do)},
        "checks_against_change": {c.split(":")[0]: ("VIOLATION reported" if c.split(":")[1] == "1" else "not detected" if c.split(":")[1] == "0" else "harness error")
                                  for c in checks.split()},
        "what_was_run": ["tools/seed_eval.sh %s (tests in the scratch worktree, demo with/without, checks against /repo with the patch applied, patch undone)" % pid], "note": note, "author": "independent sub-agent given only the property text and a scratch worktree"}
json.dump(meta, open(os.path.join(d, "meta.json"), "w"), indent=1)
print(json.dumps(meta["checks_against_change"]))
