#!/venv/bin/python
"""Writes /verif/MANIFEST.json from the table below (one place to keep it valid)."""
import os, json, sys

VERIF = os.path.dirname(os.path.dirname(os.path.abspath(__file__)))

# property id -> (level, technique, level text, level note, design ref)
CHECKS = {
    "C01": ("exploration",
            "Hypothesis-generated and enumerated stanza trees, encode->decode round trip judged by a strict tree comparator",
            "Round trip through the real encoder/decoder (and two coder layers back to back) over every dictionary word, "
            "every packed-string length, boundary sizes of all three length classes and generated recursive trees; the "
            "oracle is a strict structural comparator written in the harness (the library's own __eq__ is not used). "
            "Search, not proof.",
            "Trusts the harness comparator and tree materialiser; strings restricted to the quantified domain; a codec loop that stops "
            "making progress is cut by a deterministic iteration budget and reported.",
            "5/C01"),
    "C02": ("exploration",
            "differential testing against an independent reference codec driven by generated encoder choice vectors; "
            "dictionary enumerated entry by entry",
            "Both directions against a from-scratch implementation of the format: library bytes must decode in the strict "
            "reference decoder, and every permitted alternative encoding produced by the reference encoder must decode in "
            "the library to the same tree; the 1260 dictionary entries are compared completely by table and by behaviour.",
            "The reference dictionary is a pinned copy (no-drift only); the reference codec is trusted after passing the "
            "repository's fixture vectors and its own round trip.",
            "5/C02"),
    "C03": ("exploration",
            "model-based generated conversation scripts over 2-4 real client stacks against a WhatsApp server double that "
            "lets the script reorder, duplicate and corrupt queued stanzas; conversation model as oracle",
            "Each account is the real stack from the network layer up (coder, the three encryption layers, all protocol layers, an "
            "acknowledging application) with its own SQLite profile; the server double is a key directory, group fan-out and "
            "receipt router whose delivery order and faults are script operations. After draining, every application must hold "
            "exactly the messages of the model (once, right sender/group, equal content), senders hold the delivery receipts, no "
            "outgoing frame contains a plaintext marker, every outgoing message stanza has only enc children, corrupted stanzas "
            "led to a retry receipt.",
            "Server double restricted to what the client code consumes; python-axolotl's padding defect (E3) and sender-key-order defect (E4) corrected "
            "in the harness and recorded as external known findings; a duplicate stanza after a retry re-send is an open finding; expiring waits are inconclusive.",
            "5/C03"),
    "C04": ("exploration",
            "generated login variants, chunkings, coalesced frames, cut-off histories and schedules against a Noise responder "
            "double under the deterministic scheduler",
            "The real transport layers perform XX / IK / XXfallback handshakes against an independent responder built on "
            "dissononce; the oracle checks the decrypted client payload (account, passive flag, push name, user agent), the "
            "edge routing header, that a changed server key is written exactly once, in-order intact traffic both ways incl. frames "
            "coalesced with the handshake reply, a reported failure for a corrupted reply, and that no task stays blocked.",
            "The responder double stands for the server; certificates are not validated; interleavings at lock/queue operations "
            "and function calls of the anchored files.",
            "5/C04"),
    "C05": ("exploration",
            "exhaustive enumeration of stream partitions + Hypothesis-generated streams against a concatenation model",
            "Every partition of every stream of 1-3 frames of length 1-3 (0.7 M cases; lengths 1-4 in the thorough tier) is "
            "enumerated completely and generated streams reach the 1/2/3-byte length classes; the oracle is the list of frames "
            "that was sent. Search, not proof: larger streams are sampled.",
            "Trusts the recording layers of the harness and Python's struct module as the length reference; a framing loop that stops "
            "making progress is cut by a deterministic iteration budget and reported.",
            "5/C05"),
    "C06": ("exploration",
            "Hypothesis-generated stanzas/entities per catalogue kind, each executed over the complete grid of 32 layer-set "
            "configurations against a routing table (the entity catalogue) as reference model",
            "For every kind that travels unsolicited upward or is sent by the application, generated values are run through "
            "the real parallel protocol layer group (with and without the real encryption layers) in all 16 module selections: "
            "exactly one entity of the catalogued class / exactly one stanza equal to the serialisation when the owning module is "
            "present, nothing and no exception when it is left out.",
            "The routing table is the pinned catalogue; message stanzas are plaintext-proto ones; outgoing messages only "
            "without the encryption layers.",
            "5/C06"),
    "C07": ("exploration",
            "Hypothesis-generated stimuli (catalogue shapes + hand-built unpresentable payloads) over the full configuration "
            "grid, with an exactly-one-matching-acknowledgement oracle on the stanzas sent down",
            "Every notification shape of the catalogue and unknown types, call kinds, server pings and unpresentable message "
            "payloads are injected below the real protocol layer set in all 32 configurations; the oracle counts and matches the "
            "ack / receipt / pong among what the layers send down (id, type, class, addressee, participant, call id).",
            "Other stanzas sent down (key upload/fetch) are allowed; the picture notification that is neither set nor delete is "
            "outside the guarantee.",
            "5/C07"),
    "C08": ("exploration",
            "model-based generated histories (scripts of request / reply / replay / unknown-id / non-reply operations) "
            "against a dict model of the registries, plus a metamorphic fresh-stack comparison for non-replies",
            "Histories over 18 application request kinds and the library-internal key-fetch / group-info requests run against "
            "the real protocol layer set (with and without the encryption layers) under an interface-layer application; after "
            "every step the callback log must equal the model's (right callback, once, original request attached, nothing "
            "delivered twice), non-replies must behave exactly as on a fresh identical stack, internal continuations happen once, "
            "and all request ids of a history are distinct.",
            "Result stanzas follow the catalogued reply shapes; key bundles for internal requests are built by the harness from "
            "real key material.",
            "5/C08"),
    "C09": ("exploration",
            "Hypothesis-generated stanzas per documented shape (entity catalogue) with a stanza->entity->stanza round-trip "
            "oracle, and generated constructor arguments pushed through the real codec",
            "One catalogue record per entity class reachable from a layer (110 records; a meta-check fails the run when a class "
            "has neither record nor reasoned exclusion). Receive path: generated stanzas of the documented shape must be "
            "reproduced (numbers by value, children as multisets). Send path: the produced tree must be encodable and survive "
            "encode->decode under the strict comparator.",
            "Stanza shapes are taken from docstrings, fixtures and the parsers; realistic value kinds; binary integers in key "
            "results compared by value.",
            "5/C09"),
    "C10": ("exploration",
            "Hypothesis-generated attribute objects and peer payloads; round-trip, metamorphic re-serialisation and a pinned "
            "attribute->protobuf field table as independent oracle",
            "Generated message contents of every kind over optional-field subsets and nested context info are converted to "
            "bytes and back (every set field must return), peer-built protobuf payloads are re-serialised (every modelled "
            "field path keeps its value), the produced bytes are read with a field table pinned in the harness (mirrored "
            "slips fail), and the message entities' tree conversion is round-tripped.",
            "Trusts the protobuf runtime and the pinned field/kind table; unset == proto default.",
            "5/C10"),
    "C11": ("exploration",
            "schedule exploration: generated sender programs interleaved by a deterministic scheduler at lock/queue/call "
            "yield points, judged by a strict in-order Noise responder double",
            "2-4 real sender threads (plus the real keep-alive thread and a still-running handshake worker) send through the "
            "real coder/noise/segments/network layers; the schedule is part of the generated case, so failures replay. The peer "
            "parses the byte stream strictly and decrypts strictly in arrival order; transmitted ids must equal the sends that "
            "returned normally, once each and in per-thread order; blocked tasks are detected logically.",
            "Interleavings at lock/queue operations and function calls (thorough: lines) of the anchored files under the GIL.",
            "5/C11"),
    "C12": ("fault_enumeration",
            "fault injection at every layer and direction of the real transport/protocol stack under a deterministic "
            "scheduler, against a Noise responder double; generated sender programs, incoming stanzas and schedules",
            "Every (layer, direction) site is enumerated with a fixed sequence and generated sequences/schedules add positions "
            "and interleavings; natural faults (unencodable value, 16 MiB frame, send before login, undecodable frame, stanzas "
            "rejected by design, raising application callback) are provoked through the public entry points. Blocking is decided "
            "logically by the scheduler (a task waiting on a lock nobody can release), never by a timeout.",
            "Interleavings at lock/queue operations and function calls of the anchored files under the GIL; a fault at or below "
            "the cipher loses a ciphertext, so same-connection ordering is only required above it.",
            "5/C12"),
    "C13": ("fault_enumeration",
            "model-based generated operation scripts over the real SQLite store (dict model in lock-step) + crash-point "
            "enumeration of every mutating operation with a previous-or-new oracle",
            "Generated histories of store/replace/delete/reopen with real identity, session, prekey and sender-key records are "
            "compared with a dict model after every step and after reopen; each mutating operation is executed under the "
            "crash-point recorder and every distinct on-disk state is reopened with the real store class and compared.",
            "Process-death crash model; SQLite's atomic commit/journal recovery trusted; device id 1 and numeric recipient ids "
            "as used by all callers.",
            "5/C13"),
    "C14": ("exploration",
            "model-based generated histories (logins, lost/refused/confirmed uploads, key-count notifications, restarts, "
            "consuming peers) over a real client stack against the server double; key-lifecycle model as oracle",
            "An account started from nothing with small key batches goes through generated histories; every upload stanza on "
            "the wire is parsed and checked (identity, registration id, 3-byte ids, 32-byte keys, signed-prekey signature verified "
            "with Curve), and the prekey table is read through a separate SQLite connection: pending exactly while unconfirmed, "
            "offered keys resolvable until consumed, consumed keys gone, a re-offered consumed key answered with a retry.",
            "Server double as key directory; the by-design exception on a refused upload is not a finding; id re-use after "
            "consumption is not flagged.",
            "5/C14"),
    "C15": ("exploration",
            "enumerated lengths/tamper positions + Hypothesis-generated inputs; round trip, tamper rejection and two-way "
            "differential against an independent HKDF/AES-CBC/HMAC implementation",
            "All plaintext lengths 0..64 for the four kinds and every single-byte corruption, truncation, key-byte change and "
            "kind mix-up of short ciphertexts are enumerated; larger inputs are generated. The layout reference is written "
            "with stdlib hmac and cryptography's AES and must reproduce the real WhatsApp sample before any run.",
            "Trusts cryptography's AES-CBC and stdlib HMAC/SHA-256; WhatsApp compatibility is relative to the pinned real sample.",
            "5/C15"),
    "C20": ("exploration",
            "Hypothesis-generated phone numbers, parameter lists and key pairs against stdlib HMAC / urllib decoding / "
            "cryptography X25519+AES-GCM as independent oracles",
            "Token equality with stdlib HMAC-SHA1 over pinned constants, percent-decoding of every generated value with "
            "urllib, decryption of the ENC blob with the recipient's private key through an unrelated X25519/AES-GCM "
            "implementation, fresh ephemeral keys, and the token parameter of the three real request classes.",
            "Token constants are pinned for the pinned WhatsApp version string; urllib/hmac/cryptography are trusted.",
            "5/C20"),
    "C19": ("fault_enumeration",
            "Hypothesis-generated configurations through both formats and all load paths (round-trip oracle) + crash-point "
            "enumeration of the save with a previous-or-new oracle",
            "Round trip of generated configurations through the real save/load entry points in both formats and the three load "
            "paths, field by field with byte-identical keys; for saves over an existing profile every distinct on-disk state "
            "at a C-call boundary is copied and loaded and must equal the previous or the new configuration.",
            "Crash model is process death at C-call boundaries (no torn writes, no power loss); file-system rename atomicity is trusted.",
            "5/C19"),
    "C16": ("exploration",
            "model-based generated event histories over the full default stack under the deterministic scheduler, against "
            "a reference connection state machine; blocking dispatcher double and Noise responder double as environment",
            "Generated histories of connect / refused / peer close / disconnect / success / failure / stream errors / keep-alive "
            "ticks on a virtual clock / pongs / sends run through the real full stack; after every step the network layer's "
            "announcements, dispatcher calls, login attempts on the wire, auth/authed events and entities at the top are compared "
            "with the reference machine (reconnect policy, keep-alive decision, no write while down, fresh login after every "
            "connect).",
            "The dispatcher double keeps the blocking contract of the real dispatchers (which are not exercised themselves); "
            "top-level order is not asserted, only counts after close-out.",
            "5/C16"),
    "C17": ("exploration",
            "model-based generated histories (message / reinstall / restart, auto-trust on/off/unset) over real client stacks "
            "against the server double; pin model as oracle, the owner's SQLite store read through a separate connection",
            "Accounts reinstall with a fresh profile (new identity, new key upload); after every settled operation the model "
            "decides whether the message must be delivered (both sides accept the other's current identity: unknown, pinned-equal "
            "or auto-trust) and the pinned keys are read from each owner's key store with plain sqlite3, also after restarts.",
            "One-to-one messages, FIFO delivery; whether a refused sender's identity gets pinned by the recipient depends on the "
            "ratchet state and is resolved against the store (absent or the sender's current key).",
            "5/C17"),
    "C18": ("exploration",
            "Hypothesis-generated stack shapes executed against a reference interpreter of data/event semantics; default "
            "helpers enumerated over all flag combinations",
            "Generated compositions (classes, instances, explicit and implicit parallel groups, both order conventions, "
            "constructor and builder scripts) are checked for assembly order, interface lookup by class, data flow in both "
            "directions and one event per case (any emitter incl. group members and the stack object, emit/broadcast, "
            "detached or not) against a small reference interpreter; all 16+16+64 helper flag combinations are enumerated.",
            "Trusts the reference interpreter (40 lines) and the recorder layers; sibling visibility of an emitting group "
            "member is left unconstrained as the statement is silent.",
            "5/C18"),
}

NOT_APPLICABLE = {
}

ALL = ["C%02d" % i for i in range(1, 21)]


def main():
    checks = []
    for pid in ALL:
        if pid not in CHECKS:
            continue
        level, technique, text, note, ref = CHECKS[pid]
        checks.append({
            "property_id": pid,
            "quick_cmd": "./check %s --tier quick" % pid,
            "thorough_cmd": "./check %s --tier thorough" % pid,
            "evidence_file": "evidence/%s.json" % pid,
            "replay_cmd_template": "./check %s --replay {path}" % pid,
            "engine": "vlib",
            "level_claimed": {"category": level, "text": text, "design_ref": "DESIGN.md section " + ref},
            "level_note": note,
            "technique": technique,
        })
    na = []
    for pid in ALL:
        if pid in CHECKS:
            continue
        na.append({"property_id": pid,
                   "reason": NOT_APPLICABLE.get(pid, "check not built yet in this round; the design (DESIGN.md section 5) "
                                                     "applies the technique to it and the check will be registered when it exists")})
    man = {
        "version": 1,
        "setup_cmd": "./setup.sh",
        "hooks": {
            "guard": "YOWSUP_VERIF",
            "enable": "no source hooks: every double, scheduler primitive and recorder is attached from the harness "
                      "process by rebinding module-level names (DESIGN.md section 8)",
            "baseline_off_cmd": "cd /repo && /venv/bin/python -m pytest -ra -q -p no:cacheprovider --timeout=900 "
                                "--continue-on-collection-errors",
            "source_commits": [],
            "add_only": True,
        },
        "engines": [{
            "name": "vlib",
            "path": "vlib/core.py",
            "serves_properties": [c["property_id"] for c in checks],
            "kind_free_text": "Hypothesis-driven generated search + finite enumeration, sharded over 16 processes, "
                              "explicit oracles per property, JSON replay files that run without the generator library",
        }],
        "checks": checks,
        "not_applicable": na,
        "notes": "Exit 0 = held on everything explored; 1 = VIOLATION line; 2 = harness error / inconclusive. "
                 "known_findings.json lists genuine defects that are recorded rather than repaired.",
    }
    with open(os.path.join(VERIF, "MANIFEST.json"), "w") as f:
        json.dump(man, f, indent=1)
        f.write("\n")
    try:
        import jsonschema
        jsonschema.validate(man, json.load(open("/root/.vp/MANIFEST.schema.json")))
        print("manifest valid,", len(checks), "checks")
    except ImportError:
        print("written (jsonschema not available to validate),", len(checks), "checks")


if __name__ == "__main__":
    main()
