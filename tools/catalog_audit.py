#!/venv/bin/python
"""tools/catalog_audit.py - diagnostic for the entity catalogue (vlib/gen/entities_catalog*.py): lists, for every 'send' record,
the constructor parameters the record never generates.  A parameter listed here is a generator hole for C06-C09 unless it is
deliberately left out (ids are left to the library; file paths need a file)."""
import inspect, os, sys
sys.path.insert(0, os.path.dirname(os.path.dirname(os.path.abspath(__file__))))
from vlib import compat  # noqa
from vlib.gen import entities as E
for r in E.SEND:
    try:
        cls = r.load()
    except Exception as e:
        print("cannot load", r.name, e)
        continue
    fn = cls.__init__ if inspect.isclass(cls) else cls
    try:
        sig = inspect.signature(fn)
    except Exception:
        continue
    params = [p for p in sig.parameters.values() if p.name != "self" and p.kind in (p.POSITIONAL_OR_KEYWORD, p.KEYWORD_ONLY)]
    covered = set(p.name for p in params[:len(r.args)]) | set((r.kwargs or {}).keys())
    missing = [p.name for p in params if p.name not in covered and p.name not in ("_id", "id", "messageId")]
    if missing:
        print("%-45s never generated: %s" % (r.name, ", ".join(missing)))
