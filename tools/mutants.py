#!/venv/bin/python
"""Sensitivity self-test: apply each recorded mutation to a scratch copy of the repository and confirm
that the property's check reports a violation (DESIGN.md section 1, last bullet).

usage: tools/mutants.py <ID> [name-substring] [--tier quick]
mutants/<ID>.json: [{"name":..., "file": "yowsup/...", "old": "...", "new": "...", "count": 1}, ...]
A mutant is 'killed' when the check exits 1 with a VIOLATION line; exit 0 = survived; exit 2 = harness error.
"""
import os, sys, json, shutil, subprocess, tempfile, time

VERIF = os.path.dirname(os.path.dirname(os.path.abspath(__file__)))
REPO = os.environ.get("YOWSUP_REPO", "/repo")


def main():
    args = sys.argv[1:]
    pid = args.pop(0).upper()
    tier = "quick"
    sel = None
    while args:
        a = args.pop(0)
        if a == "--tier":
            tier = args.pop(0)
        else:
            sel = a
    with open(os.path.join(VERIF, "mutants", pid + ".json")) as f:
        muts = json.load(f)
    results = []
    for m in muts:
        if sel and sel not in m["name"]:
            continue
        work = tempfile.mkdtemp(prefix="yowmut_")
        try:
            dst = os.path.join(work, "repo")
            os.makedirs(dst)
            shutil.copytree(os.path.join(REPO, "yowsup"), os.path.join(dst, "yowsup"),
                            ignore=shutil.ignore_patterns("__pycache__"))
            edits = m.get("edits") or [m]
            for ed in edits:
                path = os.path.join(dst, ed["file"])
                src = open(path).read()
                if src.count(ed["old"]) < 1:
                    raise SystemExit("mutant %s: pattern not found in %s" % (m["name"], ed["file"]))
                src = src.replace(ed["old"], ed["new"], ed.get("count", 1))
                open(path, "w").write(src)
            env = dict(os.environ, YOWSUP_REPO=dst, VERIF_OUT_DIR=os.path.join(work, "out"),
                       PYTHONDONTWRITEBYTECODE="1")
            t0 = time.time()
            p = subprocess.run([os.path.join(VERIF, "check"), pid, "--tier", tier], env=env,
                               stdout=subprocess.PIPE, stderr=subprocess.PIPE, text=True)
            viol = [l for l in p.stdout.splitlines() if l.startswith("VIOLATION")]
            keys = [l.strip() for l in p.stderr.splitlines() if l.strip().startswith("violated:")]
            status = "KILLED" if (p.returncode == 1 and viol) else ("SURVIVED" if p.returncode == 0 else "ERROR rc=%d" % p.returncode)
            print("%-9s %-45s %5.1fs %s" % (status, m["name"], time.time() - t0, " | ".join(keys)[:160]))
            if status.startswith("ERROR"):
                print(p.stderr[-1500:])
            results.append((m["name"], status))
        finally:
            shutil.rmtree(work, ignore_errors=True)
    bad = [r for r in results if r[1] != "KILLED"]
    print("%d/%d killed" % (len(results) - len(bad), len(results)))
    return 1 if bad else 0


if __name__ == "__main__":
    sys.exit(main())
