#!/venv/bin/python
"""tools/anchor_coverage.py <ID> [--tier quick|thorough] [--files glob ...]

Runs the property's check with line recording switched on (VERIF_COVERAGE_DIR, outputs redirected to a scratch directory)
and lists, for the files the property is anchored in (properties.jsonl, plus any --files), the executable lines no case
reached.  A generator hole shows up here as a handler, branch or whole function that is never executed."""
import fnmatch, glob, json, os, shutil, subprocess, sys, tempfile

VERIF = os.path.dirname(os.path.dirname(os.path.abspath(__file__)))
REPO = os.environ.get("YOWSUP_REPO", "/repo")


def executable_lines(path):
    src = open(path).read()
    code = compile(src, path, "exec")
    lines = set()
    stack = [code]
    while stack:
        c = stack.pop()
        if c.co_flags & 0x1:      # function bodies only: module and class bodies run at import time, before recording starts
            for _, _, ln in c.co_lines():
                if ln is not None and ln != c.co_firstlineno:
                    lines.add(ln)
        for k in c.co_consts:
            if hasattr(k, "co_lines"):
                stack.append(k)
    # drop def/class header-only and docstring lines: keep it simple - lines that hold only a string literal are dropped
    out = set()
    text = src.split("\n")
    for ln in lines:
        t = text[ln - 1].strip() if 0 < ln <= len(text) else ""
        if t.startswith(('"""', "'''", '"', "'")) or t.startswith(("def ", "class ", "@")) or not t:
            continue
        out.add(ln)
    return out, text


def main():
    args = sys.argv[1:]
    pid = args.pop(0).upper()
    tier = "quick"
    extra = []
    while args:
        a = args.pop(0)
        if a == "--tier":
            tier = args.pop(0)
        elif a == "--files":
            extra = args
            args = []
    prop = [json.loads(l) for l in open(os.path.join(VERIF, "properties.jsonl")) if json.loads(l)["id"] == pid][0]
    pats = list(prop["anchors"]["files"]) + extra
    files = []
    for pat in pats:
        files += [os.path.relpath(p, REPO) for p in glob.glob(os.path.join(REPO, pat)) if p.endswith(".py") and "/test" not in p]
    files = sorted(set(files))
    scratch = tempfile.mkdtemp(prefix="anchorcov_")
    try:
        env = dict(os.environ, VERIF_COVERAGE_DIR=os.path.join(scratch, "cov"), VERIF_OUT_DIR=os.path.join(scratch, "out"))
        r = subprocess.run([os.path.join(VERIF, "check"), pid, "--tier", tier], env=env, capture_output=True, text=True)
        print(r.stderr.strip().split("\n")[-1])
        hit = {}
        for f in glob.glob(os.path.join(scratch, "cov", "*.json")):
            for k, v in json.load(open(f)).items():
                hit.setdefault(k, set()).update(v)
        total = miss_total = 0
        for rel in files:
            ex, text = executable_lines(os.path.join(REPO, rel))
            got = hit.get(rel, set())
            miss = sorted(ex - got)
            total += len(ex)
            miss_total += len(miss)
            print("%-75s %4d/%4d lines reached" % (rel, len(ex) - len(miss), len(ex)))
            # group consecutive lines
            i = 0
            while i < len(miss):
                j = i
                while j + 1 < len(miss) and miss[j + 1] <= miss[j] + 2:
                    j += 1
                print("      %4d-%-4d %s" % (miss[i], miss[j], text[miss[i] - 1].strip()[:100]))
                i = j + 1
        print("TOTAL %d/%d executable lines of the anchor files reached" % (total - miss_total, total))
    finally:
        shutil.rmtree(scratch, ignore_errors=True)


main()
