#!/bin/bash
# tools/seed_run.sh <ID> [extra checks]   (worktree /tmp/seed_<SEED_NAME or ID>): evaluate a seeded change and record the result
ID=$1; shift
cd "$(dirname "$0")/.."
NAME=${SEED_NAME:-$ID}
OUT=$(tools/seed_eval.sh $ID /tmp/seed_$NAME $ID "$@" 2>&1 | grep SUMMARY)
echo "$OUT"
T=$(echo "$OUT" | sed "s/.*tests='\([^']*\)'.*/\1/")
DW=$(echo "$OUT" | sed "s/.*demo_with=\([0-9]*\).*/\1/")
DO=$(echo "$OUT" | sed "s/.*demo_without=\([0-9]*\).*/\1/")
CH=$(echo "$OUT" | sed "s/.*checks= *//")
tools/seed_record.py $ID "$T" $DW $DO "$CH"
