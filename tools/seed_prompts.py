#!/usr/bin/env python3
"""tools/seed_prompts.py <round> [IDs...]  -> /tmp/seed_prompt_<ID>-r<round>.txt + scratch worktree /tmp/seed_<ID>-r<round>

Writes the brief for an independent sub-agent that seeds a property-breaking change (DESIGN.md 10.6): the property's text, the
summaries of all earlier seeded changes for that property (from seeded/<ID>*/meta.json) with the request for a different mechanism
and trigger, the environment facts - and nothing from /verif.  Creates the agent's scratch worktree of /repo at HEAD.
"""
import os, sys, json, glob, subprocess

VERIF = os.path.dirname(os.path.dirname(os.path.abspath(__file__)))
rnd = int(sys.argv[1])
ids = [a.upper() for a in sys.argv[2:]] or ["C%02d" % i for i in range(1, 21)]
props = {}
for line in open(os.path.join(VERIF, "properties.jsonl")):
    d = json.loads(line)
    props[d["id"]] = d
words = {1: "one other engineer has", 2: "two other engineers have", 3: "three other engineers have", 4: "four other engineers have",
         5: "five other engineers have", 6: "six other engineers have", 7: "seven other engineers have"}
for pid in ids:
    p = props[pid]
    name = "%s-r%d" % (pid, rnd)
    wt = "/tmp/seed_" + name
    earlier = []
    for d in sorted(glob.glob(os.path.join(VERIF, "seeded", pid + "*"))):
        try:
            m = json.load(open(os.path.join(d, "meta.json")))
        except Exception:
            continue
        if m.get("property") != pid or not m.get("breaks"):
            continue
        earlier.append('"%s" (files: %s)' % (m["breaks"][:600], ", ".join(m.get("files") or [])))
    note = ""
    if earlier:
        note = ("NOTE: %s already tried these changes for the same property:\n" % words.get(len(earlier), "%d other engineers have" % len(earlier)) +
                "\n".join(" (%d) %s" % (i + 1, e) for i, e in enumerate(earlier)) +
                "\nDo NOT repeat any of them or a close variant. Study the code the property depends on and find a part of it (a function, a "
                "branch, an option, a data field, a helper the layers call) that NONE of those touched, and break the property there - with a "
                "mechanism and a trigger of a kind that does not appear in the list. The repository has moved on since those attempts, so read "
                "the current code. ")
    text = """You are testing how good a (hidden) verification suite for the Python library tgalal/yowsup is. You work ONLY inside your own scratch git worktree of the repository at {wt} (never touch /repo or /verif, and do not read anything under /verif).

The library is supposed to satisfy this property:

PROPERTY {pid}: {title}
Statement: {statement}
Holds for: {q}

Your task: make ONE small, realistic source change to the library in {wt} (the kind of slip or refactoring mistake a maintainer could plausibly commit) that BREAKS this property, while the code still imports and the repository's existing test suite still passes exactly as before. Prefer a change that needs something specific to manifest - a particular interleaving, a crash or fault at a particular point, a multi-step sequence of operations, an unusual input (a boundary size, a rare field combination), or two cooperating sites that each look fine alone - NOT a change that any ordinary use would expose immediately. Do not add comments that give the change away. Do not change tests.

{note}Do not use `git stash` (the stash is shared between worktrees): use `git diff > file; git checkout -- yowsup; ...; git apply file` instead.

Environment facts (python is /venv/bin/python 3.12; run everything with PYTHONPATH={wt} and cwd={wt} so that your worktree's `yowsup` package is the one imported; check with `python -c "import yowsup; print(yowsup.__file__)"`):
 * Existing test suite: `cd {wt} && /venv/bin/python -m pytest -q -p no:cacheprovider --continue-on-collection-errors` -> must report `79 passed` and 17 collection errors (those 17 errors are pre-existing: under python 3.12 the pinned `six` cannot serve `six.moves` to protobuf).
 * To import most of yowsup (anything touching protobuf, consonance, axolotl, yowsup.stacks) in your own demo you need these shims BEFORE importing yowsup: `import six, sys; sys.modules.setdefault('six.moves', six.moves)`. If you run the Noise handshake (consonance) also rebind `consonance.handshake.random` to an object whose randint() coerces its arguments to int (python 3.12 rejects float bounds). python-axolotl 0.2.2's `axolotl.sessioncipher.AESCipher.encrypt` does not pad block-aligned plaintexts (1 in 16 messages fails to decrypt); if your demo exchanges encrypted messages, patch it to always PKCS7-pad.
 * There is no network. Demos must be self-contained (drive layers/classes directly, use fakes for the peer/server where needed).

Deliverables, all inside {wt}:
 1. the source change itself (leave it applied in the worktree, uncommitted);
 2. `seed_demo.py` in the worktree root: a small standalone program (or unittest) that demonstrates the violation: it must exit non-zero / fail WITH your change and exit 0 / pass WITHOUT it (verify both: `git diff > /tmp/seed_{name}.patch; git checkout -- yowsup; ...; git apply /tmp/seed_{name}.patch`). Make sure the final state has the change applied;
 3. `seed_meta.json` in the worktree root: {{"property": "{pid}", "summary": one sentence on what was changed, "needs": what specific condition is needed for the violation to manifest, "files": [changed files], "commands": [the commands you ran to confirm: test suite result with the change, demo result with and without]}}.

Before finishing, re-run the existing test suite with the change applied and confirm 79 passed / 17 errors, and re-run the demo both ways. Report briefly: the diff (as text), what it needs to manifest, and the confirmation outputs. If, while reading the code, you notice something in the UNCHANGED library that already breaks the property, mention it at the end of your report (one paragraph, with the input that shows it).
""".format(wt=wt, pid=pid, title=p["title"], statement=p["statement"], q=p["quantifier"]["text"], note=note, name=name)
    with open("/tmp/seed_prompt_%s.txt" % name, "w") as f:
        f.write(text)
    if not os.path.isdir(wt):
        subprocess.run(["git", "-C", "/repo", "worktree", "add", "--detach", wt, "HEAD"], stdout=subprocess.DEVNULL, stderr=subprocess.DEVNULL)
    print(name, "earlier attempts:", len(earlier), "worktree:", os.path.isdir(wt))
