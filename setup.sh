#!/bin/sh
# Offline setup after a fresh restore: make sure hypothesis is importable by /venv (it normally is),
# and install atheris for the thorough-tier campaigns next to the harness (optional: checks degrade
# to Hypothesis-only when it is missing).
set -e
cd "$(dirname "$0")"
/venv/bin/python -c 'import hypothesis' 2>/dev/null || \
  /venv/bin/pip install --no-index --find-links /opt/veriftools/wheels hypothesis
if ! PYTHONPATH=.deps /venv/bin/python -c 'import atheris' 2>/dev/null; then
  /venv/bin/pip install --no-index --find-links /opt/veriftools/wheels --target .deps atheris >/dev/null 2>&1 || \
    echo "setup: atheris not installed (thorough-tier fuzz campaigns will be skipped)"
fi
/venv/bin/python -c 'import hypothesis; print("setup ok: hypothesis", hypothesis.__version__)'
